(* Tie C4: wsutil/utf8.go UTF8Reader.Read translated from the source (gen/Translated3.v), against the
   UTF8Reader step of model/Utf8Dfa.v (u8_scan / u8_read).  u.Source.Read is a stateful ORACLE (GoMem.g_reader):
   it answers (the bytes d it stores at the front of p, n, err); the method then runs the DFA over p[0..n). *)
From Coq Require Import NArith ZArith List Bool Lia ZifyBool ZifyN ZifyNat.
Require Import Bytes GoSlices GoMem GoMemProofs Translated3 Translated3Ok.
Require Import Stream Extracted Utf8Dfa.
Import ListNotations.
Open Scope Z_scope.

(* the loop body of UTF8Reader.Read as the translator prints it (p the buffer, n the count read) *)
Definition u8_body (v_p : slice) (v_n : Z)
  : g3_wsutil_UTF8Reader * Z * Z * Z * Z -> M (step (g3_wsutil_UTF8Reader * Z * Z * Z * Z) (Z * option g_error * g3_wsutil_UTF8Reader)) :=
  (fun '(v_u, v_accepted, v_s, v_c, v_i) =>
    if (v_i <? v_n) then (
      t6 <- m_index v_p v_i;;
      '(t7, t8) <- g3_wsutil_decode v_s v_c t6;;
      let v_c := t7 in
      let v_s := t8 in
      if (v_s =? (12 (* utf8Reject *))) then (
        let v_u := (g3_mk_wsutil_UTF8Reader (g3_wsutil_UTF8Reader_Source v_u) (g3_wsutil_UTF8Reader_accepted v_u) v_s (g3_wsutil_UTF8Reader_codep v_u)) in
        ret (Return (v_accepted, (Some E_wsutil_ErrInvalidUTF8), v_u))
      ) else (
        if (v_s =? (0 (* utf8Accept *))) then (
          let v_accepted := (wrap_s 64 (v_i + 1)) in
          let v_i := (wrap_s 64 (v_i + 1)) in
          ret (Continue (v_u, v_accepted, v_s, v_c, v_i))
        ) else (
          let v_i := (wrap_s 64 (v_i + 1)) in
          ret (Continue (v_u, v_accepted, v_s, v_c, v_i))
        )
      )
    ) else ret (Break (v_u, v_accepted, v_s, v_c, v_i)))%gomem.

Lemma u8_loop p n w u : sl_valid w p -> n <= sl_len p -> n <= max_int ->
  forall rest fuel sN accN iN c,
  In (Z.of_N sN) u8_states -> wf_bytes rest ->
  (forall k, (k < length rest)%nat -> nth (N.to_nat iN + k) (sl_bytes w p) 0 = Z.of_N (nth k rest 0%N)) ->
  n = Z.of_N iN + Z.of_nat (length rest) -> (length rest < fuel)%nat ->
  let '(st', acc', rej) := u8_scan sN accN iN rest in
  exists c',
    m_loop fuel (u8_body p n) (u, Z.of_N accN, Z.of_N sN, c, Z.of_N iN) w =
    Ok (if rej
        then inr (Z.of_N acc', Some E_wsutil_ErrInvalidUTF8,
                  g3_mk_wsutil_UTF8Reader (g3_wsutil_UTF8Reader_Source u) (g3_wsutil_UTF8Reader_accepted u)
                    (Z.of_N st') (g3_wsutil_UTF8Reader_codep u))
        else inl (u, Z.of_N acc', Z.of_N st', c', n), w)
    /\ In (Z.of_N st') u8_states.
Proof.
  intros Hv Hn Hmax. unfold max_int in Hmax.
  induction rest as [|x r IH]; intros fuel sN accN iN c Hs Hwf Hnth Hlen Hfuel;
    (destruct fuel as [|fuel]; [lia|]); cbn [m_loop u8_scan]; unfold u8_body at 1.
  - cbn [length] in Hlen. replace (Z.of_N iN <? n) with false by lia. cbv [ret].
    exists c. replace n with (Z.of_N iN) by lia. split; [reflexivity|exact Hs].
  - cbn [length] in Hlen, Hfuel. replace (Z.of_N iN <? n) with true by lia.
    erewrite mbind_ok by (apply m_index_ok; [exact Hv|lia]).
    replace (Z.to_nat (Z.of_N iN)) with (N.to_nat iN + 0)%nat by lia.
    rewrite (Hnth 0%nat) by (cbn [length]; lia). cbn [nth].
    inversion Hwf as [|? ? Hx Hr]; subst.
    destruct (g3_wsutil_decode_ok (Z.of_N sN) c (Z.of_N x) w Hs ltac:(unfold wf_byte in Hx; lia)) as (cp' & Hd & Hs').
    rewrite !N2Z.id in Hd, Hs'. rewrite (mbind_ok _ _ _ _ _ Hd). cbv zeta.
    set (s' := u8_decode sN x) in *.
    replace (Z.of_N s' =? 12) with (s' =? utf8_reject)%N by (unfold utf8_reject; lia).
    destruct (s' =? utf8_reject)%N eqn:Er.
    + cbv [ret]. exists c. split; [reflexivity|exact Hs'].
    + replace (Z.of_N s' =? 0) with (s' =? utf8_accept)%N by (unfold utf8_accept; lia).
      rewrite wrap_s64_id by lia.
      assert (Hn' : forall k, (k < length r)%nat -> nth (N.to_nat (iN + 1) + k) (sl_bytes w p) 0 = Z.of_N (nth k r 0%N)).
      { intros k Hk. replace (N.to_nat (iN + 1) + k)%nat with (N.to_nat iN + S k)%nat by lia.
        rewrite (Hnth (S k)) by (cbn [length]; lia). reflexivity. }
      replace (Z.of_N iN + 1) with (Z.of_N (iN + 1)) by lia.
      destruct (s' =? utf8_accept)%N eqn:Ea; cbv [ret];
        apply (IH fuel s' _ (iN + 1)%N cp' Hs' Hr Hn'); lia.
Qed.

Lemma nth_firstn_lt {A} (l : list A) n k d : (k < n)%nat -> nth k (firstn n l) d = nth k l d.
Proof.
  revert n k. induction l as [|x l IH]; intros n k H.
  - now rewrite firstn_nil.
  - destruct n as [|n]; [lia|]. destruct k as [|k]; [reflexivity|]. cbn [firstn nth]. apply IH. lia.
Qed.

Lemma go_bytes_firstn n l : go_bytes l -> go_bytes (firstn n l).
Proof.
  unfold go_bytes. intros H. revert n. induction H as [|x l Hx _ IH]; intros [|n]; cbn [firstn]; try constructor; auto.
Qed.

(* UTF8Reader.Read: one step.  (d, n, e) is what u.Source.Read(p) answers on this call (d = the bytes it
   stores at the front of p).  Under the io.Reader contract (it stores bytes, at most len(p) of them, and reports
   0 <= n <= what it stored) the method returns normally, p holds d, the reader has advanced, and the results
   and fields are those of the model step u8_scan over the n bytes read:  rejected -> (accepted so far,
   ErrInvalidUTF8), state = reject, accepted field and codep untouched;  otherwise -> (n, the reader's err),
   state and accepted field updated (codep is private: some value). *)
Theorem g3_UTF8Reader_Read_ok w u p d n e :
  sl_valid w p -> sl_len p <= max_int ->
  In (g3_wsutil_UTF8Reader_state u) u8_states ->
  rd_fun (g3_wsutil_UTF8Reader_Source u) (rd_hist (g3_wsutil_UTF8Reader_Source u)) (sl_len p) = (d, n, e) ->
  go_bytes d -> go_len d <= sl_len p -> 0 <= n <= go_len d ->
  let b := nb (firstn (Z.to_nat n) d) in
  let src' := rd_next (g3_wsutil_UTF8Reader_Source u) (sl_len p) in
  let '(st', acc, rej) := u8_scan (Z.to_N (g3_wsutil_UTF8Reader_state u)) 0 0 b in
  exists cp',
    g3_wsutil_UTF8Reader_Read u p w =
    Ok (if rej
        then (Z.of_N acc, Some E_wsutil_ErrInvalidUTF8,
              g3_mk_wsutil_UTF8Reader src' (g3_wsutil_UTF8Reader_accepted u) (Z.of_N st') (g3_wsutil_UTF8Reader_codep u))
        else (n, e, g3_mk_wsutil_UTF8Reader src' (Z.of_N acc) (Z.of_N st') cp'),
        sl_blit w p 0 d)
    /\ In (Z.of_N st') u8_states.
Proof.
  intros Hv Hmax Hst Hrd Hd Hdl Hn b src'.
  destruct u as [src acc0 st0 cp0].
  cbn [g3_wsutil_UTF8Reader_Source g3_wsutil_UTF8Reader_accepted g3_wsutil_UTF8Reader_state g3_wsutil_UTF8Reader_codep] in *.
  assert (Hst0 : st0 = Z.of_N (Z.to_N st0)).
  { unfold u8_states in Hst. cbn [In] in Hst. lia. }
  set (u1 := g3_mk_wsutil_UTF8Reader src' acc0 st0 cp0).
  set (w' := sl_blit w p 0 d).
  assert (Hw' : w' = sl_put w p (list_blit (sl_bytes w p) 0 d)).
  { subst w'. rewrite (sl_blit_put w p 0 d Hv) by lia. reflexivity. }
  pose proof (sl_bytes_length _ _ Hv) as Hpl.
  assert (Hbl : go_len (list_blit (sl_bytes w p) 0 d) = sl_len p).
  { unfold go_len in *. rewrite list_blit_length; destruct Hv as (_ & _ & ? & _); lia. }
  assert (Hv' : sl_valid w' p) by (rewrite Hw'; apply sl_valid_put; assumption).
  assert (Hb' : sl_bytes w' p = d ++ skipn (length d) (sl_bytes w p)).
  { rewrite Hw'. rewrite sl_bytes_put by assumption. reflexivity. }
  assert (Hlenb : length b = Z.to_nat n).
  { subst b. unfold nb. rewrite map_length, firstn_length. unfold go_len in *. lia. }
  pose proof (u8_loop p n w' u1 Hv' ltac:(lia) ltac:(lia) b (Z.to_nat (sl_len p) + 65)%nat (Z.to_N st0) 0%N 0%N cp0) as HL.
  rewrite <- Hst0 in HL.
  specialize (HL Hst (wf_bytes_nb _ (go_bytes_firstn _ _ Hd))).
  assert (Hnth : forall k, (k < length b)%nat -> nth (N.to_nat 0 + k) (sl_bytes w' p) 0 = Z.of_N (nth k b 0%N)).
  { intros k Hk. cbn [N.to_nat Nat.add]. rewrite Hb'. rewrite app_nth1 by (unfold go_len in *; lia).
    subst b. rewrite <- zb_nth. rewrite zb_nb by (apply go_bytes_firstn; exact Hd).
    rewrite nth_firstn_lt by lia. reflexivity. }
  assert (H1 : n = Z.of_N 0 + Z.of_nat (@length byte b)) by (change (@length byte b) with (@length N b); lia).
  assert (H2 : (@length byte b < Z.to_nat (sl_len p) + 65)%nat)
    by (change (@length byte b) with (@length N b); destruct Hv as (_ & _ & ? & _); lia).
  specialize (HL Hnth H1 H2).
  destruct (u8_scan (Z.to_N st0) 0 0 b) as [[st' acc] rej].
  destruct HL as (c' & HL & Hs').
  unfold g3_wsutil_UTF8Reader_Read.
  cbn [g3_wsutil_UTF8Reader_Source g3_wsutil_UTF8Reader_accepted g3_wsutil_UTF8Reader_state g3_wsutil_UTF8Reader_codep].
  unfold m_io_read at 1. unfold mbind at 1. rewrite Hrd. replace (go_len d <=? sl_len p) with true by lia.
  cbv zeta. fold src'. fold w'.
  cbn [g3_wsutil_UTF8Reader_Source g3_wsutil_UTF8Reader_accepted g3_wsutil_UTF8Reader_state g3_wsutil_UTF8Reader_codep].
  fold u1. change (Z.of_N 0) with 0 in HL.
  match goal with |- context [m_loop ?f ?bd ?s0] => change (m_loop f bd s0) with (m_loop f (u8_body p n) s0) end.
  rewrite (mbind_ok _ _ _ _ _ HL).
  destruct rej.
  - exists cp0. split; [reflexivity|exact Hs'].
  - exists c'. split; [reflexivity|exact Hs'].
Qed.

Example g3_UTF8Reader_Read_example :
  (* the reader stores E2 82 AC 41 C3 (euro sign, A, and the first byte of a 2-byte sequence): 4 bytes accepted,
     the DFA is left in the middle of a sequence (state 24); then on C0 it rejects *)
  let rd : g_reader g_error := mk_reader [] (fun h k => if (length h =? 0)%nat then ([226; 130; 172; 65; 195], 5, None) else ([192], 1, None)) in
  let u := g3_mk_wsutil_UTF8Reader rd 0 0 0 in
  let w := mk_world [[7; 7; 7; 7; 7; 7; 7; 7]] [] in
  let p := mk_slice 0 1 6 7 in
  match g3_wsutil_UTF8Reader_Read u p w with
  | Ok ((n, e, u'), w') =>
      n = 5 /\ e = None /\ g3_wsutil_UTF8Reader_accepted u' = 4 /\ g3_wsutil_UTF8Reader_state u' = 24
      /\ w_heap w' = [[7; 226; 130; 172; 65; 195; 7; 7]]
      /\ match g3_wsutil_UTF8Reader_Read u' p w' with
         | Ok ((n2, e2, u2), _) => n2 = 0 /\ e2 = Some E_wsutil_ErrInvalidUTF8 /\ g3_wsutil_UTF8Reader_state u2 = 12
                                   /\ g3_wsutil_UTF8Reader_accepted u2 = 4
         | _ => False
         end
  | _ => False
  end.
Proof. vm_compute. repeat split; reflexivity. Qed.
