(* ReaderInvalidProofs.v — C18, reader clause, for the usage "Read reported
   ErrInvalidUTF8, the caller calls Discard and goes on with NextFrame".

   Method.  Discard never looks at CheckUTF8, at the UTF8Reader (source, state,
   accepted count), at r.frame or at r.opCode: it drains r.raw, calls NextFrame
   (which only WRITES those fields) and ends in reset(), which overwrites them.
   Read looks at CheckUTF8 and the UTF8Reader only to decide whether to report
   ErrInvalidUTF8.  So a Reader with CheckUTF8 on runs, up to its FIRST
   ErrInvalidUTF8, in lock step with the Reader of the same configuration with
   CheckUTF8 off on the same source ([simR]); at that error the two still agree in
   everything Discard reads ([simD]); and for the Reader with CheckUTF8 off the
   stream is one that the spec accepts, so the theorems of ReaderFreshProofs.v
   (any Reads, then Discard: nil, source at the next message, at rest) apply. *)
Require Import Bytes Stream Utf8Spec Check Frame Cipher Utf8Dfa Extracted ExtractedOk Reader ReaderStream ReaderStreamC13
  ReaderInvalid
  BytesProofs StreamProofs CheckProofs FrameProofs CipherProofs Utf8Proofs ReaderLocalProofs
  ReaderAux ReaderInv ReaderProofs ReaderMoreProofs ReaderTotalProofs ReaderStreamC05 ReaderStreamC07
  ReaderStreamC13Proofs ReaderFreshProofs.
From Coq Require Import ZifyBool ZifyN ZifyNat.
Open Scope N_scope.

(* ================================================================== 1. the two relations *)
(* what Discard reads: everything but CheckUTF8 (on in [r], off in [r']), opCode, frame, the UTF8Reader *)
Definition simD (r r' : reader) : Prop :=
  r_src r = r_src r' /\ r_state r = r_state r' /\ r_skip r = r_skip r' /\ r_max r = r_max r' /\
  r_ext r = r_ext r' /\ r_compressed r = r_compressed r' /\ r_cb r = r_cb r' /\ r_rawN r = r_rawN r' /\
  r_masked r = r_masked r' /\ r_key r = r_key r' /\ r_cpos r = r_cpos r' /\ r_log r = r_log r' /\
  r_check_utf8 r = true /\ r_check_utf8 r' = false.
(* lock step of the Reads: also opCode and frame; [r'] never wraps a frame in the UTF8Reader *)
Definition simR (r r' : reader) : Prop :=
  simD r r' /\ r_opcode r = r_opcode r' /\ r_frame r = r_frame r' /\ r_u8wrap r' = false.

Ltac simD_open H :=
  match type of H with simD ?r ?r' =>
    destruct r as [s st sk ch mx ex cm cb op fr rn mk ky cp uw us ua lg];
    destruct r' as [s' st' sk' ch' mx' ex' cm' cb' op' fr' rn' mk' ky' cp' uw' us' ua' lg'];
    unfold simD in H; rsimpl;
    destruct H as (? & ? & ? & ? & ? & ? & ? & ? & ? & ? & ? & ? & ? & ?); subst
  end.
Ltac simR_open H :=
  match type of H with simR ?r ?r' =>
    destruct r as [s st sk ch mx ex cm cb op fr rn mk ky cp uw us ua lg];
    destruct r' as [s' st' sk' ch' mx' ex' cm' cb' op' fr' rn' mk' ky' cp' uw' us' ua' lg'];
    unfold simR, simD in H; rsimpl;
    destruct H as ((? & ? & ? & ? & ? & ? & ? & ? & ? & ? & ? & ? & ? & ?) & ? & ? & ?); subst
  end.
Ltac closeD := unfold simD; rsimpl; repeat split; try reflexivity.
Ltac closeR := unfold simR, simD; rsimpl; repeat split; try reflexivity.
Ltac close_eqR := cbn [fst snd]; (split; [reflexivity|closeR]).
Ltac close_eqD := cbn [fst snd]; (split; [reflexivity|closeD]).

Lemma simR_D r r' : simR r r' -> simD r r'.
Proof. intros [H _]. exact H. Qed.

Lemma simD_fields r r' : simD r r' -> r_src r = r_src r' /\ r_state r = r_state r' /\ r_rawN r = r_rawN r'.
Proof. intros (H1 & H2 & _ & _ & _ & _ & _ & H8 & _). repeat split; assumption. Qed.

Lemma simR_fields r r' : simR r r' -> r_state r = r_state r' /\ r_frame r = r_frame r'.
Proof. intros ((_ & H2 & _) & _ & H & _). split; assumption. Qed.

(* ================================================================== 2. NextFrame *)
Lemma next_frame_simR r r' : simR r r' ->
  fst (next_frame r) = fst (next_frame r') /\ simR (snd (next_frame r)) (snd (next_frame r')).
Proof.
  intros H. simR_open H. unfold next_frame, cb_read_all, raw_drain. rsimpl. cbv zeta.
  destruct (reader_read_header _) as [[e0|hdr] s1]; [close_eqR|].
  match goal with |- context [if ?b then None else check_header hdr ?x] =>
    destruct (if b then None else check_header hdr x) end; [close_eqR|].
  match goal with |- context [((0 <? ?x)%Z && (?x <? h_len hdr)%Z)] =>
    destruct ((0 <? x)%Z && (x <? h_len hdr)%Z) end; [close_eqR|].
  match goal with |- context [if ?b then unset_bits hdr ?x else Some (hdr, ?x)] =>
    destruct (if b then unset_bits hdr x else Some (hdr, x)) as [[hdr' comp']|] end; [|close_eqR].
  match goal with |- context [st_fragmented ?x && op_is_control (h_op hdr')] => destruct (st_fragmented x && op_is_control (h_op hdr')) end; [|close_eqR].
  match goal with |- context [match ?c with CbNone => _ | CbReadAll => _ end] => destruct c end; rsimpl.
  - destruct (read_full _ _) as [[b0 e0] s2]. destruct e0 as [[| |]|]; cbn [option_map]; close_eqR.
  - destruct (read_full _ _) as [[b0 e0] s2]. destruct e0 as [[| |]|]; try close_eqR.
    rsimpl. destruct (read_full _ _) as [[b1 e1] s3]. destruct e1 as [[| |]|]; cbn [option_map]; close_eqR.
Qed.

Lemma next_frame_simD r r' : simD r r' ->
  fst (next_frame r) = fst (next_frame r') /\ simD (snd (next_frame r)) (snd (next_frame r')).
Proof.
  intros H. simD_open H. unfold next_frame, cb_read_all, raw_drain. rsimpl. cbv zeta.
  destruct (reader_read_header _) as [[e0|hdr] s1]; [close_eqD|].
  match goal with |- context [if ?b then None else check_header hdr ?x] =>
    destruct (if b then None else check_header hdr x) end; [close_eqD|].
  match goal with |- context [((0 <? ?x)%Z && (?x <? h_len hdr)%Z)] =>
    destruct ((0 <? x)%Z && (x <? h_len hdr)%Z) end; [close_eqD|].
  match goal with |- context [if ?b then unset_bits hdr ?x else Some (hdr, ?x)] =>
    destruct (if b then unset_bits hdr x else Some (hdr, x)) as [[hdr' comp']|] end; [|close_eqD].
  match goal with |- context [st_fragmented ?x && op_is_control (h_op hdr')] => destruct (st_fragmented x && op_is_control (h_op hdr')) end; [|close_eqD].
  match goal with |- context [match ?c with CbNone => _ | CbReadAll => _ end] => destruct c end; rsimpl.
  - destruct (read_full _ _) as [[b0 e0] s2]. destruct e0 as [[| |]|]; cbn [option_map]; close_eqD.
  - destruct (read_full _ _) as [[b0 e0] s2]. destruct e0 as [[| |]|]; try close_eqD.
    rsimpl. destruct (read_full _ _) as [[b1 e1] s3]. destruct e1 as [[| |]|]; cbn [option_map]; close_eqD.
Qed.

(* ================================================================== 3. Read *)
Lemma frame_read_simR k r r' : simR r r' ->
  simR (snd (frame_read k r)) (snd (frame_read k r')) /\
  (snd (fst (frame_read k r)) = Some RInvalidUtf8 \/ fst (frame_read k r) = fst (frame_read k r')).
Proof.
  intros H. simR_open H. unfold frame_read, raw_read; rsimpl.
  (destruct (_ =? 0); [|destruct (read1 _ _) as [[b0 e0] s1]]); cbv beta iota zeta; rsimpl;
  (destruct uw; [destruct (u8_scan _ _ _ _) as [[stt acc] rej]; destruct rej|]); cbn [fst snd];
  (split; [closeR|first [left; reflexivity|right; reflexivity]]).
Qed.

Lemma rat_eof_simR d r r' : simR r r' ->
  (snd (fst (rat_eof d r)) = Some RInvalidUtf8 /\ simD (snd (rat_eof d r)) (snd (rat_eof d r'))) \/
  (fst (rat_eof d r) = fst (rat_eof d r') /\ simR (snd (rat_eof d r)) (snd (rat_eof d r'))).
Proof.
  intros H. simR_open H. unfold rat_eof. rsimpl. cbn [andb].
  match goal with |- context [negb (?x =? 0)] => destruct (x =? 0) eqn:E0 end; cbn [negb].
  2: { right. close_eqR. }
  apply N.eqb_eq in E0. subst.
  destruct (st_fragmented _); [right; close_eqR|].
  destruct (negb (_ =? utf8_accept)).
  - left. cbn [fst snd]. split; [reflexivity|closeD].
  - right. close_eqR.
Qed.

(* whatever the Reader with CheckUTF8 off does at the end of a frame keeps what Discard reads *)
Lemma rat_eof_simD d r r' : simD r r' -> simD r (snd (rat_eof d r')).
Proof.
  intros H. simD_open H. unfold rat_eof. rsimpl. cbn [andb].
  match goal with |- context [negb (?x =? 0)] => destruct (x =? 0) eqn:E0 end; cbn [negb fst snd]; [|closeD].
  apply N.eqb_eq in E0. subst.
  destruct (st_fragmented _); cbn [fst snd]; closeD.
Qed.

Lemma rgo_simR k r r' : simR r r' ->
  (snd (fst (rgo k r)) = Some RInvalidUtf8 /\ simD (snd (rgo k r)) (snd (rgo k r'))) \/
  (fst (rgo k r) = fst (rgo k r') /\ simR (snd (rgo k r)) (snd (rgo k r'))).
Proof.
  intros H. unfold rgo. destruct (frame_read_simR k r r' H) as [S E].
  destruct (frame_read k r) as [[data e] r2]. destruct (frame_read k r') as [[data' e'] r2'].
  cbn [fst snd] in S, E. destruct E as [E|E].
  - subst e. left. cbn [fst snd]. split; [reflexivity|]. apply simR_D in S.
    destruct e' as [e'|].
    + destruct e' as [[| |]| | | | | | | |]; cbn [snd]; try exact S. apply rat_eof_simD, S.
    + destruct (negb (r_rawN r2' =? 0)); cbn [snd]; [exact S|apply rat_eof_simD, S].
  - injection E as <- <-.
    pose proof (rat_eof_simR data r2 r2' S) as A.
    destruct (simD_fields _ _ (simR_D _ _ S)) as (_ & _ & Hrn).
    destruct e as [e|].
    + destruct e as [[| |]| | | | | | | |]; cbn [fst snd]; try (right; split; [reflexivity|exact S]). exact A.
    + rewrite Hrn. destruct (negb (r_rawN r2' =? 0)); [right; split; [reflexivity|exact S]|exact A].
Qed.

Lemma reader_read_simR k r r' : simR r r' ->
  (snd (fst (reader_read k r)) = Some RInvalidUtf8 /\ simD (snd (reader_read k r)) (snd (reader_read k r'))) \/
  (fst (reader_read k r) = fst (reader_read k r') /\ simR (snd (reader_read k r)) (snd (reader_read k r'))).
Proof.
  intros H. rewrite !reader_read_eq. destruct (simR_fields _ _ H) as (Hst & Hfr).
  rewrite Hst. destruct (r_frame r) eqn:Efr; rewrite <- Hfr.
  - apply rgo_simR, H.
  - destruct (negb (st_fragmented (r_state r'))); [right; split; [reflexivity|exact H]|].
    destruct (next_frame_simR r r' H) as [E S].
    destruct (next_frame r) as [[h e] r1]. destruct (next_frame r') as [[h' e'] r1'].
    cbn [fst snd] in E, S. injection E as <- <-.
    destruct e as [e|]; [right; split; [reflexivity|exact S]|].
    destruct (simR_fields _ _ S) as (_ & Hfr1).
    destruct (r_frame r1) eqn:Efr1; rewrite <- Hfr1.
    + apply rgo_simR, S.
    + right; split; [reflexivity|exact S].
Qed.

(* ================================================================== 4. Discard *)
Lemma raw_drain_simD r r' : simD r r' ->
  fst (raw_drain r) = fst (raw_drain r') /\ simD (snd (raw_drain r)) (snd (raw_drain r')).
Proof.
  intros H. simD_open H. unfold raw_drain. rsimpl. destruct (read_full _ _) as [[b0 e0] s1].
  destruct e0 as [[| |]|]; close_eqD.
Qed.

Lemma reset_simD r r' : simD r r' -> simD (reset r) (reset r').
Proof. intros H. simD_open H. unfold reset. closeD. Qed.

Lemma discard_simD : forall fuel r r', simD r r' ->
  fst (discard fuel r) = fst (discard fuel r') /\ simD (snd (discard fuel r)) (snd (discard fuel r')).
Proof.
  induction fuel as [|fuel IH]; intros r r' H; cbn [discard]; [split; [reflexivity|exact H]|].
  destruct (raw_drain_simD r r' H) as [E S].
  destruct (raw_drain r) as [e r1]. destruct (raw_drain r') as [e' r1']. cbn [fst snd] in E, S. subst e'.
  destruct e as [e|]; [cbn [fst snd]; split; [reflexivity|apply reset_simD, S]|].
  destruct (simD_fields _ _ S) as (_ & Hst & _). rewrite Hst.
  destruct (negb (st_fragmented (r_state r1'))); [cbn [fst snd]; split; [reflexivity|apply reset_simD, S]|].
  destruct (next_frame_simD r1 r1' S) as [E2 S2].
  destruct (next_frame r1) as [[h e2] r2]. destruct (next_frame r1') as [[h' e2'] r2'].
  cbn [fst snd] in E2, S2. injection E2 as <- <-.
  destruct e2 as [e2|]; [cbn [fst snd]; split; [reflexivity|apply reset_simD, S2]|].
  apply IH, S2.
Qed.

(* ================================================================== 5. scripts *)
Lemma run_script_app : forall a b r, run_script (a ++ b) r =
  let '(oa, ra) := run_script a r in let '(ob, rb) := run_script b ra in (oa ++ ob, rb).
Proof.
  induction a as [|op a IH]; intros b r.
  - cbn [app run_script]. destruct (run_script b r); reflexivity.
  - cbn [app run_script].
    match goal with |- context [match op with OpNext => ?x | OpRead k => @?y k | OpDiscard => ?z end] =>
      destruct (match op with OpNext => x | OpRead k => y k | OpDiscard => z end) as [o r1] end.
    rewrite IH. destruct (run_script a r1) as [oa ra]. destruct (run_script b ra) as [ob rb]. reflexivity.
Qed.

(* the Reads before the first ErrInvalidUTF8: same results, still in lock step *)
Lemma reads_simR : forall ks r r' outs r1, simR r r' ->
  run_script (map OpRead ks) r = (outs, r1) -> Forall not_invalid outs ->
  fst (run_script (map OpRead ks) r') = outs /\ simR r1 (snd (run_script (map OpRead ks) r')).
Proof.
  induction ks as [|k ks IH]; intros r r' outs r1 H Hrun Hok.
  - cbn [map run_script] in *. injection Hrun as <- <-. split; [reflexivity|exact H].
  - cbn [map run_script] in *.
    set (kk := if k =? 0 then 1 else k) in *.
    destruct (reader_read_simR kk r r' H) as [[Einv _]|[E S]].
    + exfalso. destruct (reader_read kk r) as [[d e] ra]. cbn [fst snd] in Einv. subst e.
      destruct (run_script (map OpRead ks) ra) as [os rb]. injection Hrun as <- <-.
      apply (Forall_inv Hok d). reflexivity.
    + destruct (reader_read kk r) as [[d e] ra]. destruct (reader_read kk r') as [[d' e'] ra'].
      cbn [fst snd] in E, S. injection E as <- <-.
      destruct (run_script (map OpRead ks) ra) as [os rb] eqn:Hrest. injection Hrun as <- <-.
      apply Forall_inv_tail in Hok.
      destruct (IH ra ra' os rb S Hrest Hok) as [E2 S2].
      destruct (run_script (map OpRead ks) ra') as [os' rb']. cbn [fst snd] in *. subst os'.
      split; [reflexivity|exact S2].
Qed.

(* ================================================================== 6. back to the configuration with CheckUTF8 on *)
Lemma wf_cfg_no_utf8 c : wf_cfg c -> wf_cfg (no_utf8 c).
Proof. intros H. exact H. Qed.

Lemma bnd_transfer c lg rest r r' : c_check_utf8 c = true ->
  Bnd (no_utf8 c) None lg rest r' -> simD r r' -> at_rest r -> Bnd c None lg rest r.
Proof.
  intros Hchk [Hcfg Hsrc Hwf Hlog Hst Hnoext Hmsg] S Hrest.
  destruct S as (S1 & S2 & S3 & S4 & S5 & S6 & S7 & S8 & S9 & S10 & S11 & S12 & S13 & S14).
  destruct Hcfg as (C1 & C2 & C3 & C4 & C5). cbn [no_utf8 c_state c_check_utf8 c_max c_ext] in *.
  constructor; cbn [is_some].
  - unfold cfg_ok. rewrite S3, S4, S5, S7, S13, Hchk. repeat split; assumption.
  - unfold src_ok in *. rewrite S1. exact Hsrc.
  - exact Hwf.
  - rewrite S12. exact Hlog.
  - rewrite S2. exact Hst.
  - intros X. rewrite S6. apply Hnoext, X.
  - apply at_rest_fields, Hrest.
Qed.

(* ================================================================== 7. C18: Discard after ErrInvalidUTF8 *)
Theorem reader_discard_after_invalid_as_new : forall c rsv0 op k0 p0 l rest s ks k o0 outs d r1,
  let m1 := msg_frames_rsv rsv0 op k0 p0 l in
  let flag := c_ext c && rsv1_bit rsv0 in
  wf_cfg c -> c_check_utf8 c = true -> (op = 1 \/ op = 2) -> Forall wf_sframe (m1 ++ rest) ->
  Forall (fun x => Forall (fun f => ctl_ok f = true) (fr_ctl x)) l ->
  wire_ok c (m1 ++ rest) ->
  wf_src s -> tl s = TEOF -> flat s = wire (m1 ++ rest) ->
  let r0 := new_reader s (c_state c) false (c_check_utf8 c) (c_max c) (c_ext c) CbReadAll in
  run_script (OpNext :: map OpRead ks ++ [OpRead k]) r0 = (o0 :: outs ++ [OutRead d (Some RInvalidUtf8)], r1) ->
  Forall not_invalid outs ->
  exists r2, run_script [OpDiscard] r1 = ([OutDiscard None], r2) /\ reads_on_as_new c rest flag r2.
Proof.
  intros c rsv0 op k0 p0 l rest s ks k o0 outs d r1 m1 flag Hc Hchk Hop Hfs Hctl Hclean Hw Ht Hfl r0 Hrun Hok.
  unfold wire_ok in Hclean. set (cn := no_utf8 c) in *.
  pose proof (wf_cfg_no_utf8 c Hc) as Hcn. fold cn in Hcn.
  pose proof (after_first_msg rsv0 op k0 p0 l rest Hctl) as Haf. fold m1 in Haf.
  assert (Hshape: exists f ftl, m1 ++ rest = f :: ftl /\ spec_control (sf_op f) = false /\ c_ext c && rsv1 f = flag).
  { unfold m1, msg_frames_rsv. cbn [app]. do 2 eexists. split; [reflexivity|]. cbn [sf_op].
    split; [destruct Hop as [-> | ->]; reflexivity|reflexivity]. }
  destruct Hshape as (f & tl0 & Heq & Hnctl & Hflag). rewrite Heq in *.
  (* the Reader with CheckUTF8 off *)
  destruct (first_step cn f tl0 s Hcn Hfs Hclean Hw Ht Hfl) as (hn & r1n & Hnfn & HM & Hcl & Hlen).
  set (r0n := new_reader s (c_state cn) false (c_check_utf8 cn) (c_max cn) (c_ext cn) CbReadAll) in *.
  assert (HP: PInv cn (after_first (f :: tl0)) (c_ext cn && rsv1 f) r1n).
  { left. exists (MMid (msg_of cn None f) f [] (sf_payload f)), [], tl0, 0%nat, [].
    split; [exact HM|]. split; [intros m X; discriminate X|]. split; [reflexivity|]. split; [exact Hcl|].
    split; [exact Hnctl|reflexivity]. }
  destruct (reads_then_discard cn _ _ Hcn (ks ++ [k]) r1n HP) as (outsn & r2n & Hrunn & _ & lg & HBn & Hrestn & Hcmn).
  (* lock step *)
  assert (S0: simR r0 r0n).
  { unfold r0, r0n, cn, new_reader, simR, simD. rsimpl. rewrite Hchk. cbn [no_utf8 c_state c_check_utf8 c_max c_ext].
    repeat split; reflexivity. }
  destruct (next_frame_simR r0 r0n S0) as [E1 S1]. rewrite Hnfn in E1, S1. cbn [fst snd] in E1, S1.
  change (OpNext :: map OpRead ks ++ [OpRead k]) with ([OpNext] ++ (map OpRead ks ++ [OpRead k])) in Hrun.
  cbn [app run_script] in Hrun.
  destruct (next_frame r0) as [[h0 e0] ra]. cbn [fst snd] in E1, S1. injection E1 as -> ->.
  rewrite run_script_app in Hrun.
  destruct (run_script (map OpRead ks) ra) as [oa rb] eqn:HA.
  cbn [run_script] in Hrun.
  set (kk := if k =? 0 then 1 else k) in *.
  destruct (reader_read kk rb) as [[dd ee] rc] eqn:HB.
  injection Hrun as <- Houts <-.
  apply app_inj_tail in Houts. destruct Houts as [-> Hlast]. injection Hlast as -> ->.
  rewrite map_app in Hrunn. cbn [map] in Hrunn. rewrite !run_script_app in Hrunn.
  destruct (reads_simR ks ra r1n outs rb S1 HA Hok) as [E2 S2].
  destruct (run_script (map OpRead ks) r1n) as [oan rbn]. cbn [fst snd] in E2, S2. subst oan.
  cbn [run_script] in Hrunn. fold kk in Hrunn.
  assert (S3: simD rc (snd (reader_read kk rbn))).
  { destruct (reader_read_simR kk rb rbn S2) as [[_ X]|[_ X]]; rewrite HB in X; cbn [snd] in X;
      [exact X|exact (simR_D _ _ X)]. }
  destruct (reader_read kk rbn) as [[ddn een] rcn]. cbn [snd] in S3.
  destruct (simD_fields _ _ S3) as (Hsrc & _).
  destruct (discard_simD (S (length (flat (r_src rcn)))) rc rcn S3) as [E4 S4].
  destruct (discard (S (length (flat (r_src rcn)))) rcn) as [eD r2n'].
  injection Hrunn as HoD <-.
  apply app_inj_tail in HoD. destruct HoD as [_ HeD]. injection HeD as ->.
  cbn [fst snd] in E4, S4.
  cbn [run_script]. rewrite Hsrc.
  destruct (discard (S (length (flat (r_src rcn)))) rc) as [eD2 r2] eqn:HD. cbn [fst snd] in E4, S4. subst eD2.
  exists r2. split; [reflexivity|].
  pose proof (discard_at_rest _ _ _ HD) as Hrest2.
  pose proof (bnd_transfer c lg _ r2 r2n' Hchk HBn S4 Hrest2) as HB2.
  pose proof (bnd_as_new c lg _ r2 Hc HB2 Hrest2) as R.
  destruct S4 as (_ & _ & _ & _ & _ & S46 & _).
  rewrite S46, Hcmn in R. change (c_ext cn) with (c_ext c) in R. rewrite Hflag, Haf in R. exact R.
Qed.
