(* ReaderInvalidProofs.v — C18, reader clause, for the usage "Read reported
   ErrInvalidUTF8, the caller calls Discard and goes on with NextFrame".

   Method.  Discard never looks at CheckUTF8, at the UTF8Reader (source, state,
   accepted count), at r.frame or at r.opCode: it drains r.raw, calls NextFrame
   (which only WRITES those fields) and ends in reset(), which overwrites them.
   Read looks at CheckUTF8 and the UTF8Reader only to decide whether to report
   ErrInvalidUTF8.  So a Reader with CheckUTF8 on runs, up to its FIRST
   ErrInvalidUTF8, in lock step with the Reader of the same configuration with
   CheckUTF8 off on the same source ([simR]); at that error the two still agree in
   everything Discard reads ([simD]); and for the Reader with CheckUTF8 off the
   stream is one that the spec accepts, so the theorems of ReaderFreshProofs.v
   (any Reads, then Discard: nil, source at the next message, at rest) apply. *)
Require Import Bytes Stream Utf8Spec Check Frame Cipher Utf8Dfa Extracted ExtractedOk Reader ReaderStream ReaderStreamC13
  ReaderInvalid
  BytesProofs StreamProofs CheckProofs FrameProofs CipherProofs Utf8Proofs ReaderLocalProofs
  ReaderAux ReaderInv ReaderProofs ReaderMoreProofs ReaderTotalProofs ReaderStreamC05 ReaderStreamC07
  ReaderStreamC13Proofs ReaderFreshProofs.
From Coq Require Import ZifyBool ZifyN ZifyNat.
Open Scope N_scope.

(* ================================================================== 1. the two relations *)
(* what Discard reads: everything but CheckUTF8 (on in [r], off in [r']), opCode, frame, the UTF8Reader *)
Definition simD (r r' : reader) : Prop :=
  r_src r = r_src r' /\ r_state r = r_state r' /\ r_skip r = r_skip r' /\ r_max r = r_max r' /\
  r_ext r = r_ext r' /\ r_compressed r = r_compressed r' /\ r_cb r = r_cb r' /\ r_rawN r = r_rawN r' /\
  r_masked r = r_masked r' /\ r_key r = r_key r' /\ r_cpos r = r_cpos r' /\ r_log r = r_log r' /\
  r_check_utf8 r = true /\ r_check_utf8 r' = false.
(* lock step of the Reads: also opCode and frame; [r'] never wraps a frame in the UTF8Reader *)
Definition simR (r r' : reader) : Prop :=
  simD r r' /\ r_opcode r = r_opcode r' /\ r_frame r = r_frame r' /\ r_u8wrap r' = false.

Ltac simD_open H :=
  match type of H with simD ?r ?r' =>
    destruct r as [s st sk ch mx ex cm cb op fr rn mk ky cp uw us ua lg];
    destruct r' as [s' st' sk' ch' mx' ex' cm' cb' op' fr' rn' mk' ky' cp' uw' us' ua' lg'];
    unfold simD in H; rsimpl;
    destruct H as (? & ? & ? & ? & ? & ? & ? & ? & ? & ? & ? & ? & ? & ?); subst
  end.
Ltac simR_open H :=
  match type of H with simR ?r ?r' =>
    destruct r as [s st sk ch mx ex cm cb op fr rn mk ky cp uw us ua lg];
    destruct r' as [s' st' sk' ch' mx' ex' cm' cb' op' fr' rn' mk' ky' cp' uw' us' ua' lg'];
    unfold simR, simD in H; rsimpl;
    destruct H as ((? & ? & ? & ? & ? & ? & ? & ? & ? & ? & ? & ? & ? & ?) & ? & ? & ?); subst
  end.
Ltac closeD := unfold simD; rsimpl; repeat split; try reflexivity.
Ltac closeR := unfold simR, simD; rsimpl; repeat split; try reflexivity.
Ltac close_eqR := cbn [fst snd]; (split; [reflexivity|closeR]).
Ltac close_eqD := cbn [fst snd]; (split; [reflexivity|closeD]).

Lemma simR_D r r' : simR r r' -> simD r r'.
Proof. intros [H _]. exact H. Qed.

Lemma simD_fields r r' : simD r r' -> r_src r = r_src r' /\ r_state r = r_state r' /\ r_rawN r = r_rawN r'.
Proof. intros (H1 & H2 & _ & _ & _ & _ & _ & H8 & _). repeat split; assumption. Qed.

Lemma simR_fields r r' : simR r r' -> r_state r = r_state r' /\ r_frame r = r_frame r'.
Proof. intros ((_ & H2 & _) & _ & H & _). split; assumption. Qed.

(* ================================================================== 2. NextFrame *)
Lemma next_frame_simR r r' : simR r r' ->
  fst (next_frame r) = fst (next_frame r') /\ simR (snd (next_frame r)) (snd (next_frame r')).
Proof.
  intros H. simR_open H. unfold next_frame, cb_read_all, raw_drain. rsimpl. cbv zeta.
  destruct (reader_read_header _) as [[e0|hdr] s1]; [close_eqR|].
  match goal with |- context [if ?b then None else check_header hdr ?x] =>
    destruct (if b then None else check_header hdr x) end; [close_eqR|].
  match goal with |- context [((0 <? ?x)%Z && (?x <? h_len hdr)%Z)] =>
    destruct ((0 <? x)%Z && (x <? h_len hdr)%Z) end; [close_eqR|].
  match goal with |- context [if ?b then unset_bits hdr ?x else Some (hdr, ?x)] =>
    destruct (if b then unset_bits hdr x else Some (hdr, x)) as [[hdr' comp']|] end; [|close_eqR].
  match goal with |- context [st_fragmented ?x && op_is_control (h_op hdr')] => destruct (st_fragmented x && op_is_control (h_op hdr')) end; [|close_eqR].
  match goal with |- context [match ?c with CbNone => _ | CbReadAll => _ end] => destruct c end; rsimpl.
  - destruct (read_full _ _) as [[b0 e0] s2]. destruct e0 as [[| |]|]; cbn [option_map]; close_eqR.
  - destruct (read_full _ _) as [[b0 e0] s2]. destruct e0 as [[| |]|]; try close_eqR.
    rsimpl. destruct (read_full _ _) as [[b1 e1] s3]. destruct e1 as [[| |]|]; cbn [option_map]; close_eqR.
Qed.

Lemma next_frame_simD r r' : simD r r' ->
  fst (next_frame r) = fst (next_frame r') /\ simD (snd (next_frame r)) (snd (next_frame r')).
Proof.
  intros H. simD_open H. unfold next_frame, cb_read_all, raw_drain. rsimpl. cbv zeta.
  destruct (reader_read_header _) as [[e0|hdr] s1]; [close_eqD|].
  match goal with |- context [if ?b then None else check_header hdr ?x] =>
    destruct (if b then None else check_header hdr x) end; [close_eqD|].
  match goal with |- context [((0 <? ?x)%Z && (?x <? h_len hdr)%Z)] =>
    destruct ((0 <? x)%Z && (x <? h_len hdr)%Z) end; [close_eqD|].
  match goal with |- context [if ?b then unset_bits hdr ?x else Some (hdr, ?x)] =>
    destruct (if b then unset_bits hdr x else Some (hdr, x)) as [[hdr' comp']|] end; [|close_eqD].
  match goal with |- context [st_fragmented ?x && op_is_control (h_op hdr')] => destruct (st_fragmented x && op_is_control (h_op hdr')) end; [|close_eqD].
  match goal with |- context [match ?c with CbNone => _ | CbReadAll => _ end] => destruct c end; rsimpl.
  - destruct (read_full _ _) as [[b0 e0] s2]. destruct e0 as [[| |]|]; cbn [option_map]; close_eqD.
  - destruct (read_full _ _) as [[b0 e0] s2]. destruct e0 as [[| |]|]; try close_eqD.
    rsimpl. destruct (read_full _ _) as [[b1 e1] s3]. destruct e1 as [[| |]|]; cbn [option_map]; close_eqD.
Qed.

(* ================================================================== 3. Read *)
Lemma frame_read_simR k r r' : simR r r' ->
  simR (snd (frame_read k r)) (snd (frame_read k r')) /\
  (snd (fst (frame_read k r)) = Some RInvalidUtf8 \/ fst (frame_read k r) = fst (frame_read k r')).
Proof.
  intros H. simR_open H. unfold frame_read, raw_read; rsimpl.
  (destruct (_ =? 0); [|destruct (read1 _ _) as [[b0 e0] s1]]); cbv beta iota zeta; rsimpl;
  (destruct uw; [destruct (u8_scan _ _ _ _) as [[stt acc] rej]; destruct rej|]); cbn [fst snd];
  (split; [closeR|first [left; reflexivity|right; reflexivity]]).
Qed.

Lemma rat_eof_simR d r r' : simR r r' ->
  (snd (fst (rat_eof d r)) = Some RInvalidUtf8 /\ simD (snd (rat_eof d r)) (snd (rat_eof d r'))) \/
  (fst (rat_eof d r) = fst (rat_eof d r') /\ simR (snd (rat_eof d r)) (snd (rat_eof d r'))).
Proof.
  intros H. simR_open H. unfold rat_eof. rsimpl. cbn [andb].
  match goal with |- context [negb (?x =? 0)] => destruct (x =? 0) eqn:E0 end; cbn [negb].
  2: { right. close_eqR. }
  apply N.eqb_eq in E0. subst.
  destruct (st_fragmented _); [right; close_eqR|].
  destruct (negb (_ =? utf8_accept)).
  - left. cbn [fst snd]. split; [reflexivity|closeD].
  - right. close_eqR.
Qed.

(* whatever the Reader with CheckUTF8 off does at the end of a frame keeps what Discard reads *)
Lemma rat_eof_simD d r r' : simD r r' -> simD r (snd (rat_eof d r')).
Proof.
  intros H. simD_open H. unfold rat_eof. rsimpl. cbn [andb].
  match goal with |- context [negb (?x =? 0)] => destruct (x =? 0) eqn:E0 end; cbn [negb fst snd]; [|closeD].
  apply N.eqb_eq in E0. subst.
  destruct (st_fragmented _); cbn [fst snd]; closeD.
Qed.

Lemma rgo_simR k r r' : simR r r' ->
  (snd (fst (rgo k r)) = Some RInvalidUtf8 /\ simD (snd (rgo k r)) (snd (rgo k r'))) \/
  (fst (rgo k r) = fst (rgo k r') /\ simR (snd (rgo k r)) (snd (rgo k r'))).
Proof.
  intros H. unfold rgo. destruct (frame_read_simR k r r' H) as [S E].
  destruct (frame_read k r) as [[data e] r2]. destruct (frame_read k r') as [[data' e'] r2'].
  cbn [fst snd] in S, E. destruct E as [E|E].
  - subst e. left. cbn [fst snd]. split; [reflexivity|]. apply simR_D in S.
    destruct e' as [e'|].
    + destruct e' as [[| |]| | | | | | | |]; cbn [snd]; try exact S. apply rat_eof_simD, S.
    + destruct (negb (r_rawN r2' =? 0)); cbn [snd]; [exact S|apply rat_eof_simD, S].
  - injection E as <- <-.
    pose proof (rat_eof_simR data r2 r2' S) as A.
    destruct (simD_fields _ _ (simR_D _ _ S)) as (_ & _ & Hrn).
    destruct e as [e|].
    + destruct e as [[| |]| | | | | | | |]; cbn [fst snd]; try (right; split; [reflexivity|exact S]). exact A.
    + rewrite Hrn. destruct (negb (r_rawN r2' =? 0)); [right; split; [reflexivity|exact S]|exact A].
Qed.

Lemma reader_read_simR k r r' : simR r r' ->
  (snd (fst (reader_read k r)) = Some RInvalidUtf8 /\ simD (snd (reader_read k r)) (snd (reader_read k r'))) \/
  (fst (reader_read k r) = fst (reader_read k r') /\ simR (snd (reader_read k r)) (snd (reader_read k r'))).
Proof.
  intros H. rewrite !reader_read_eq. destruct (simR_fields _ _ H) as (Hst & Hfr).
  rewrite Hst. destruct (r_frame r) eqn:Efr; rewrite <- Hfr.
  - apply rgo_simR, H.
  - destruct (negb (st_fragmented (r_state r'))); [right; split; [reflexivity|exact H]|].
    destruct (next_frame_simR r r' H) as [E S].
    destruct (next_frame r) as [[h e] r1]. destruct (next_frame r') as [[h' e'] r1'].
    cbn [fst snd] in E, S. injection E as <- <-.
    destruct e as [e|]; [right; split; [reflexivity|exact S]|].
    destruct (simR_fields _ _ S) as (_ & Hfr1).
    destruct (r_frame r1) eqn:Efr1; rewrite <- Hfr1.
    + apply rgo_simR, S.
    + right; split; [reflexivity|exact S].
Qed.

(* ================================================================== 4. Discard *)
Lemma raw_drain_simD r r' : simD r r' ->
  fst (raw_drain r) = fst (raw_drain r') /\ simD (snd (raw_drain r)) (snd (raw_drain r')).
Proof.
  intros H. simD_open H. unfold raw_drain. rsimpl. destruct (read_full _ _) as [[b0 e0] s1].
  destruct e0 as [[| |]|]; close_eqD.
Qed.

Lemma reset_simD r r' : simD r r' -> simD (reset r) (reset r').
Proof. intros H. simD_open H. unfold reset. closeD. Qed.

Lemma discard_simD : forall fuel r r', simD r r' ->
  fst (discard fuel r) = fst (discard fuel r') /\ simD (snd (discard fuel r)) (snd (discard fuel r')).
Proof.
  induction fuel as [|fuel IH]; intros r r' H; cbn [discard]; [split; [reflexivity|exact H]|].
  destruct (raw_drain_simD r r' H) as [E S].
  destruct (raw_drain r) as [e r1]. destruct (raw_drain r') as [e' r1']. cbn [fst snd] in E, S. subst e'.
  destruct e as [e|]; [cbn [fst snd]; split; [reflexivity|apply reset_simD, S]|].
  destruct (simD_fields _ _ S) as (_ & Hst & _). rewrite Hst.
  destruct (negb (st_fragmented (r_state r1'))); [cbn [fst snd]; split; [reflexivity|apply reset_simD, S]|].
  destruct (next_frame_simD r1 r1' S) as [E2 S2].
  destruct (next_frame r1) as [[h e2] r2]. destruct (next_frame r1') as [[h' e2'] r2'].
  cbn [fst snd] in E2, S2. injection E2 as <- <-.
  destruct e2 as [e2|]; [cbn [fst snd]; split; [reflexivity|apply reset_simD, S2]|].
  apply IH, S2.
Qed.

(* ================================================================== 5. scripts *)
Lemma run_script_app : forall a b r, run_script (a ++ b) r =
  let '(oa, ra) := run_script a r in let '(ob, rb) := run_script b ra in (oa ++ ob, rb).
Proof.
  induction a as [|op a IH]; intros b r.
  - cbn [app run_script]. destruct (run_script b r); reflexivity.
  - cbn [app run_script].
    match goal with |- context [match op with OpNext => ?x | OpRead k => @?y k | OpDiscard => ?z end] =>
      destruct (match op with OpNext => x | OpRead k => y k | OpDiscard => z end) as [o r1] end.
    rewrite IH. destruct (run_script a r1) as [oa ra]. destruct (run_script b ra) as [ob rb]. reflexivity.
Qed.

(* the Reads before the first ErrInvalidUTF8: same results, still in lock step *)
Lemma reads_simR : forall ks r r' outs r1, simR r r' ->
  run_script (map OpRead ks) r = (outs, r1) -> Forall not_invalid outs ->
  fst (run_script (map OpRead ks) r') = outs /\ simR r1 (snd (run_script (map OpRead ks) r')).
Proof.
  induction ks as [|k ks IH]; intros r r' outs r1 H Hrun Hok.
  - cbn [map run_script] in *. injection Hrun as <- <-. split; [reflexivity|exact H].
  - cbn [map run_script] in *.
    set (kk := if k =? 0 then 1 else k) in *.
    destruct (reader_read_simR kk r r' H) as [[Einv _]|[E S]].
    + exfalso. destruct (reader_read kk r) as [[d e] ra]. cbn [fst snd] in Einv. subst e.
      destruct (run_script (map OpRead ks) ra) as [os rb]. injection Hrun as <- <-.
      apply (Forall_inv Hok d). reflexivity.
    + destruct (reader_read kk r) as [[d e] ra]. destruct (reader_read kk r') as [[d' e'] ra'].
      cbn [fst snd] in E, S. injection E as <- <-.
      destruct (run_script (map OpRead ks) ra) as [os rb] eqn:Hrest. injection Hrun as <- <-.
      apply Forall_inv_tail in Hok.
      destruct (IH ra ra' os rb S Hrest Hok) as [E2 S2].
      destruct (run_script (map OpRead ks) ra') as [os' rb']. cbn [fst snd] in *. subst os'.
      split; [reflexivity|exact S2].
Qed.

(* ================================================================== 6. back to the configuration with CheckUTF8 on *)
Lemma wf_cfg_no_utf8 c : wf_cfg c -> wf_cfg (no_utf8 c).
Proof. intros H. exact H. Qed.

Lemma bnd_transfer c lg rest r r' : c_check_utf8 c = true ->
  Bnd (no_utf8 c) None lg rest r' -> simD r r' -> at_rest r -> Bnd c None lg rest r.
Proof.
  intros Hchk [Hcfg Hsrc Hwf Hlog Hst Hnoext Hmsg] S Hrest.
  destruct S as (S1 & S2 & S3 & S4 & S5 & S6 & S7 & S8 & S9 & S10 & S11 & S12 & S13 & S14).
  destruct Hcfg as (C1 & C2 & C3 & C4 & C5). cbn [no_utf8 c_state c_check_utf8 c_max c_ext] in *.
  constructor; cbn [is_some].
  - unfold cfg_ok. rewrite S3, S4, S5, S7, S13, Hchk. repeat split; assumption.
  - unfold src_ok in *. rewrite S1. exact Hsrc.
  - exact Hwf.
  - rewrite S12. exact Hlog.
  - rewrite S2. exact Hst.
  - intros X. rewrite S6. apply Hnoext, X.
  - apply at_rest_fields, Hrest.
Qed.

(* ================================================================== 7. C18: Discard after ErrInvalidUTF8 *)
Theorem reader_discard_after_invalid_as_new : forall c rsv0 op k0 p0 l rest s ks k o0 outs d r1,
  let m1 := msg_frames_rsv rsv0 op k0 p0 l in
  let flag := c_ext c && rsv1_bit rsv0 in
  wf_cfg c -> c_check_utf8 c = true -> (op = 1 \/ op = 2) -> Forall wf_sframe (m1 ++ rest) ->
  Forall (fun x => Forall (fun f => ctl_ok f = true) (fr_ctl x)) l ->
  wire_ok c (m1 ++ rest) ->
  wf_src s -> tl s = TEOF -> flat s = wire (m1 ++ rest) ->
  let r0 := new_reader s (c_state c) false (c_check_utf8 c) (c_max c) (c_ext c) CbReadAll in
  run_script (OpNext :: map OpRead ks ++ [OpRead k]) r0 = (o0 :: outs ++ [OutRead d (Some RInvalidUtf8)], r1) ->
  Forall not_invalid outs ->
  exists r2, run_script [OpDiscard] r1 = ([OutDiscard None], r2) /\ reads_on_as_new c rest flag r2.
Proof.
  intros c rsv0 op k0 p0 l rest s ks k o0 outs d r1 m1 flag Hc Hchk Hop Hfs Hctl Hclean Hw Ht Hfl r0 Hrun Hok.
  unfold wire_ok in Hclean. set (cn := no_utf8 c) in *.
  pose proof (wf_cfg_no_utf8 c Hc) as Hcn. fold cn in Hcn.
  pose proof (after_first_msg rsv0 op k0 p0 l rest Hctl) as Haf. fold m1 in Haf.
  assert (Hshape: exists f ftl, m1 ++ rest = f :: ftl /\ spec_control (sf_op f) = false /\ c_ext c && rsv1 f = flag).
  { unfold m1, msg_frames_rsv. cbn [app]. do 2 eexists. split; [reflexivity|]. cbn [sf_op].
    split; [destruct Hop as [-> | ->]; reflexivity|reflexivity]. }
  destruct Hshape as (f & tl0 & Heq & Hnctl & Hflag). rewrite Heq in *.
  (* the Reader with CheckUTF8 off *)
  destruct (first_step cn f tl0 s Hcn Hfs Hclean Hw Ht Hfl) as (hn & r1n & Hnfn & HM & Hcl & Hlen).
  set (r0n := new_reader s (c_state cn) false (c_check_utf8 cn) (c_max cn) (c_ext cn) CbReadAll) in *.
  assert (HP: PInv cn (after_first (f :: tl0)) (c_ext cn && rsv1 f) r1n).
  { left. exists (MMid (msg_of cn None f) f [] (sf_payload f)), [], tl0, 0%nat, [].
    split; [exact HM|]. split; [intros m X; discriminate X|]. split; [reflexivity|]. split; [exact Hcl|].
    split; [exact Hnctl|reflexivity]. }
  destruct (reads_then_discard cn _ _ Hcn (ks ++ [k]) r1n HP) as (outsn & r2n & Hrunn & _ & lg & HBn & Hrestn & Hcmn).
  (* lock step *)
  assert (S0: simR r0 r0n).
  { unfold r0, r0n, cn, new_reader, simR, simD. rsimpl. rewrite Hchk. cbn [no_utf8 c_state c_check_utf8 c_max c_ext].
    repeat split; reflexivity. }
  destruct (next_frame_simR r0 r0n S0) as [E1 S1]. rewrite Hnfn in E1, S1. cbn [fst snd] in E1, S1.
  change (OpNext :: map OpRead ks ++ [OpRead k]) with ([OpNext] ++ (map OpRead ks ++ [OpRead k])) in Hrun.
  cbn [app run_script] in Hrun.
  destruct (next_frame r0) as [[h0 e0] ra]. cbn [fst snd] in E1, S1. injection E1 as -> ->.
  rewrite run_script_app in Hrun.
  destruct (run_script (map OpRead ks) ra) as [oa rb] eqn:HA.
  cbn [run_script] in Hrun.
  set (kk := if k =? 0 then 1 else k) in *.
  destruct (reader_read kk rb) as [[dd ee] rc] eqn:HB.
  injection Hrun as <- Houts <-.
  apply app_inj_tail in Houts. destruct Houts as [-> Hlast]. injection Hlast as -> ->.
  rewrite map_app in Hrunn. cbn [map] in Hrunn. rewrite !run_script_app in Hrunn.
  destruct (reads_simR ks ra r1n outs rb S1 HA Hok) as [E2 S2].
  destruct (run_script (map OpRead ks) r1n) as [oan rbn]. cbn [fst snd] in E2, S2. subst oan.
  cbn [run_script] in Hrunn. fold kk in Hrunn.
  assert (S3: simD rc (snd (reader_read kk rbn))).
  { destruct (reader_read_simR kk rb rbn S2) as [[_ X]|[_ X]]; rewrite HB in X; cbn [snd] in X;
      [exact X|exact (simR_D _ _ X)]. }
  destruct (reader_read kk rbn) as [[ddn een] rcn]. cbn [snd] in S3.
  destruct (simD_fields _ _ S3) as (Hsrc & _).
  destruct (discard_simD (S (length (flat (r_src rcn)))) rc rcn S3) as [E4 S4].
  destruct (discard (S (length (flat (r_src rcn)))) rcn) as [eD r2n'].
  injection Hrunn as HoD <-.
  apply app_inj_tail in HoD. destruct HoD as [_ HeD]. injection HeD as ->.
  cbn [fst snd] in E4, S4.
  cbn [run_script]. rewrite Hsrc.
  destruct (discard (S (length (flat (r_src rcn)))) rc) as [eD2 r2] eqn:HD. cbn [fst snd] in E4, S4. subst eD2.
  exists r2. split; [reflexivity|].
  pose proof (discard_at_rest _ _ _ HD) as Hrest2.
  pose proof (bnd_transfer c lg _ r2 r2n' Hchk HBn S4 Hrest2) as HB2.
  pose proof (bnd_as_new c lg _ r2 Hc HB2 Hrest2) as R.
  destruct S4 as (_ & _ & _ & _ & _ & S46 & _).
  rewrite S46, Hcmn in R. change (c_ext cn) with (c_ext c) in R. rewrite Hflag, Haf in R. exact R.
Qed.

(* ################################################################## C07: a stream of messages, each judged by itself
   (the usage: read to the end; on ErrInvalidUTF8 Discard; NextFrame).  The Reader that checks runs in lock
   step with the one that does not ([simR]); in addition its UTF8Reader state is tracked ([TU], [TW]): for a
   text message it is the DFA state of the bytes handed out so far, so by Utf8Proofs.dfa_correct /
   dfa_reject_dead the Reader reports ErrInvalidUTF8 exactly for the text messages whose bytes are not valid
   UTF-8; after Discard (section 7) or io.EOF it stands at the next message, at rest. *)
(* ================================================================== 8. what the UTF8Reader of the checking Reader knows *)
(* [acc] = the bytes of the current message handed out so far.  A text message: the DFA
   state is that of [acc] and not yet the reject state; any other message: the state is 0 *)
Definition TU (r : reader) (acc : list byte) : Prop :=
  if r_opcode r =? 1 then r_u8state r = u8_run 0 acc /\ r_u8state r <> 12 else r_u8state r = 0.
(* an open frame goes through the UTF8Reader exactly when the message is text *)
Definition TW (r : reader) : Prop := r_frame r = true -> r_u8wrap r = (r_opcode r =? 1).

Lemma check_header_cont h s : check_header h s = None -> st_fragmented s = true ->
  op_is_control (h_op h) = false -> h_op h = 0.
Proof.
  intros H Hf Hc. destruct (h_op h =? 0) eqn:E0; [apply N.eqb_eq in E0; exact E0|]. exfalso.
  unfold check_header in H. rewrite Hf, Hc, E0 in H. cbn [andb negb] in H.
  repeat match type of H with (if ?c then _ else _) = None => destruct c; [discriminate H|] end.
  discriminate H.
Qed.

Lemma unset_bits_op h c h' c' : unset_bits h c = Some (h', c') -> h_op h' = h_op h.
Proof.
  unfold unset_bits. destruct (op_is_data (h_op h) && negb (h_op h =? 0)).
  - intros H. injection H as <- _. reflexivity.
  - destruct (negb (N.land (h_rsv h) 4 =? 0)); [discriminate|]. intros H. injection H as <- _. reflexivity.
Qed.

Lemma next_frame_T r acc h r1 : r_skip r = false -> r_check_utf8 r = true ->
  TU r acc -> TW r -> r_frame r = false ->
  (st_fragmented (r_state r) = false -> r_u8state r = 0 /\ acc = []) ->
  next_frame r = ((h, None), r1) ->
  TU r1 acc /\ TW r1 /\ (st_fragmented (r_state r) = true -> r_opcode r1 = r_opcode r) /\
  (st_fragmented (r_state r) = false -> r_opcode r1 = h_op h) /\
  (r_frame r1 = true \/ st_fragmented (r_state r1) = true).
Proof.
  destruct r as [s st sk ch mx ex cm cb op fr rn mk ky cp uw us ua lg]. unfold TU, TW. rsimpl.
  intros -> -> HU HW -> H0 H. unfold next_frame, cb_read_all, raw_drain in H. rsimpl. cbv zeta in H.
  destruct (reader_read_header s) as [[e0|hdr] s1]; [discriminate H|].
  destruct (check_header hdr st) eqn:Hck; [discriminate H|].
  destruct ((0 <? mx)%Z && (mx <? h_len hdr)%Z); [discriminate H|].
  destruct (if ex then unset_bits hdr cm else Some (hdr, cm)) as [[hdr' comp']|] eqn:Hx; [|discriminate H].
  assert (Hop': h_op hdr' = h_op hdr).
  { destruct ex; [exact (unset_bits_op _ _ _ _ Hx)|]. injection Hx as <- _. reflexivity. }
  destruct (st_fragmented st) eqn:Hfrag; cbn [andb] in H.
  - destruct (op_is_control (h_op hdr')) eqn:Hctl.
    + assert (G: forall (r2 : reader), r_opcode r2 = op -> r_frame r2 = false -> r_u8state r2 = us ->
                 r_state r2 = st ->
                 (if r_opcode r2 =? 1 then r_u8state r2 = u8_run 0 acc /\ r_u8state r2 <> 12 else r_u8state r2 = 0) /\
                 (r_frame r2 = true -> r_u8wrap r2 = (r_opcode r2 =? 1)) /\
                 (true = true -> r_opcode r2 = op) /\ (true = false -> r_opcode r2 = h_op h) /\
                 (r_frame r2 = true \/ st_fragmented (r_state r2) = true)).
      { intros r2 E1 E2 E3 E4. rewrite E1, E2, E3, E4. split; [exact HU|]. split; [intros X; discriminate X|].
        split; [reflexivity|]. split; [intros X; discriminate X|]. right. exact Hfrag. }
      destruct cb; rsimpl.
      * destruct (read_full _ _) as [[b0 e0] s2]. destruct e0 as [[| |]|]; cbn [option_map] in H; try discriminate H.
        injection H as _ <-. apply G; reflexivity.
      * destruct (read_full _ _) as [[b0 e0] s2]. destruct e0 as [[| |]|]; try discriminate H.
        rsimpl. destruct (read_full _ _) as [[b1 e1] s3]. destruct e1 as [[| |]|]; cbn [option_map] in H; try discriminate H.
        injection H as _ <-. apply G; reflexivity.
    + injection H as _ <-. rsimpl.
      split; [exact HU|]. split.
      { intros _. rewrite Hop' in Hctl |- *. rewrite (check_header_cont hdr st Hck Hfrag Hctl). cbn [andb orb N.eqb]. reflexivity. }
      split; [reflexivity|]. split; [intros X; discriminate X|]. left. reflexivity.
  - injection H as <- <-. rsimpl. destruct (H0 eq_refl) as [-> ->].
    split. { destruct (h_op hdr' =? 1); [split; [reflexivity|discriminate]|reflexivity]. }
    split. { intros _. cbn [andb]. rewrite orb_false_r. reflexivity. }
    split; [intros X; discriminate X|]. split; [reflexivity|]. left. reflexivity.
Qed.

Lemma frame_read_chk k r : r_check_utf8 (snd (frame_read k r)) = r_check_utf8 r.
Proof.
  unfold frame_read, raw_read. destruct (r_rawN r =? 0); [|destruct (read1 _ _) as [[b0 e0] s1]];
    cbv beta iota zeta; rsimpl; (destruct (r_u8wrap r); [destruct (u8_scan _ _ _ _) as [[stt a] rej]; destruct rej|]); reflexivity.
Qed.

Lemma rat_eof_data d r : r_check_utf8 r = false -> fst (fst (rat_eof d r)) = d.
Proof.
  intros H. unfold rat_eof. rewrite H. cbn [andb].
  destruct (negb (r_rawN r =? 0)); [reflexivity|]. destruct (st_fragmented (r_state r)); reflexivity.
Qed.

Lemma frame_read_T k r q acc : simR r q -> TU r acc -> TW r -> r_frame r = true -> wf_bytes acc ->
  wf_bytes (fst (fst (frame_read k q))) ->
  simR (snd (frame_read k r)) (snd (frame_read k q)) /\
  r_opcode (snd (frame_read k r)) = r_opcode r /\ r_frame (snd (frame_read k r)) = true /\
  ((snd (fst (frame_read k r)) = Some RInvalidUtf8 /\ r_opcode r = 1 /\
    u8_run 0 (acc ++ fst (fst (frame_read k q))) = 12) \/
   (fst (frame_read k r) = fst (frame_read k q) /\
    TU (snd (frame_read k r)) (acc ++ fst (fst (frame_read k q))) /\ TW (snd (frame_read k r)))).
Proof.
  intros H HU HW Hfr Hwa. simR_open H. unfold TU, TW in *. rsimpl. subst. specialize (HW eq_refl). subst.
  unfold frame_read, raw_read; rsimpl.
  assert (Hin0: In (u8_run 0 acc) states) by (apply run_states; [exact Hwa|simpl; tauto]).
  (destruct (_ =? 0); [|destruct (read1 _ _) as [[b0 e0] s1]]); cbv beta iota zeta; rsimpl;
  (destruct (_ =? 1) eqn:Eop;
   [ destruct HU as [HU1 HU2]; intros Hwd;
     match goal with |- context [u8_scan ?u 0 0 ?x] =>
       pose proof (scan_spec x u 0 0 Hwd ltac:(rewrite HU1; exact Hin0) HU2) as SS;
       destruct (u8_scan u 0 0 x) as [[stt a] rej] end;
     destruct rej; cbn [fst snd];
     [ destruct SS as [SS _]; destruct (SS eq_refl) as [R1 R2];
       split; [closeR|]; split; [reflexivity|]; split; [reflexivity|]; left;
       split; [reflexivity|]; split; [apply N.eqb_eq, Eop|]; rewrite run_app, <- HU1; exact R1
     | destruct SS as [_ SS]; destruct (SS eq_refl) as [R1 R2];
       split; [closeR|]; split; [reflexivity|]; split; [reflexivity|]; right;
       split; [reflexivity|]; rsimpl; rewrite Eop; split;
       [split; [rewrite run_app, <- HU1; exact R1|exact R2]|intros _; reflexivity] ]
   | intros Hwd; cbn [fst snd]; split; [closeR|]; split; [reflexivity|]; split; [reflexivity|]; right;
     split; [reflexivity|]; rsimpl; rewrite Eop; split; [exact HU|intros _; reflexivity] ]).
Qed.

Lemma rat_eof_T d r q acc : simR r q -> TU r acc ->
  (snd (fst (rat_eof d r)) = Some RInvalidUtf8 /\ simD (snd (rat_eof d r)) (snd (rat_eof d q)) /\
     r_opcode r = 1 /\ snd (fst (rat_eof d q)) = Some (RIo EEOF) /\ u8_run 0 acc <> 0) \/
  (fst (rat_eof d r) = fst (rat_eof d q) /\ simR (snd (rat_eof d r)) (snd (rat_eof d q)) /\
     (snd (fst (rat_eof d r)) = None -> TU (snd (rat_eof d r)) acc /\ TW (snd (rat_eof d r)) /\
         r_opcode (snd (rat_eof d r)) = r_opcode r /\ st_fragmented (r_state (snd (rat_eof d r))) = true) /\
     (snd (fst (rat_eof d r)) = Some (RIo EEOF) -> r_opcode r = 1 -> u8_run 0 acc = 0)).
Proof.
  intros H HU. simR_open H. unfold rat_eof, TU, TW in *. rsimpl. cbn [andb]. rewrite ok_utf8_accept.
  match goal with |- context [negb (?x =? 0)] => destruct (x =? 0) eqn:E0 end; cbn [negb].
  2: { right. cbn [fst snd]. split; [reflexivity|]. split; [closeR|]. split; intros X; discriminate X. }
  apply N.eqb_eq in E0. subst.
  match goal with |- context [st_fragmented ?x] => destruct (st_fragmented x) eqn:Hfrag end.
  - right. cbn [fst snd]. split; [reflexivity|]. split; [closeR|]. split; [|intros X; discriminate X].
    intros _. rsimpl. split; [exact HU|]. split; [intros X; discriminate X|]. split; [reflexivity|exact Hfrag].
  - match goal with |- context [negb (?u =? 0)] => destruct (u =? 0) eqn:Eus end; cbn [negb].
    + right. cbn [fst snd]. split; [reflexivity|]. split; [closeR|]. split; [intros X; discriminate X|].
      intros _ Hop1. rewrite Hop1 in HU. cbn [N.eqb Pos.eqb] in HU. destruct HU as [HU1 _].
      apply N.eqb_eq in Eus. congruence.
    + left. cbn [fst snd]. split; [reflexivity|]. split; [closeD|].
      match type of HU with (if ?o =? 1 then _ else _) => destruct (o =? 1) eqn:Eop end.
      * split; [apply N.eqb_eq, Eop|]. split; [reflexivity|]. destruct HU as [HU1 _]. rewrite <- HU1.
        apply N.eqb_neq, Eus.
      * exfalso. rewrite HU in Eus. discriminate Eus.
Qed.

Definition inv_case (X Y : (list byte * option rerror) * reader) (op : N) (acc : list byte) : Prop :=
  snd (fst X) = Some RInvalidUtf8 /\ simD (snd X) (snd Y) /\ op = 1 /\
  (u8_run 0 (acc ++ fst (fst Y)) = 12 \/ (snd (fst Y) = Some (RIo EEOF) /\ u8_run 0 (acc ++ fst (fst Y)) <> 0)).
Definition eq_case (X Y : (list byte * option rerror) * reader) (op : N) (acc : list byte) : Prop :=
  fst X = fst Y /\ simR (snd X) (snd Y) /\
  (snd (fst X) = None -> TU (snd X) (acc ++ fst (fst Y)) /\ TW (snd X) /\ r_opcode (snd X) = op /\
      (r_frame (snd X) = true \/ st_fragmented (r_state (snd X)) = true)) /\
  (snd (fst X) = Some (RIo EEOF) -> op = 1 -> u8_run 0 (acc ++ fst (fst Y)) = 0).

Lemma rgo_T k r rn acc : simR r rn -> TU r acc -> TW r -> r_frame r = true -> wf_bytes acc ->
  wf_bytes (fst (fst (rgo k rn))) ->
  inv_case (rgo k r) (rgo k rn) (r_opcode r) acc \/ eq_case (rgo k r) (rgo k rn) (r_opcode r) acc.
Proof.
  intros H HU HW Hfr Hwa. unfold inv_case, eq_case, rgo.
  pose proof (frame_read_T k r rn acc H HU HW Hfr Hwa) as F.
  assert (Hc2: r_check_utf8 (snd (frame_read k rn)) = false).
  { rewrite frame_read_chk. destruct H as [H _]. apply H. }
  destruct (frame_read k r) as [[data e] r2]. destruct (frame_read k rn) as [[data' e'] r2n]. cbn [fst snd] in F, Hc2.
  assert (Hd: fst (fst (match e' with
                         | Some (RIo EEOF) => rat_eof data' r2n
                         | Some e0 => ((data', Some e0), r2n)
                         | None => if negb (r_rawN r2n =? 0) then ((data', None), r2n) else rat_eof data' r2n
                         end)) = data').
  { destruct e' as [e'|].
    - destruct e' as [[| |]| | | | | | | |]; try reflexivity. apply rat_eof_data, Hc2.
    - destruct (negb (r_rawN r2n =? 0)); [reflexivity|apply rat_eof_data, Hc2]. }
  rewrite !Hd. intros Hwd. specialize (F Hwd).
  destruct F as (S & Hop2 & Hfr2 & [(Ee & Hop1 & H12)|(Efst & HU2 & HW2)]).
  - subst e. left. cbn [fst snd]. split; [reflexivity|]. split; [|split; [exact Hop1|left; exact H12]].
    apply simR_D in S. destruct e' as [e'|].
    + destruct e' as [[| |]| | | | | | | |]; cbn [snd]; try exact S. apply rat_eof_simD, S.
    + destruct (negb (r_rawN r2n =? 0)); cbn [snd]; [exact S|apply rat_eof_simD, S].
  - injection Efst as -> ->.
    pose proof (rat_eof_T data' r2 r2n (acc ++ data') S HU2) as A.
    assert (AA: (snd (fst (rat_eof data' r2)) = Some RInvalidUtf8 /\ simD (snd (rat_eof data' r2)) (snd (rat_eof data' r2n)) /\
                 r_opcode r = 1 /\ (u8_run 0 (acc ++ data') = 12 \/
                   snd (fst (rat_eof data' r2n)) = Some (RIo EEOF) /\ u8_run 0 (acc ++ data') <> 0)) \/
                (fst (rat_eof data' r2) = fst (rat_eof data' r2n) /\ simR (snd (rat_eof data' r2)) (snd (rat_eof data' r2n)) /\
                 (snd (fst (rat_eof data' r2)) = None -> TU (snd (rat_eof data' r2)) (acc ++ data') /\ TW (snd (rat_eof data' r2)) /\
                    r_opcode (snd (rat_eof data' r2)) = r_opcode r /\
                    (r_frame (snd (rat_eof data' r2)) = true \/ st_fragmented (r_state (snd (rat_eof data' r2))) = true)) /\
                 (snd (fst (rat_eof data' r2)) = Some (RIo EEOF) -> r_opcode r = 1 -> u8_run 0 (acc ++ data') = 0))).
    { destruct A as [(A1 & A2 & A3 & A4 & A5)|(A1 & A2 & A3 & A4)].
      - left. split; [exact A1|]. split; [exact A2|]. split; [congruence|]. right. split; [exact A4|exact A5].
      - right. split; [exact A1|]. split; [exact A2|]. split.
        + intros X. destruct (A3 X) as (B1 & B2 & B3 & B4). split; [exact B1|]. split; [exact B2|]. split; [congruence|right; exact B4].
        + intros X Y. apply A4; [exact X|congruence]. }
    destruct (simD_fields _ _ (simR_D _ _ S)) as (_ & _ & Hrn).
    assert (Triv: forall e0, e0 <> RIo EEOF ->
       ((data', Some e0, r2) = (data', Some e0, r2) -> True) ->
       fst (data', Some e0, r2) = fst (data', Some e0, r2n) /\ simR r2 r2n /\
       (Some e0 = None -> TU r2 (acc ++ data') /\ TW r2 /\ r_opcode r2 = r_opcode r /\
          (r_frame r2 = true \/ st_fragmented (r_state r2) = true)) /\
       (Some e0 = Some (RIo EEOF) -> r_opcode r = 1 -> u8_run 0 (acc ++ data') = 0)).
    { intros e0 Hne _. split; [reflexivity|]. split; [exact S|]. split; [intros X; discriminate X|].
      intros X. injection X as X. contradiction. }
    destruct e' as [e'|].
    + destruct e' as [[| |]| | | | | | | |]; cbn [fst snd]; try (right; apply Triv; [discriminate|trivial]).
      exact AA.
    + rewrite Hrn. destruct (negb (r_rawN r2n =? 0)); [|exact AA].
      right. cbn [fst snd]. split; [reflexivity|]. split; [exact S|]. split; [|intros X; discriminate X].
      intros _. split; [exact HU2|]. split; [exact HW2|]. split; [exact Hop2|left; exact Hfr2].
Qed.

Lemma frame_read_skip k r : r_skip (snd (frame_read k r)) = r_skip r.
Proof.
  unfold frame_read, raw_read. destruct (r_rawN r =? 0); [|destruct (read1 _ _) as [[b0 e0] s1]];
    cbv beta iota zeta; rsimpl; (destruct (r_u8wrap r); [destruct (u8_scan _ _ _ _) as [[stt a] rej]; destruct rej|]); reflexivity.
Qed.
Lemma rat_eof_skip d r : r_skip (snd (rat_eof d r)) = r_skip r.
Proof.
  unfold rat_eof. destruct (negb (r_rawN r =? 0)); [reflexivity|]. destruct (st_fragmented (r_state r)); [reflexivity|].
  destruct (r_check_utf8 r && negb (r_u8state r =? utf8_accept)); reflexivity.
Qed.
Lemma rgo_skip k r : r_skip (snd (rgo k r)) = r_skip r.
Proof.
  unfold rgo. pose proof (frame_read_skip k r) as F. destruct (frame_read k r) as [[data e] r2]. cbn [snd] in F.
  destruct e as [e|].
  - destruct e as [[| |]| | | | | | | |]; cbn [snd]; try exact F. rewrite rat_eof_skip. exact F.
  - destruct (negb (r_rawN r2 =? 0)); cbn [snd]; [exact F|]. rewrite rat_eof_skip. exact F.
Qed.
Lemma next_frame_skip r : r_skip (snd (next_frame r)) = r_skip r.
Proof.
  unfold next_frame, cb_read_all, raw_drain.
  destruct (reader_read_header (r_src r)) as [[e|hdr] s1]; [reflexivity|].
  destruct (if r_skip r then None else check_header hdr (r_state r)); [reflexivity|].
  destruct ((0 <? r_max r)%Z && (r_max r <? h_len hdr)%Z); [reflexivity|].
  destruct (if r_ext r then unset_bits hdr (r_compressed r) else Some (hdr, r_compressed r)) as [[hdr' comp']|];
    [|reflexivity].
  destruct (st_fragmented (r_state r) && op_is_control (h_op hdr')); [|reflexivity].
  destruct (r_cb r); rsimpl.
  - destruct (read_full (Z.to_N (h_len hdr)) s1) as [[b e] s2]. destruct e as [[| |]|]; reflexivity.
  - destruct (read_full (Z.to_N (h_len hdr)) s1) as [[b e] s2]. destruct e as [[| |]|]; try reflexivity.
    rsimpl. destruct (read_full (Z.to_N (h_len hdr) - len b) s2) as [[b2 e2] s3].
    destruct e2 as [[| |]|]; reflexivity.
Qed.
Lemma reader_read_skip k r : r_skip (snd (reader_read k r)) = r_skip r.
Proof.
  rewrite reader_read_eq. destruct (r_frame r); [apply rgo_skip|].
  destruct (negb (st_fragmented (r_state r))); [reflexivity|].
  pose proof (next_frame_skip r) as F. destruct (next_frame r) as [[h e] r1]. cbn [snd] in F.
  destruct e as [e|]; [exact F|]. destruct (r_frame r1); [rewrite rgo_skip; exact F|exact F].
Qed.

Lemma reader_read_T k r rn acc : simR r rn -> r_skip r = false -> TU r acc -> TW r -> wf_bytes acc ->
  (r_frame r = true \/ st_fragmented (r_state r) = true) ->
  wf_bytes (fst (fst (reader_read k rn))) ->
  inv_case (reader_read k r) (reader_read k rn) (r_opcode r) acc \/
  eq_case (reader_read k r) (reader_read k rn) (r_opcode r) acc.
Proof.
  intros H Hskip HU HW Hwa Hopen. rewrite !reader_read_eq. destruct (simR_fields _ _ H) as (Hst & Hfr).
  assert (Hchk: r_check_utf8 r = true) by (destruct H as [H _]; apply H).
  destruct (r_frame r) eqn:Efr; rewrite <- Hfr.
  - apply rgo_T; assumption.
  - destruct Hopen as [X|Hfrag]; [discriminate X|].
    rewrite <- Hst, Hfrag. cbn [negb].
    destruct (next_frame_simR r rn H) as [E S].
    destruct (next_frame r) as [[h e] r1] eqn:Hnf. destruct (next_frame rn) as [[h' e'] r1n].
    cbn [fst snd] in E, S. injection E as <- <-.
    destruct e as [e|].
    + intros _. right. unfold eq_case. cbn [fst snd]. split; [reflexivity|]. split; [exact S|].
      split; [intros X; discriminate X|]. intros X. injection X as ->.
      exfalso. exact (next_frame_frag_not_eof r h _ r1 Hfrag Hnf eq_refl).
    + destruct (next_frame_T r acc h r1 Hskip Hchk HU HW Efr ltac:(intros X; congruence) Hnf)
        as (HU1 & HW1 & Hop1 & _ & Hopen1).
      specialize (Hop1 Hfrag). destruct (simR_fields _ _ S) as (_ & Hfr1).
      destruct (r_frame r1) eqn:Efr1; rewrite <- Hfr1.
      * rewrite <- Hop1. apply rgo_T; assumption.
      * intros _. right. unfold eq_case. cbn [fst snd]. rewrite app_nil_r.
        split; [reflexivity|]. split; [exact S|]. split; [|intros X; discriminate X].
        intros _. split; [exact HU1|]. split; [exact HW1|]. split; [exact Hop1|rewrite Efr1; exact Hopen1].
Qed.

Lemma rte_prefix : forall fuel bufs all r racc,
  exists x, fst (fst (read_to_eof fuel bufs all r racc)) = concat (rev_append racc []) ++ x.
Proof.
  induction fuel as [|fuel IH]; intros bufs all r racc; cbn [read_to_eof].
  - exists []. rewrite app_nil_r. reflexivity.
  - destruct (next_buf bufs all) as [k bufs']. destruct (reader_read k r) as [[d e] r1].
    destruct e as [e|].
    + exists d. cbn [fst]. apply concat_rev_cons.
    + destruct (IH bufs' all r1 (d :: racc)) as (x & Hx). exists (d ++ x). rewrite Hx, concat_rev_cons, app_assoc. reflexivity.
Qed.

(* reading one message to its end: in lock step with the Reader that does not check, up to
   the first ErrInvalidUTF8; io.EOF for a text message only if the bytes are valid UTF-8;
   ErrInvalidUTF8 only for a text message whose bytes are not *)
Section Lock.
Variable Q : reader -> Prop.
Hypothesis HQ : forall k rn, 0 < k -> Q rn -> Q (snd (reader_read k rn)).

Lemma rte_lock : forall fuel bufs all r rn racc,
  simR r rn -> r_skip r = false -> TU r (concat (rev_append racc [])) -> TW r ->
  (r_frame r = true \/ st_fragmented (r_state r) = true) -> Q rn ->
  wf_bytes (fst (fst (read_to_eof fuel bufs all rn racc))) ->
  let X := read_to_eof fuel bufs all r racc in let Y := read_to_eof fuel bufs all rn racc in
  (fst X = fst Y /\ simR (snd X) (snd Y) /\
     (snd (fst Y) = RIo EEOF -> r_opcode r = 1 -> valid_utf8 (fst (fst Y)) = true)) \/
  (exists rnm, snd (fst X) = RInvalidUtf8 /\ simD (snd X) rnm /\ Q rnm /\ r_opcode r = 1 /\
     (snd (fst Y) = RIo EEOF -> valid_utf8 (fst (fst Y)) = false)).
Proof.
  induction fuel as [|fuel IH]; intros bufs all r rn racc H Hskip HU HW Hopen HQ0 Hwp; cbn [read_to_eof] in *.
  { left. cbn [fst snd]. split; [reflexivity|]. split; [exact H|]. intros X; discriminate X. }
  pose proof (next_buf_pos bufs all) as Hk. destruct (next_buf bufs all) as [k bufs']. cbn [fst] in Hk.
  set (acc := concat (rev_append racc [])) in *.
  assert (Hpre: exists x, fst (fst (let '(d, e, r1) := reader_read k rn in
                   match e with Some e0 => (concat (rev_append (d :: racc) []), e0, r1)
                   | None => read_to_eof fuel bufs' all r1 (d :: racc) end)) = (acc ++ fst (fst (reader_read k rn))) ++ x).
  { destruct (reader_read k rn) as [[dn en] r1n]. cbn [fst]. destruct en as [en|].
    - exists []. cbn [fst]. rewrite app_nil_r. apply concat_rev_cons.
    - destruct (rte_prefix fuel bufs' all r1n (dn :: racc)) as (x & Hx). exists x. rewrite Hx, concat_rev_cons. reflexivity. }
  destruct Hpre as (x & Hpre). rewrite Hpre in Hwp.
  apply wf_bytes_app in Hwp. destruct Hwp as [Hw1 Hwx]. apply wf_bytes_app in Hw1. destruct Hw1 as [Hwa Hwd].
  pose proof (HQ k rn Hk HQ0) as HQ1.
  destruct (reader_read_T k r rn acc H Hskip HU HW Hwa Hopen Hwd) as [(I1 & I2 & I3 & I4)|(E1 & E2 & E3 & E4)].
  - (* the first ErrInvalidUTF8 *)
    right. exists (snd (reader_read k rn)).
    destruct (reader_read k r) as [[d e] r1]. destruct (reader_read k rn) as [[dn en] r1n].
    cbn [fst snd] in *. subst e. cbn [fst snd]. split; [reflexivity|]. split; [exact I2|]. split; [exact HQ1|].
    split; [exact I3|]. intros Hy.
    assert (Hwhole: wf_bytes ((acc ++ dn) ++ x)) by (apply wf_bytes_app; split; [apply wf_bytes_app; split; assumption|exact Hwx]).
    rewrite Hpre. destruct I4 as [I4|[I4 I5]].
    + apply dfa_reject_dead; [apply wf_bytes_app; split; assumption|exact Hwx|exact I4].
    + subst en. cbn [fst snd] in Hpre. rewrite concat_rev_cons in Hpre. fold acc in Hpre.
      assert (x = []) by (apply (app_inv_head (acc ++ dn)); rewrite app_nil_r; symmetry; exact Hpre). subst x.
      rewrite app_nil_r in *. rewrite <- dfa_correct by exact Hwhole. apply N.eqb_neq, I5.
  - destruct (reader_read k r) as [[d e] r1] eqn:Er. destruct (reader_read k rn) as [[dn en] r1n].
    cbn [fst snd] in *. injection E1 as <- <-.
    destruct e as [e|].
    + left. cbn [fst snd]. split; [reflexivity|]. split; [exact E2|]. intros -> Hop.
      rewrite concat_rev_cons. fold acc. cbn [fst snd] in Hpre. rewrite concat_rev_cons in Hpre. fold acc in Hpre.
      rewrite <- dfa_correct by (apply wf_bytes_app; split; assumption). apply N.eqb_eq, E4; [reflexivity|exact Hop].
    + destruct (E3 eq_refl) as (HU1 & HW1 & Hop1 & Hopen1).
      assert (Hskip1: r_skip r1 = false).
      { pose proof (reader_read_skip k r) as Sk. rewrite Er in Sk. cbn [snd] in Sk. congruence. }
      cbn [fst snd] in Hpre.
      assert (Hwp1: wf_bytes (fst (fst (read_to_eof fuel bufs' all r1n (d :: racc))))).
      { rewrite Hpre. apply wf_bytes_app; split; [apply wf_bytes_app; split; assumption|exact Hwx]. }
      unfold acc in HU1. rewrite <- concat_rev_cons in HU1.
      destruct (IH bufs' all r1 r1n (d :: racc) E2 Hskip1 HU1 HW1 Hopen1 HQ1 Hwp1) as [(A1 & A2 & A3)|(rnm & A1 & A2 & A3 & A4 & A5)].
      * left. split; [exact A1|]. split; [exact A2|]. rewrite Hop1 in A3. exact A3.
      * right. exists rnm. split; [exact A1|]. split; [exact A2|]. split; [exact A3|]. split; [congruence|exact A5].
Qed.
End Lock.

(* ================================================================== 9. the spec: frame index and accumulated events do not matter *)
Lemma spec_k c : forall fs k k' openm evs,
  sr_events (spec_run c k openm evs fs) = sr_events (spec_run c k' openm evs fs) /\
  (sr_out (spec_run c k openm evs fs) = OClean -> sr_out (spec_run c k' openm evs fs) = OClean).
Proof.
  induction fs as [|f fs IH]; intros k k' openm evs.
  - rewrite !spec_run_nil. split; [reflexivity|intros X; exact X].
  - rewrite !spec_run_cons.
    destruct (negb (frame_ok c (is_some openm) f)); [split; [reflexivity|intros X; discriminate X]|].
    destruct ((0 <? c_max c)%Z && (c_max c <? Z.of_N (len (sf_payload f)))%Z); [split; [reflexivity|intros X; discriminate X]|].
    destruct (c_ext c && rsv1 f && negb (first_data f)); [split; [reflexivity|intros X; discriminate X]|].
    destruct (spec_control (sf_op f)); [apply IH|].
    unfold spec_data. destruct (msg_of c openm f) as [[o p] cm].
    destruct (wrap_of c o && negb (if sf_fin f then valid_utf8 (p ++ sf_payload f) else utf8_viable (p ++ sf_payload f)));
      [split; [reflexivity|intros X; exact X]|].
    destruct (sf_fin f); apply IH.
Qed.

Definition ev_wf (e : event) : Prop := wf_bytes (ev_payload e).
Lemma spec_wf c : forall fs k openm evs, Forall wf_sframe fs -> wf_bytes (partial_of openm) -> Forall ev_wf evs ->
  Forall ev_wf (sr_events (spec_run c k openm evs fs)).
Proof.
  induction fs as [|f fs IH]; intros k openm evs Hfs Hp Hevs.
  - rewrite spec_run_nil. exact Hevs.
  - pose proof (Forall_inv Hfs) as (_ & _ & Hwp & _). pose proof (Forall_inv_tail Hfs) as Hfs'.
    rewrite spec_run_cons.
    destruct (negb (frame_ok c (is_some openm) f)); [exact Hevs|].
    destruct ((0 <? c_max c)%Z && (c_max c <? Z.of_N (len (sf_payload f)))%Z); [exact Hevs|].
    destruct (c_ext c && rsv1 f && negb (first_data f)); [exact Hevs|].
    destruct (spec_control (sf_op f)).
    + apply IH; [exact Hfs'|exact Hp|]. apply Forall_app. split; [exact Hevs|]. constructor; [exact Hwp|constructor].
    + unfold spec_data.
      assert (Hm: wf_bytes (m_acc (msg_of c openm f))).
      { destruct openm as [[[o p] cm]|]; cbn [msg_of m_acc fst snd partial_of] in *; [exact Hp|constructor]. }
      destruct (msg_of c openm f) as [[o p] cm]. cbn [m_acc fst snd] in Hm.
      assert (Hacc: wf_bytes (p ++ sf_payload f)) by (apply wf_bytes_app; split; assumption).
      destruct (wrap_of c o && negb (if sf_fin f then valid_utf8 (p ++ sf_payload f) else utf8_viable (p ++ sf_payload f)));
        [exact Hevs|].
      destruct (sf_fin f).
      * apply IH; [exact Hfs'|constructor|]. apply Forall_app. split; [exact Hevs|]. constructor; [exact Hacc|constructor].
      * apply IH; [exact Hfs'|exact Hacc|exact Hevs].
Qed.

Lemma filter_all_inter mid : all_inter mid -> filter (fun e => negb (ev_inter e)) mid = [].
Proof. induction 1 as [|e l He _ IH]; [reflexivity|]. cbn [filter]. rewrite He. exact IH. Qed.

(* ================================================================== 10. the Reader with CheckUTF8 switched off *)
Definition unchk (r : reader) : reader :=
  mkR (r_src r) (r_state r) (r_skip r) false (r_max r) (r_ext r) (r_compressed r) (r_cb r)
      (r_opcode r) (r_frame r) (r_rawN r) (r_masked r) (r_key r) (r_cpos r) (r_u8wrap r) (r_u8state r) (r_u8acc r) (r_log r).

Lemma unchk_sim c lg fs r : c_check_utf8 c = true -> Bnd c None lg fs r -> at_rest r ->
  simR r (unchk r) /\ Bnd (no_utf8 c) None lg fs (unchk r).
Proof.
  intros Hchk [Hcfg Hsrc Hwf Hlog Hst Hnoext Hmsg] Hrest.
  destruct (at_rest_fields r Hrest) as (_ & _ & _ & Hw & _). destruct Hcfg as (C1 & C2 & C3 & C4 & C5). split.
  - unfold simR, simD, unchk; rsimpl. repeat split; try reflexivity; [congruence|exact Hw].
  - constructor; unfold unchk; rsimpl; cbn [is_some] in *; try assumption.
    unfold cfg_ok; rsimpl. cbn [no_utf8 c_state c_check_utf8 c_max c_ext]. repeat split; assumption.
Qed.

Lemma bnd_rewire c lg t t' r : Bnd c None lg t r -> wire t = wire t' -> Forall wf_sframe t' -> Bnd c None lg t' r.
Proof.
  intros [Hcfg Hsrc Hwf Hlog Hst Hnoext Hmsg] Hw Hf. constructor; try assumption.
  unfold src_ok in *. rewrite <- Hw. exact Hsrc.
Qed.

(* one Read keeps the invariant of ReaderFreshProofs.reads_then_discard *)
Lemma pinv_step c target cm : wf_cfg c -> forall kk r, 0 < kk -> PInv c target cm r ->
  PInv c target cm (snd (reader_read kk r)).
Proof.
  intros Hc kk r Hkk HP.
  destruct HP as [(st & lg & rest & k & evs & Hinv & Hraw & Hpos & Hcl & Hnctl & Hcm)|(lg & HB & Hrest & Hcm)].
  - destruct (read_stepP c st lg rest r kk Hc Hinv Hkk)
      as [(d & r' & st' & mid & rest' & Hr & Hinv' & Hopq & Hcmq & _ & _ & Hpos' & Hraw' & Hsp)
         |[(d & r' & Hr & HB & Hcp & _)|(d & err & r' & Hr & _ & Hsp)]]; rewrite Hr; cbn [snd].
    + left. destruct (Hsp k evs) as (k' & Heq).
      exists st', (lg ++ mid), rest', k', (evs ++ mid).
      split; [exact Hinv'|]. split; [exact Hraw'|]. split; [congruence|]. split; [rewrite <- Heq; exact Hcl|].
      split; congruence.
    + right. exists lg. rewrite <- Hpos.
      split; [exact HB|]. split; [exact (read_eof_at_rest _ _ _ _ Hr)|].
      destruct Hcp as [Hcp|Hcp]; congruence.
    + exfalso. apply (Hsp k evs), Hcl.
  - destruct (at_rest_fields r Hrest) as (_ & Hfr & _). pose proof Hrest as [_ Hnf].
    rewrite reader_read_eq, Hfr, Hnf. cbn [negb snd]. right. exists lg. split; [exact HB|split; [exact Hrest|exact Hcm]].
Qed.

Lemma pinv_discard c target cm r : wf_cfg c -> PInv c target cm r ->
  exists r3 lg, discard (S (length (flat (r_src r)))) r = (None, r3) /\ Bnd c None lg target r3 /\ at_rest r3.
Proof.
  intros Hc HP. destruct (reads_then_discard c target cm Hc [] r HP) as (outs & r3 & Hrun & Hlen & lg & HB & Hrest & _).
  destruct outs; [|discriminate Hlen]. cbn [map app run_script] in Hrun.
  destruct (discard (S (length (flat (r_src r)))) r) as [e r3']. injection Hrun as -> ->.
  exists r3, lg. split; [reflexivity|]. split; assumption.
Qed.

(* ================================================================== 11. one message of the stream *)
Lemma judge_step c bufs : wf_cfg c -> c_check_utf8 c = true -> forall fuel f ftl lg r,
  Bnd c None lg (f :: ftl) r -> at_rest r ->
  sr_out (spec_run (no_utf8 c) 0 None [] (f :: ftl)) = OClean ->
  (length (wire (f :: ftl)) <= fuel)%nat ->
  exists h r1 p comp mid rest' k' lg' r3,
    next_frame r = ((h, None), r1) /\ h_op h = sf_op f /\ all_inter mid /\
    spec_run (no_utf8 c) 0 None [] (f :: ftl) =
      spec_run (no_utf8 c) k' None (mid ++ [mkEv (sf_op f) p false comp]) rest' /\
    (length (wire rest') + 2 <= length (wire (f :: ftl)))%nat /\
    Bnd c None lg' rest' r3 /\ at_rest r3 /\
    ((verdict_of c (mkEv (sf_op f) p false comp) = VOk (sf_op f) p /\
      read_to_eof fuel bufs bufs r1 [] = ((p, RIo EEOF), r3)) \/
     (verdict_of c (mkEv (sf_op f) p false comp) = VInvalid /\
      exists d r2, read_to_eof fuel bufs bufs r1 [] = ((d, RInvalidUtf8), r2) /\
                   discard (S (length (flat (r_src r2)))) r2 = (None, r3))).
Proof.
  intros Hc Hchk fuel f ftl lg r HB Hrest Hclean Hfuel.
  set (cn := no_utf8 c) in *. pose proof (wf_cfg_no_utf8 c Hc) as Hcn. fold cn in Hcn.
  destruct (unchk_sim c lg (f :: ftl) r Hchk HB Hrest) as [S0 HBn]. fold cn in HBn. set (rn := unchk r) in *.
  destruct (next_frame_spec cn None lg f ftl rn Hcn HBn) as (hn & e & r1n & Hnfn & Hsp).
  destruct e as [err|].
  { exfalso. destruct Hsp as (_ & Hsp). destruct (Hsp 0%nat []) as (out & Heq & _ & _ & Hnc).
    rewrite Heq in Hclean. apply Hnc, Hclean. }
  destruct Hsp as (Hlen & [(m0 & Hm0 & _)|(Hop & HM & Hspd)]); [discriminate|].
  destruct (next_frame_simR r rn S0) as [E1 S1]. rewrite Hnfn in E1, S1.
  destruct (next_frame r) as [[h e0] r1] eqn:Hnf. cbn [fst snd] in E1, S1. injection E1 as <- ->.
  set (st := MMid (msg_of cn None f) f [] (sf_payload f)).
  pose proof (b_src _ _ _ _ _ HBn) as (_ & _ & Hfln).
  assert (Hmu: (mu r1n < fuel)%nat).
  { unfold mu. rewrite (m_frame _ _ _ _ _ _ _ _ HM). rewrite Hfln in Hlen. clear -Hlen Hfuel. lia. }
  assert (Hcl: sr_out (mspec cn 0 st [] ftl) = OClean) by (cbn [mspec st]; rewrite <- Hspd; exact Hclean).
  destruct (read_to_eof_specS cn Hcn fuel st lg ftl r1n bufs bufs [] HM eq_refl Hmu) as (p & e & r2n & Hrte & Hres).
  destruct Hres as [(-> & mid & rest' & HB2n & Hcp & Hle & Hmid & Hspe)|(Hne & Hnc)].
  2: { exfalso. apply (Hnc 0%nat []). exact Hcl. }
  destruct (Hspe 0%nat []) as (k' & Heq). cbn [mspec st mmsg msg_of m_op m_comp fst snd app] in Heq. rewrite <- Hspd in Heq.
  set (comp := c_ext cn && rsv1 f) in *.
  assert (Hwp: wf_bytes p).
  { pose proof (spec_wf cn (f :: ftl) 0%nat None [] (b_wf _ _ _ _ _ HBn) ltac:(constructor) ltac:(constructor)) as W.
    rewrite Heq, spec_run_evs_pre in W. cbn [pre_evs sr_events] in W.
    apply Forall_app in W. destruct W as [W _]. apply Forall_app in W. destruct W as [_ W]. exact (Forall_inv W). }
  (* the UTF8Reader of r1 *)
  destruct (at_rest_fields r Hrest) as (Hop0 & Hfr0 & _ & _ & Hus0 & _). pose proof Hrest as [_ Hnfrag].
  pose proof (b_cfg _ _ _ _ _ HB) as (Hskip & Hchkr & _).
  assert (HU0: TU r []) by (unfold TU; rewrite Hop0; exact Hus0).
  assert (HW0: TW r) by (unfold TW; rewrite Hfr0; intros X; discriminate X).
  destruct (next_frame_T r [] h r1 Hskip ltac:(congruence) HU0 HW0 Hfr0 ltac:(intros _; split; [exact Hus0|reflexivity]) Hnf)
    as (HU1 & HW1 & _ & Hopc1 & Hopen1).
  specialize (Hopc1 Hnfrag). rewrite Hop in Hopc1.
  assert (Hskip1: r_skip r1 = false).
  { pose proof (next_frame_skip r) as X. rewrite Hnf in X. cbn [snd] in X. congruence. }
  (* lock step *)
  set (target := st_rest st ftl).
  set (Q := fun x : reader => spec_control (sf_op f) = false -> PInv cn target comp x).
  assert (HQ: forall k x, 0 < k -> Q x -> Q (snd (reader_read k x))).
  { intros k x Hk Hx Hn. apply pinv_step; [exact Hcn|exact Hk|exact (Hx Hn)]. }
  assert (HQ1: Q r1n).
  { intros Hnctl. left. exists st, lg, ftl, 0%nat, [].
    split; [exact HM|]. split; [intros m X; discriminate X|]. split; [reflexivity|]. split; [exact Hcl|].
    split; [exact Hnctl|reflexivity]. }
  pose proof (rte_lock Q HQ fuel bufs bufs r1 r1n [] S1 Hskip1 HU1 HW1 Hopen1 HQ1) as L.
  rewrite Hrte in L. cbn [fst snd] in L. specialize (L Hwp). cbv zeta in L.
  assert (Hlen2: (length (wire rest') + 2 <= length (wire (f :: ftl)))%nat).
  { pose proof (b_src _ _ _ _ _ HB2n) as (_ & _ & Hf2). rewrite <- Hf2. rewrite Hfln in Hlen. clear -Hlen Hle. lia. }
  destruct L as [(A1 & A2 & A3)|(rnm & A1 & A2 & A3 & A4 & A5)].
  - (* delivered *)
    destruct (read_to_eof fuel bufs bufs r1 []) as [[p1 e1] r2] eqn:Hr. cbn [fst snd] in A1, A2. injection A1 as -> ->.
    pose proof (read_to_eof_at_rest _ _ _ _ _ _ _ Hr) as Hrest2.
    pose proof (bnd_transfer c _ _ r2 r2n Hchk HB2n (simR_D _ _ A2) Hrest2) as HB2.
    exists h, r1, p, comp, mid, rest', k', (lg ++ mid), r2.
    split; [reflexivity|]. split; [exact Hop|]. split; [exact Hmid|]. split; [exact Heq|]. split; [exact Hlen2|].
    split; [exact HB2|]. split; [exact Hrest2|]. left. split; [|exact Hr].
    unfold verdict_of. cbn [ev_op ev_payload]. rewrite Hchk. cbn [andb].
    destruct (sf_op f =? 1) eqn:E1; [|reflexivity]. apply N.eqb_eq in E1.
    rewrite (A3 eq_refl ltac:(congruence)). reflexivity.
  - (* ErrInvalidUTF8, then Discard *)
    assert (Hop1: sf_op f = 1) by congruence.
    assert (Hnctl: spec_control (sf_op f) = false) by (rewrite Hop1; reflexivity).
    destruct (pinv_discard cn target comp rnm Hcn (A3 Hnctl)) as (r3n & lgD & HD & HB3n & Hrest3n).
    destruct (read_to_eof fuel bufs bufs r1 []) as [[d e1] r2] eqn:Hr. cbn [fst snd] in A1, A2. subst e1.
    destruct (simD_fields _ _ A2) as (Hsrc & _).
    destruct (discard_simD (S (length (flat (r_src rnm)))) r2 rnm A2) as [E4 S4]. rewrite HD in E4, S4. cbn [fst snd] in E4, S4.
    destruct (discard (S (length (flat (r_src rnm)))) r2) as [eD r3] eqn:HD2. cbn [fst snd] in E4, S4. subst eD.
    pose proof (discard_at_rest _ _ _ HD2) as Hrest3.
    (* where Discard lands = where reading to the end lands *)
    destruct (read_to_eofP cn Hcn fuel st lg ftl r1n bufs bufs [] 0%nat [] HM Hmu Hcl) as (p' & r2' & mid' & Hrte' & HBt & _).
    rewrite Hrte in Hrte'. injection Hrte' as _ <-.
    pose proof (b_src _ _ _ _ _ HBt) as (_ & _ & Hft). pose proof (b_src _ _ _ _ _ HB2n) as (_ & _ & Hf2).
    fold target in Hft.
    pose proof (bnd_rewire cn lgD target rest' r3n HB3n ltac:(congruence) (b_wf _ _ _ _ _ HB2n)) as HB3n'.
    pose proof (bnd_transfer c _ _ r3 r3n Hchk HB3n' S4 Hrest3) as HB3.
    exists h, r1, p, comp, mid, rest', k', lgD, r3.
    split; [reflexivity|]. split; [exact Hop|]. split; [exact Hmid|]. split; [exact Heq|]. split; [exact Hlen2|].
    split; [exact HB3|]. split; [exact Hrest3|]. right. split.
    + unfold verdict_of. cbn [ev_op ev_payload]. rewrite Hchk, Hop1, (A5 eq_refl). reflexivity.
    + exists d, r2. split; [exact Hr|]. rewrite Hsrc. exact HD2.
Qed.

(* ================================================================== 12. C07: every message of a stream judged by itself *)
Lemma judge_stream_bnd c bufs : wf_cfg c -> c_check_utf8 c = true -> forall fuel fs lg r,
  Bnd c None lg fs r -> at_rest r -> sr_out (spec_run (no_utf8 c) 0 None [] fs) = OClean ->
  (length (wire fs) + 1 <= fuel)%nat ->
  judge_stream fuel bufs r = (map (verdict_of c) (messages_of c fs), RIo EEOF).
Proof.
  intros Hc Hchk. unfold messages_of. set (cn := no_utf8 c).
  induction fuel as [|fuel IH]; intros fs lg r HB Hrest Hclean Hfuel; [lia|].
  destruct fs as [|f ftl].
  - destruct (next_frame_eof c None lg r HB) as (h & r' & Hnf & _). cbn [is_some] in Hnf.
    cbn [judge_stream]. rewrite Hnf. rewrite spec_run_nil. reflexivity.
  - destruct (judge_step c bufs Hc Hchk (S fuel) f ftl lg r HB Hrest Hclean ltac:(lia))
      as (h & r1 & p & comp & mid & rest' & k' & lg' & r3 & Hnf & Hop & Hmid & Heq & Hlen & HB3 & Hrest3 & Hv).
    fold cn in Heq.
    assert (Hcl': sr_out (spec_run cn 0 None [] rest') = OClean).
    { apply (proj2 (spec_k cn rest' k' 0%nat None [])).
      rewrite Heq, spec_run_evs_pre in Hclean. exact Hclean. }
    assert (Hev: filter (fun e => negb (ev_inter e)) (sr_events (spec_run cn 0 None [] (f :: ftl))) =
                 mkEv (sf_op f) p false comp :: filter (fun e => negb (ev_inter e)) (sr_events (spec_run cn 0 None [] rest'))).
    { rewrite Heq, spec_run_evs_pre. cbn [pre_evs sr_events]. rewrite !filter_app, (filter_all_inter _ Hmid).
      cbn [filter ev_inter negb app]. rewrite (proj1 (spec_k cn rest' k' 0%nat None [])). reflexivity. }
    specialize (IH rest' lg' r3 HB3 Hrest3 Hcl' ltac:(lia)).
    cbn [judge_stream]. rewrite Hnf, Hev. cbn [map].
    destruct Hv as [(Hv & Hr)|(Hv & d & r2 & Hr & HD)]; rewrite Hr, Hv.
    + rewrite IH, Hop. reflexivity.
    + rewrite HD, IH. reflexivity.
Qed.

Theorem stream_of_messages_each_judged : forall c fs s bufs fuel,
  wf_cfg c -> c_check_utf8 c = true -> Forall wf_sframe fs -> wire_ok c fs ->
  wf_src s -> tl s = TEOF -> flat s = wire fs -> (length (wire fs) + 1 <= fuel)%nat ->
  judge_stream fuel bufs (new_reader s (c_state c) false (c_check_utf8 c) (c_max c) (c_ext c) CbReadAll)
  = (map (verdict_of c) (messages_of c fs), RIo EEOF).
Proof.
  intros c fs s bufs fuel Hc Hchk Hfs Hok Hw Ht Hfl Hfuel.
  apply (judge_stream_bnd c bufs Hc Hchk fuel fs []); [apply new_reader_bnd; assumption| |exact Hok|exact Hfuel].
  split; [reflexivity|]. cbn [new_reader r_state].
  rewrite <- (set_frag_init _ Hc). apply st_frag_set.
Qed.

(* ################################################################## state level: Discard on a drained, unfragmented frame
   (where Read leaves the Reader when it reports ErrInvalidUTF8 at the very end of a message:
   frame still set, raw.N = 0, State not fragmented).  For EVERY such Reader state, whatever its
   history, configuration and source: Discard returns nil, is exactly reset(), and does not touch the
   source. *)
Lemma read_full_aux_0 g cs t : read_full_aux 0 g cs t = (([], None), cs).
Proof. destruct cs; reflexivity. Qed.

Theorem discard_drained_is_reset : forall n r, r_rawN r = 0 -> st_fragmented (r_state r) = false ->
  discard (S n) r = (None, reset r) /\ r_src (reset r) = r_src r /\ at_rest (reset r).
Proof.
  intros n r H0 Hf. split; [|split; [reflexivity|apply at_rest_reset, Hf]].
  destruct r as [[cs t] st sk ch mx ex cm cb op fr rn mk ky cp uw us ua lg]. rsimpl. subst rn.
  cbn [discard]. unfold raw_drain, read_full. rsimpl. cbn [chunks tl]. rewrite read_full_aux_0.
  rsimpl. rewrite Hf. reflexivity.
Qed.

(* ################################################################## the spec's messages: split at message boundaries *)
(* a well-formed piece [a] of a stream (it ends at a message boundary) contributes its own
   messages, whatever follows; and what follows is judged as if it stood alone *)
Theorem messages_of_app : forall c a b, Forall wf_sframe a -> wire_ok c a ->
  messages_of c (a ++ b) = messages_of c a ++ messages_of c b /\ (wire_ok c (a ++ b) <-> wire_ok c b).
Proof.
  intros c a b Hwf Hok. unfold wire_ok, messages_of in *. set (cn := no_utf8 c) in *.
  destruct (spec_prefix cn a 0%nat None [] Hwf I (or_introl Hok)) as (openm' & _ & _ & Hout & Happ & _).
  rewrite Hok in Hout. destruct openm' as [m|]; [discriminate Hout|].
  rewrite (Happ b), spec_run_evs_pre. cbn [pre_evs sr_events sr_out]. split.
  - rewrite filter_app, (proj1 (spec_k cn b (0 + length a) 0%nat None [])). reflexivity.
  - split; apply (proj2 (spec_k cn b _ _ None [])).
Qed.

(* ONE structured message (extension attached): it is its own single message, with the concatenated payload *)
Lemma messages_of_message c rsv0 op k0 p0 l : c_ext c = true -> (op = 1 \/ op = 2) ->
  (rsv0 = 0 \/ st_extended (c_state c) = true) ->
  let fs := msg_frames_rsv rsv0 op k0 p0 l in
  Forall wf_sframe fs -> Forall (fun f => mask_ok (c_state c) f = true /\ too_large c f = false) fs ->
  Forall (fun x => Forall (fun f => ctl_ok f = true) (fr_ctl x)) l ->
  wire_ok c fs /\ messages_of c fs = [mkEv op (msg_payload p0 l) false (rsv1_bit rsv0)].
Proof.
  intros Hext Hop Hrsv fs Hwf Hfits Hctls. unfold wire_ok, messages_of. set (cn := no_utf8 c).
  destruct (structured cn rsv0 op k0 p0 l Hwf Hfits Hctls) as (Hp0 & Hfit & Hokx). subst fs.
  rewrite (spec_message cn Hext rsv0 op k0 p0 l Hop Hrsv Hp0 Hfit Hokx ltac:(intros X; discriminate X)).
  cbn [sr_out sr_events]. split; [reflexivity|].
  rewrite filter_app. cbn [filter ev_inter negb]. unfold msg_ctl_events_c.
  match goal with |- filter _ (map ?g ?x) ++ _ = _ => induction x as [|y ys IHy]; [reflexivity|exact IHy] end.
Qed.

(* ################################################################## only the FIRST message need be well-formed
   The invariant lemmas of ReaderFreshProofs.v ask that the spec accepts the WHOLE remaining stream.  For
   Discard (and the Reads before it) only the frames up to the end of the current message matter.  [Pm evs sr]:
   the spec result [sr], computed from accumulated events [evs], is clean OR has emitted a further event that is
   not an interleaved control frame — the current message was completed without breaking a rule; what comes
   after it may break rules or be cut.  read_stepP2 / discardP2 are read_stepP / discardP with that hypothesis. *)
Definition cnt (l : list event) : nat := length (filter (fun e => negb (ev_inter e)) l).
Definition Pm (evs : list event) (sr : spec_result) : Prop :=
  sr_out sr = OClean \/ (cnt evs < cnt (sr_events sr))%nat.

Lemma Pm_stop evs pt out : out <> OClean -> ~ Pm evs (mkSR evs pt out).
Proof. intros H [X|X]; cbn [sr_out sr_events] in X; [contradiction|lia]. Qed.
Lemma cnt_inter evs mid : all_inter mid -> cnt (evs ++ mid) = cnt evs.
Proof. intros H. unfold cnt. rewrite filter_app, (filter_all_inter _ H), app_nil_r. reflexivity. Qed.
Lemma Pm_inter evs mid sr : all_inter mid -> Pm evs sr -> Pm (evs ++ mid) sr.
Proof. intros H [X|X]; [left; exact X|right; rewrite (cnt_inter _ _ H); exact X]. Qed.

Lemma read_stepP2 c st lg rest r kk : wf_cfg c -> minv c st lg rest r -> 0 < kk ->
  (exists d r' st' mid rest', reader_read kk r = ((d, None), r') /\ minv c st' (lg ++ mid) rest' r' /\
      m_op (mmsg st') = m_op (mmsg st) /\ m_comp (mmsg st') = m_comp (mmsg st) /\
      (mu r' < mu r)%nat /\ all_inter mid /\ st_rest st' rest' = st_rest st rest /\
      (forall m0, st' = MBet m0 -> r_rawN r' = 0) /\
      forall k evs, exists k', mspec c k st evs rest = mspec c k' st' (evs ++ mid) rest') \/
  (exists d r', reader_read kk r = ((d, Some (RIo EEOF)), r') /\ Bnd c None lg (st_rest st rest) r' /\
      (r_compressed r' = m_comp (mmsg st) \/ spec_control (m_op (mmsg st)) = true) /\
      (length (flat (r_src r')) <= length (flat (r_src r)))%nat) \/
  (exists d err r', reader_read kk r = ((d, Some err), r') /\ err <> RIo EEOF /\
      forall k evs, exists pt out, mspec c k st evs rest = mkSR evs pt out /\ out <> OClean).
Proof.
  intros Hc Hinv Hk. destruct st as [m f pre post|m]; cbn [minv mspec mdeliv mmsg st_rest] in *.
  - (* inside a frame *)
    rewrite reader_read_eq, (m_frame _ _ _ _ _ _ _ _ Hinv).
    pose proof (m_src _ _ _ _ _ _ _ _ Hinv) as (Hw & _).
    destruct (rgo_step c m f pre post lg rest r kk Hc Hinv Hk)
      as [(d & post' & r' & Hr & Hdp & HM & Hmu)|[(r' & Hr & HB & Hmu & Hsp)|[(r' & Hr & HB & Hcp & Hle & Hsp)|(d & r' & Hr & Hlg & Hsp)]]].
    + left. exists d, r', (MMid m f (pre ++ d) post'), [], rest. cbn [minv mspec mmsg st_rest]. rewrite app_nil_r.
      split; [exact Hr|]. split; [exact HM|]. split; [reflexivity|]. split; [reflexivity|].
      split; [exact Hmu|]. split; [constructor|]. split; [reflexivity|]. split; [intros m0 X; discriminate X|].
      intros k evs. exists k. rewrite app_nil_r. reflexivity.
    + left. exists post, r', (MBet (msg_after m f)), [], rest. cbn [minv mspec mmsg st_rest]. rewrite app_nil_r.
      pose proof (fin_of_state _ _ _ _ _ _ _ _ _ _ _ _ _ _ Hinv Hr HB) as Hfin. cbn [is_some negb] in Hfin.
      split; [exact Hr|]. split; [exact HB|]. split; [reflexivity|]. split; [reflexivity|].
      split; [exact Hmu|]. split; [constructor|]. split; [rewrite Hfin; reflexivity|]. split.
      { intros m0 _. pose proof (b_msg _ _ _ _ _ HB) as (Hfr' & _).
        exact (rgo_rawN kk r post r' Hw Hk (m_frame _ _ _ _ _ _ _ _ Hinv) Hr Hfr'). }
      intros k evs. exists (S k). rewrite app_nil_r. apply Hsp.
    + right; left. exists post, r'.
      pose proof (fin_of_state _ _ _ _ _ _ _ _ _ _ _ _ _ _ Hinv Hr HB) as Hfin. cbn [is_some negb] in Hfin.
      rewrite Hfin. split; [exact Hr|]. split; [exact HB|]. split; [exact Hcp|exact Hle].
    + right; right. exists d, RInvalidUtf8, r'. split; [exact Hr|]. split; [discriminate|].
      intros k evs. exists [], OInvalidUtf8. split; [apply Hsp|discriminate].
  - (* between two fragments: the next header first *)
    pose proof (b_msg _ _ _ _ _ Hinv) as (Hfr & _). cbn [is_some] in *.
    rewrite reader_read_eq, Hfr, (b_state _ _ _ _ _ Hinv), st_frag_set. cbn [negb is_some].
    destruct rest as [|f rest].
    + destruct (next_frame_eof c (Some m) lg r Hinv) as (h & r' & Hnf & Hlg). rewrite Hnf. cbn [is_some].
      right; right. exists [], (RIo EUnexpected), r'. split; [reflexivity|]. split; [discriminate|].
      intros k evs. rewrite spec_run_nil. cbn [is_some]. do 2 eexists. split; [reflexivity|discriminate].
    + pose proof (next_frame_facts c (Some m) lg f rest r Hc Hinv) as F.
      destruct (next_frame_spec c (Some m) lg f rest r Hc Hinv) as (h & e & r1 & Hnf & H). rewrite Hnf in F |- *.
      cbn [is_some andb] in F.
      destruct e as [err|].
      * destruct H as (Hlg & Hsp). right; right. exists [], err, r1. split; [reflexivity|].
        split.
        { intros ->. destruct (Hsp 0%nat []) as (out & _ & Hem & _ & Hnc).
          destruct out; cbn [err_matches] in Hem; try discriminate. apply Hnc; reflexivity. }
        intros k evs. destruct (Hsp k evs) as (out & Heq & _ & _ & Hnc). do 2 eexists. split; [exact Heq|exact Hnc].
      * destruct (check_header (sf_header f) (set_fragmented (c_state c) true)) as [rl0|] eqn:Hck;
          [discriminate F|]. destruct F as [_ F]. specialize (F eq_refl).
        destruct H as (Hlen & [(m0 & Hm0 & Hfr1 & HB & Hsp)|(Hop & HM & Hsp)]).
        -- (* control frame in between *)
           rewrite Hfr1 in F |- *.
           assert (Hctl: spec_control (sf_op f) = true)
             by (destruct (spec_control (sf_op f)); [reflexivity|discriminate F]).
           injection Hm0 as <-. left.
           exists [], r1, (MBet m), [mkEv (sf_op f) (sf_payload f) true (m_comp m)], rest.
           cbn [minv mspec mmsg st_rest after_msg]. rewrite Hctl.
           split; [reflexivity|]. split; [exact HB|]. split; [reflexivity|]. split; [reflexivity|]. split.
           { unfold mu. rewrite Hfr, Hfr1. clear -Hlen. lia. }
           split; [repeat constructor|]. split; [reflexivity|].
           split; [intros m0 _; exact (next_frame_ctl_rawN _ _ _ Hnf Hfr1)|].
           intros k evs. exists (S k). apply Hsp.
        -- (* next fragment: its first Read happens in the same call *)
           cbn [msg_of] in *. rewrite (m_frame _ _ _ _ _ _ _ _ HM) in F |- *.
           assert (Hctl: spec_control (sf_op f) = false)
             by (destruct (spec_control (sf_op f)); [discriminate F|reflexivity]).
           pose proof (m_pay _ _ _ _ _ _ _ _ HM) as Hpay. cbn [app] in Hpay.
           pose proof (m_src _ _ _ _ _ _ _ _ HM) as (Hw1 & _).
           assert (Hmu1: (mu r1 < mu r)%nat).
           { unfold mu. rewrite Hfr, (m_frame _ _ _ _ _ _ _ _ HM). clear -Hlen. lia. }
           cbn [after_msg]. rewrite Hctl.
           destruct (rgo_step c m f [] (sf_payload f) lg rest r1 kk Hc HM Hk)
             as [(d & post' & r' & Hr & Hdp & HM' & Hmu)|[(r' & Hr & HB & Hmu & Hsp')|[(r' & Hr & HB & Hcp & Hle & Hsp')|(d & r' & Hr & Hlg & Hsp')]]].
           ++ left. exists d, r', (MMid m f ([] ++ d) post'), [], rest. cbn [minv mspec mmsg st_rest]. rewrite app_nil_r.
              split; [exact Hr|]. split; [exact HM'|]. split; [reflexivity|].
              split; [reflexivity|]. split; [clear -Hmu Hmu1; lia|]. split; [constructor|].
              split; [reflexivity|]. split; [intros m0 X; discriminate X|].
              intros k evs. exists k. rewrite app_nil_r. apply Hsp.
           ++ left. exists (sf_payload f), r', (MBet (msg_after m f)), [], rest. cbn [minv mspec mmsg st_rest].
              rewrite app_nil_r.
              pose proof (fin_of_state _ _ _ _ _ _ _ _ _ _ _ _ _ _ HM Hr HB) as Hfin. cbn [is_some negb] in Hfin.
              split; [exact Hr|]. split; [exact HB|]. split; [reflexivity|].
              split; [reflexivity|]. split; [clear -Hmu Hmu1; lia|]. split; [constructor|].
              split; [rewrite Hfin; reflexivity|]. split.
              { intros m0 _. pose proof (b_msg _ _ _ _ _ HB) as (Hfr' & _).
                exact (rgo_rawN kk r1 _ r' Hw1 Hk (m_frame _ _ _ _ _ _ _ _ HM) Hr Hfr'). }
              intros k evs. exists (S k). rewrite app_nil_r, Hsp. apply Hsp'.
           ++ right; left. exists (sf_payload f), r'.
              pose proof (fin_of_state _ _ _ _ _ _ _ _ _ _ _ _ _ _ HM Hr HB) as Hfin. cbn [is_some negb] in Hfin.
              rewrite Hfin. split; [exact Hr|]. split; [exact HB|]. split; [exact Hcp|].
              unfold mu in Hmu1. rewrite Hfr, (m_frame _ _ _ _ _ _ _ _ HM) in Hmu1. clear -Hle Hmu1. lia.
           ++ right; right. exists d, RInvalidUtf8, r'. split; [exact Hr|]. split; [discriminate|].
              intros k evs. exists [], OInvalidUtf8. split; [rewrite Hsp; apply Hsp'|discriminate].
Qed.

(* reading the current message to io.EOF on a stream the spec accepts *)

Lemma discardP2 c : wf_cfg c -> forall fuel st lg rest rn fr s0 k evs,
  minv c st lg rest rn -> (forall m, st = MBet m -> r_rawN rn = 0) ->
  (length (flat (r_src rn)) < fuel)%nat ->
  Pm evs (mspec c k st evs rest) ->
  dresP c (discard fuel (with_fix rn fr s0)) lg (st_rest st rest) (m_comp (mmsg st)) (spec_control (m_op (mmsg st))).
Proof.
  intros Hc. induction fuel as [|fuel IH]; intros st lg rest rn fr s0 k evs Hinv Hraw Hfuel Hclean; [lia|].
  (* after the drain, between two fragments *)
  assert (C: forall m lg rest r1n fr st k evs, Bnd c (Some m) lg rest r1n ->
     (length (flat (r_src r1n)) < S fuel)%nat -> Pm evs (spec_run c k (Some m) evs rest) ->
     dresP c (let '((_, e2), r2) := next_frame (with_fix r1n fr st) in
              match e2 with Some e2 => (Some e2, reset r2) | None => discard fuel r2 end)
           lg (after_msg rest) (m_comp m) (spec_control (m_op m))).
  { clear - Hc IH. intros m lg rest r1n fr st k evs HB Hf Hclean.
    destruct (next_frame_fix r1n fr st) as [fr' E]. rewrite E. clear E.
    destruct rest as [|f rest].
    - exfalso. rewrite spec_run_nil in Hclean. cbn [is_some] in Hclean. refine (Pm_stop _ _ _ _ Hclean); discriminate.
    - pose proof (next_frame_facts c (Some m) lg f rest r1n Hc HB) as F.
      destruct (next_frame_spec c (Some m) lg f rest r1n Hc HB) as (h & e & r2 & Hnf & H). rewrite Hnf in F |- *.
      cbn [fst snd is_some andb] in *.
      destruct e as [err|].
      + exfalso. destruct H as (_ & Hsp). destruct (Hsp k evs) as (out & Heq & _ & _ & Hnc).
        rewrite Heq in Hclean. exact (Pm_stop _ _ _ Hnc Hclean).
      + destruct (check_header (sf_header f) (set_fragmented (c_state c) true)) as [rl0|] eqn:Hck;
          [discriminate F|]. destruct F as [_ F]. specialize (F eq_refl).
        destruct H as (Hlen & [(m0 & Hm0 & Hfr1 & HB2 & Hsp)|(Hop & HM & Hsp)]).
        * injection Hm0 as <-. rewrite Hsp in Hclean.
          rewrite Hfr1 in F.
          assert (Hctl: spec_control (sf_op f) = true)
            by (destruct (spec_control (sf_op f)); [reflexivity|discriminate F]).
          pose proof (next_frame_ctl_rawN _ _ _ Hnf Hfr1) as Hr0.
          destruct (IH (MBet m) _ rest r2 fr' st (S k) _ HB2 ltac:(intros; exact Hr0) ltac:(lia)
                       (Pm_inter _ [mkEv (sf_op f) (sf_payload f) true (m_comp m)] _ ltac:(repeat constructor) Hclean))
            as (mid & r' & Hd & HB' & Hmid & Hcp).
          exists ([mkEv (sf_op f) (sf_payload f) true (m_comp m)] ++ mid), r'.
          cbn [after_msg]. rewrite Hctl.
          split; [exact Hd|]. rewrite app_assoc. split; [exact HB'|].
          split; [constructor; [reflexivity|exact Hmid]|exact Hcp].
        * cbn [msg_of] in *. rewrite Hsp in Hclean. rewrite (m_frame _ _ _ _ _ _ _ _ HM) in F.
          assert (Hctl: spec_control (sf_op f) = false)
            by (destruct (spec_control (sf_op f)); [discriminate F|reflexivity]).
          destruct (IH (MMid m f [] (sf_payload f)) lg rest r2 fr' st k evs HM ltac:(intros; discriminate) ltac:(lia) Hclean)
            as (mid & r' & Hd & HB' & Hmid & Hcp).
          exists mid, r'. cbn [after_msg]. rewrite Hctl. cbn [st_rest mmsg] in *.
          split; [exact Hd|]. split; [exact HB'|]. split; [exact Hmid|exact Hcp]. }
  cbn [discard]. rewrite raw_drain_fix.
  destruct st as [m f pre post|m]; cbn [minv mspec st_rest mmsg] in *.
  - (* inside a frame: drain it *)
    pose proof Hinv as [Hcfg (Hw & Ht & Hfl) Hwf Hf Hpay Hwacc Hlog Hst Hfr Hopc Hcompr Hnoext Hctlfin HrawN Hmk Hkey Hwrap Hu8].
    destruct (drain_ok rn (wpay f (len pre) post) (wire rest) Hw Hfl ltac:(rewrite HrawN, len_wpay; reflexivity))
      as (r1 & Hdr & Hw1 & Ht1 & Hf1 & Hr1 & Hsame).
    rewrite Hdr. cbn [fst snd].
    destruct Hsame as (S1 & S2 & S3 & S4 & S5 & S6 & S7 & S8 & S9 & S10 & S11).
    assert (Hlen1: (length (flat (r_src r1)) <= length (flat (r_src rn)))%nat).
    { rewrite Hf1, Hfl, app_length. clear. lia. }
    assert (Hcfg1: cfg_ok c r1).
    { unfold cfg_ok in *. rewrite S2, S3, S4, S5, S7. exact Hcfg. }
    change (r_state (with_fix r1 fr s0)) with (r_state r1). rewrite S1, Hst, st_frag_set, negb_involutive.
    destruct m as [[o a] cm]. cbn [m_op m_acc m_comp fst snd] in *.
    unfold spec_data in Hclean.
    destruct (wrap_of c o && negb (if sf_fin f then valid_utf8 (a ++ sf_payload f) else utf8_viable (a ++ sf_payload f))) eqn:Hu;
      [exfalso; refine (Pm_stop _ _ _ _ Hclean); discriminate|].
    destruct (sf_fin f) eqn:Hfin.
    + (* last fragment *)
      exists [], (reset r1).
      split; [reflexivity|]. rewrite app_nil_r. split.
      { constructor; rsimpl; cbn [is_some].
        - exact Hcfg1.
        - unfold src_ok; rsimpl. repeat split; [exact Hw1|congruence|exact Hf1].
        - exact Hwf.
        - congruence.
        - rewrite S1, Hst. reflexivity.
        - rewrite S6. exact Hnoext.
        - reflexivity. }
      split; [constructor|]. rsimpl. rewrite S6. exact Hcompr.
    + (* more fragments follow *)
      set (m' := (o, a ++ sf_payload f, cm)).
      set (stg := if wrap_of c o then u8_run 0 (a ++ sf_payload f) else 0).
      assert (Hwfacc': wf_bytes (a ++ sf_payload f)) by (apply wf_bytes_app; split; [exact Hwacc|apply Hf]).
      assert (Hnctl: spec_control o = false).
      { destruct (spec_control o); [|reflexivity]. specialize (Hctlfin eq_refl). discriminate. }
      assert (HB1: Bnd c (Some m') lg rest (with_fix r1 false stg)).
      { constructor; fsimpl; cbn [is_some m_op m_acc m_comp fst snd].
        - exact Hcfg1.
        - unfold src_ok; fsimpl. repeat split; [exact Hw1|congruence|exact Hf1].
        - exact Hwf.
        - congruence.
        - rewrite S1, Hst. reflexivity.
        - rewrite S6. exact Hnoext.
        - unfold m'. cbn [m_op m_acc m_comp fst snd]. split; [reflexivity|]. split; [congruence|]. split.
          { rewrite S6. destruct Hcompr as [Hx|Hx]; [exact Hx|congruence]. }
          split; [|split; assumption].
          unfold u8_ok; fsimpl. split; [reflexivity|]. unfold stg. destruct (wrap_of c o) eqn:Hwr.
          + cbn [andb] in Hu. rewrite utf8_viable_dfa in Hu by exact Hwfacc'. split.
            * intros E. rewrite E in Hu. discriminate Hu.
            * apply run_states; [exact Hwfacc'|simpl; tauto].
          + split; [discriminate|simpl; tauto]. }
      change (with_fix r1 fr s0) with (with_fix (with_fix r1 false stg) fr s0).
      assert (Hfu1: (length (flat (r_src (with_fix r1 false stg))) < S fuel)%nat) by (fsimpl; clear -Hlen1 Hfuel; lia).
      destruct (C m' lg rest (with_fix r1 false stg) fr s0 (S k) evs HB1 Hfu1 Hclean)
        as (mid & r' & Hd & HB' & Hmid & Hcp).
      exists mid, r'. split; [exact Hd|]. split; [exact HB'|]. split; [exact Hmid|exact Hcp].
  - (* between two fragments: nothing to drain *)
    specialize (Hraw m eq_refl).
    pose proof Hinv as [Hcfg (Hw & Ht & Hfl) Hwf Hlog Hst Hcz Hmsg].
    destruct (drain_ok rn [] (wire rest) Hw Hfl Hraw) as (r1 & Hdr & Hw1 & Ht1 & Hf1 & Hr1 & Hsame).
    rewrite Hdr. cbn [fst snd].
    destruct Hsame as (S1 & S2 & S3 & S4 & S5 & S6 & S7 & S8 & S9 & S10 & S11).
    assert (HB1: Bnd c (Some m) lg rest r1).
    { constructor.
      - unfold cfg_ok in *. rewrite S2, S3, S4, S5, S7. exact Hcfg.
      - unfold src_ok. repeat split; [exact Hw1|congruence|exact Hf1].
      - exact Hwf.
      - congruence.
      - congruence.
      - rewrite S6. exact Hcz.
      - unfold u8_ok in *. rewrite S9, S8, S6, S10. exact Hmsg. }
    change (r_state (with_fix r1 fr s0)) with (r_state r1). rewrite S1, Hst, st_frag_set. cbn [is_some negb].
    assert (Hfu1: (length (flat (r_src r1)) < S fuel)%nat) by (rewrite Hf1; rewrite Hfl in Hfuel; exact Hfuel).
    exact (C m lg rest r1 fr s0 k evs HB1 Hfu1 Hclean).
Qed.



Definition PInv2 (c : rcfg) (target : list sframe) (cm : bool) (r : reader) : Prop :=
  (exists st lg rest k evs, minv c st lg rest r /\ (forall m, st = MBet m -> r_rawN r = 0) /\
      st_rest st rest = target /\ Pm evs (mspec c k st evs rest) /\
      spec_control (m_op (mmsg st)) = false /\ m_comp (mmsg st) = cm) \/
  (exists lg, Bnd c None lg target r /\ at_rest r /\ r_compressed r = cm).

Lemma pinv2_step c target cm : wf_cfg c -> forall kk r, 0 < kk -> PInv2 c target cm r ->
  PInv2 c target cm (snd (reader_read kk r)).
Proof.
  intros Hc kk r Hkk HP.
  destruct HP as [(st & lg & rest & k & evs & Hinv & Hraw & Hpos & Hcl & Hnctl & Hcm)|(lg & HB & Hrest & Hcm)].
  - destruct (read_stepP2 c st lg rest r kk Hc Hinv Hkk)
      as [(d & r' & st' & mid & rest' & Hr & Hinv' & Hopq & Hcmq & _ & Hmid & Hpos' & Hraw' & Hsp)
         |[(d & r' & Hr & HB & Hcp & _)|(d & err & r' & Hr & _ & Hsp)]]; rewrite Hr; cbn [snd].
    + left. destruct (Hsp k evs) as (k' & Heq).
      exists st', (lg ++ mid), rest', k', (evs ++ mid).
      split; [exact Hinv'|]. split; [exact Hraw'|]. split; [congruence|].
      split; [rewrite <- Heq; apply Pm_inter; assumption|]. split; congruence.
    + right. exists lg. rewrite <- Hpos.
      split; [exact HB|]. split; [exact (read_eof_at_rest _ _ _ _ Hr)|].
      destruct Hcp as [Hcp|Hcp]; congruence.
    + exfalso. destruct (Hsp k evs) as (pt & out & Heq & Hnc). rewrite Heq in Hcl. exact (Pm_stop _ _ _ Hnc Hcl).
  - destruct (at_rest_fields r Hrest) as (_ & Hfr & _). pose proof Hrest as [_ Hnf].
    rewrite reader_read_eq, Hfr, Hnf. cbn [negb snd]. right. exists lg. split; [exact HB|split; [exact Hrest|exact Hcm]].
Qed.

Lemma pinv2_reads c target cm : wf_cfg c -> forall ks r, PInv2 c target cm r ->
  PInv2 c target cm (snd (run_script (map OpRead ks) r)).
Proof.
  intros Hc. induction ks as [|k ks IH]; intros r HP; [exact HP|].
  cbn [map run_script].
  assert (Hkk: 0 < (if k =? 0 then 1 else k)) by (destruct (k =? 0) eqn:E; lia).
  pose proof (pinv2_step c target cm Hc _ r Hkk HP) as H1.
  destruct (reader_read (if k =? 0 then 1 else k) r) as [[d e] r1]. cbn [snd] in H1.
  specialize (IH r1 H1). destruct (run_script (map OpRead ks) r1) as [os r2]. exact IH.
Qed.

Lemma pinv2_discard c target cm r : wf_cfg c -> PInv2 c target cm r ->
  exists r3 lg, discard (S (length (flat (r_src r)))) r = (None, r3) /\ Bnd c None lg target r3 /\ at_rest r3 /\
    r_compressed r3 = cm.
Proof.
  intros Hc HP.
  destruct HP as [(st & lg & rest & k & evs & Hinv & Hraw & Hpos & Hcl & Hnctl & Hcm)|(lg & HB & Hrest & Hcm)].
  - pose proof (discardP2 c Hc (S (length (flat (r_src r)))) st lg rest r (r_frame r) (r_u8state r) k evs
                  Hinv Hraw ltac:(lia) Hcl) as D.
    rewrite with_fix_id in D. destruct D as (mid & r' & Hd & HB & _ & Hcp).
    exists r', (lg ++ mid). split; [exact Hd|]. rewrite <- Hpos. split; [exact HB|].
    split; [exact (discard_at_rest _ _ _ Hd)|]. destruct Hcp as [Hcp|Hcp]; congruence.
  - destruct (discard_at_boundary c lg target r (length (flat (r_src r))) HB Hrest) as (r' & Hd & HB' & Hc').
    exists r', lg. split; [exact Hd|]. split; [exact HB'|]. split; [exact (discard_at_rest _ _ _ Hd)|congruence].
Qed.

(* ------------------------------------------------------------------ C18, Discard after ErrInvalidUTF8, sharp hypothesis *)
Theorem reader_discard_after_invalid_first_ok : forall c rsv0 op k0 p0 l rest s ks k o0 outs d r1,
  let m1 := msg_frames_rsv rsv0 op k0 p0 l in
  let flag := c_ext c && rsv1_bit rsv0 in
  wf_cfg c -> c_check_utf8 c = true -> (op = 1 \/ op = 2) -> Forall wf_sframe (m1 ++ rest) ->
  Forall (fun x => Forall (fun f => ctl_ok f = true) (fr_ctl x)) l ->
  first_message_ok c (m1 ++ rest) ->
  wf_src s -> tl s = TEOF -> flat s = wire (m1 ++ rest) ->
  let r0 := new_reader s (c_state c) false (c_check_utf8 c) (c_max c) (c_ext c) CbReadAll in
  run_script (OpNext :: map OpRead ks ++ [OpRead k]) r0 = (o0 :: outs ++ [OutRead d (Some RInvalidUtf8)], r1) ->
  Forall not_invalid outs ->
  exists r2, run_script [OpDiscard] r1 = ([OutDiscard None], r2) /\ reads_on_as_new c rest flag r2.
Proof.
  intros c rsv0 op k0 p0 l rest s ks k o0 outs d r1 m1 flag Hc Hchk Hop Hfs Hctl Hfirst Hw Ht Hfl r0 Hrun Hok.
  set (cn := no_utf8 c) in *.
  pose proof (wf_cfg_no_utf8 c Hc) as Hcn. fold cn in Hcn.
  pose proof (after_first_msg rsv0 op k0 p0 l rest Hctl) as Haf. fold m1 in Haf.
  assert (Hshape: exists f ftl, m1 ++ rest = f :: ftl /\ spec_control (sf_op f) = false /\ c_ext c && rsv1 f = flag).
  { unfold m1, msg_frames_rsv. cbn [app]. do 2 eexists. split; [reflexivity|]. cbn [sf_op].
    split; [destruct Hop as [-> | ->]; reflexivity|reflexivity]. }
  destruct Hshape as (f & tl0 & Heq & Hnctl & Hflag). rewrite Heq in *.
  assert (HPm: Pm [] (spec_run cn 0 None [] (f :: tl0))).
  { destruct Hfirst as [X|X]; [left; exact X|right]. unfold messages_of in X. fold cn in X. unfold cnt. cbn [filter length].
    destruct (filter _ _); [contradiction|cbn [length]; lia]. }
  (* the Reader with CheckUTF8 off: NextFrame *)
  set (r0n := new_reader s (c_state cn) false (c_check_utf8 cn) (c_max cn) (c_ext cn) CbReadAll).
  pose proof (new_reader_bnd cn (f :: tl0) s Hcn Hfs Hw Ht Hfl) as HBn. fold r0n in HBn.
  destruct (next_frame_spec cn None [] f tl0 r0n Hcn HBn) as (hn & e & r1n & Hnfn & Hsp).
  destruct e as [err|].
  { exfalso. destruct Hsp as (_ & Hsp). destruct (Hsp 0%nat []) as (out & Heq0 & _ & _ & Hnc).
    rewrite Heq0 in HPm. exact (Pm_stop _ _ _ Hnc HPm). }
  destruct Hsp as (_ & [(m0 & Hm0 & _)|(_ & HM & Hspd)]); [discriminate|].
  assert (HP: PInv2 cn (after_first (f :: tl0)) (c_ext cn && rsv1 f) r1n).
  { left. exists (MMid (msg_of cn None f) f [] (sf_payload f)), [], tl0, 0%nat, [].
    split; [exact HM|]. split; [intros m X; discriminate X|]. split; [reflexivity|].
    split; [cbn [mspec]; rewrite <- Hspd; exact HPm|]. split; [exact Hnctl|reflexivity]. }
  (* lock step *)
  assert (S0: simR r0 r0n).
  { unfold r0, r0n, cn, new_reader, simR, simD. rsimpl. rewrite Hchk. cbn [no_utf8 c_state c_check_utf8 c_max c_ext].
    repeat split; reflexivity. }
  destruct (next_frame_simR r0 r0n S0) as [E1 S1]. rewrite Hnfn in E1, S1. cbn [fst snd] in E1, S1.
  change (OpNext :: map OpRead ks ++ [OpRead k]) with ([OpNext] ++ (map OpRead ks ++ [OpRead k])) in Hrun.
  cbn [app run_script] in Hrun.
  destruct (next_frame r0) as [[h0 e0] ra]. cbn [fst snd] in E1, S1. injection E1 as -> ->.
  rewrite run_script_app in Hrun.
  destruct (run_script (map OpRead ks) ra) as [oa rb] eqn:HA.
  cbn [run_script] in Hrun.
  set (kk := if k =? 0 then 1 else k) in *.
  assert (Hkk: 0 < kk) by (unfold kk; destruct (k =? 0) eqn:E; lia).
  destruct (reader_read kk rb) as [[dd ee] rc] eqn:HB.
  injection Hrun as <- Houts <-.
  apply app_inj_tail in Houts. destruct Houts as [-> Hlast]. injection Hlast as -> ->.
  destruct (reads_simR ks ra r1n outs rb S1 HA Hok) as [_ S2].
  pose proof (pinv2_reads cn _ _ Hcn ks r1n HP) as HP2.
  set (rbn := snd (run_script (map OpRead ks) r1n)) in *.
  pose proof (pinv2_step cn _ _ Hcn kk rbn Hkk HP2) as HP3.
  assert (S3: simD rc (snd (reader_read kk rbn))).
  { destruct (reader_read_simR kk rb rbn S2) as [[_ X]|[_ X]]; rewrite HB in X; cbn [snd] in X;
      [exact X|exact (simR_D _ _ X)]. }
  set (rcn := snd (reader_read kk rbn)) in *.
  destruct (pinv2_discard cn _ _ rcn Hcn HP3) as (r2n & lg & HDn & HBn2 & Hrestn & Hcmn).
  destruct (simD_fields _ _ S3) as (Hsrc & _).
  destruct (discard_simD (S (length (flat (r_src rcn)))) rc rcn S3) as [E4 S4]. rewrite HDn in E4, S4. cbn [fst snd] in E4, S4.
  cbn [run_script]. rewrite Hsrc.
  destruct (discard (S (length (flat (r_src rcn)))) rc) as [eD2 r2] eqn:HD. cbn [fst snd] in E4, S4. subst eD2.
  exists r2. split; [reflexivity|].
  pose proof (discard_at_rest _ _ _ HD) as Hrest2.
  pose proof (bnd_transfer c lg _ r2 r2n Hchk HBn2 S4 Hrest2) as HB2.
  pose proof (bnd_as_new c lg _ r2 Hc HB2 Hrest2) as R.
  destruct S4 as (_ & _ & _ & _ & _ & S46 & _).
  rewrite S46, Hcmn in R. change (c_ext cn) with (c_ext c) in R. rewrite Hflag, Haf in R. exact R.
Qed.
