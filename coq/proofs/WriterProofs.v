Require Import Bytes Stream Check Frame Cipher Extracted Writer BytesProofs StreamProofs FrameProofs.
From Coq Require Import ZifyBool ZifyN ZifyNat.
Open Scope N_scope.
Ltac Zify.zify_post_hook ::= Z.div_mod_to_equations.

(* the arithmetic core of the header-space reservation: whatever fits the
   buffer behind the reserved bytes has a header that fits the reserved bytes,
   across the 125/126 and 65535/65536 thresholds, masked or not *)
Lemma reserve_fits state rawlen n :
  n <= rawlen - reserve state rawlen -> w_header_size state n <= reserve state rawlen.
Proof.
  unfold reserve, w_header_size, mask_len. intros H.
  destruct (client_side state);
  destruct (rawlen <=? 125 + _ + 2) eqn:E1; try destruct (rawlen <=? 65535 + _ + 4) eqn:E2;
  destruct (n <? 126) eqn:E3; try destruct (n <=? 65535) eqn:E4; lia.
Qed.


(* Reset makes the writer literally the freshly constructed one over a buffer of
   the current size (same destination, state, opcode, mask oracle) *)
Lemma reset_is_fresh d state op w :
  reset_writer d state op w = new_writer_buffer d state op (w_rawlen w) (w_masks w).
Proof. reflexivity. Qed.

(* hence for ALL histories before and ALL op sequences after, a reset writer
   produces the observations and destination writes of a fresh one *)
Lemma reset_then_ops d state op w w' ops :
  reset_writer d state op w = inr w' ->
  exists f, new_writer_buffer d state op (w_rawlen w) (w_masks w) = inr f /\ run_wops ops w' = run_wops ops f.
Proof. intros H. rewrite reset_is_fresh in H. exists w'. split; [exact H|reflexivity]. Qed.

(* ResetOp: drops unflushed fragments, keeps extensions and the flush mode *)
Lemma reset_op_spec op w :
  let w' := reset_op op w in
  w_buf w' = [] /\ w_dirty w' = false /\ w_fseq w' = 0 /\ w_op w' = op /\
  w_exts w' = w_exts w /\ w_noflush w' = w_noflush w /\ w_rawlen w' = w_rawlen w /\ w_buflen w' = w_buflen w.
Proof. cbn. repeat split; reflexivity. Qed.

(* a final flush with nothing written emits nothing and changes nothing *)
Lemma flush_nothing w : w_dirty w = false -> w_buf w = [] -> flush w = (inr (w_err w), w).
Proof. intros Hd Hb. unfold flush, w_n. rewrite Hd, Hb. reflexivity. Qed.
