(* WriterHistProofs.v — C06 (C): conservation and message structure over whole
   histories: the history monitor c06_monitor holds of every run of the Writer
   model with a destination that never fails. *)
Require Import Bytes Stream Check Frame Cipher Extracted Writer
  BytesProofs StreamProofs FrameProofs CipherProofs CheckProofs WriterProofs WriterInv WriterFrameProofs.
From Coq Require Import ZifyBool ZifyN ZifyNat.
Open Scope N_scope.

(* ------------------------------------------------------------------ a destination that never fails *)
Definition push (p : list byte) (d : dest) : dest := mkDest (p :: d_calls d) None.

Lemma dest_write_ok p d : d_fail_at d = None -> dest_write p d = (true, push p d).
Proof. intros H. unfold dest_write, push. rewrite H. reflexivity. Qed.

Lemma log_bytes_push p d : d_fail_at d = None -> log_bytes (push p d) = log_bytes d ++ p.
Proof.
  intros H. pose proof (log_bytes_write p d) as L. rewrite dest_write_ok in L by assumption. exact L.
Qed.

(* ------------------------------------------------------------------ the running state *)
Definition exts_comp (exts : list bool) (comp : bool) : Prop := (exts = [] /\ comp = false) \/ exts = [comp].

Section Hist.
Variables (client : bool) (op : N) (comp : bool).

Record Cst (w : writer) : Prop := {
  c_inv : writer_inv w; c_wf : wf_writer w; c_err : w_err w = None; c_dest : d_fail_at (w_dest w) = None;
  c_client : client_side (w_state w) = client; c_op : w_op w = op; c_exts : exts_comp (w_exts w) comp }.

(* a frame of the message under construction: [first] = it opens the message *)
Definition gframe (first fin : bool) (f : pframe) : Prop :=
  wf_pframe f /\ h_fin (pf_header f) = fin /\ h_op (pf_header f) = (if first then op else 0) /\
  h_masked (pf_header f) = client /\
  h_rsv (pf_header f) = (if first && comp && negb (spec_control op) && negb (op =? 0) then 4 else 0).

(* non-final fragments number k, k+1, ... of a message *)
Fixpoint gchain (k : N) (fs : list pframe) : Prop :=
  match fs with
  | [] => True
  | f :: r => gframe (k =? 0) false f /\ gchain (k + 1) r
  end.

Lemma gchain_app k a b : gchain k a -> gchain (k + len a) b -> gchain k (a ++ b).
Proof.
  revert k. induction a as [|f a IH]; intros k Ha Hb; cbn [app].
  - rewrite len_nil, N.add_0_r in Hb. assumption.
  - destruct Ha as [Hf Ha]. split; [assumption|]. apply IH; [assumption|].
    rewrite len_cons in Hb. replace (k + 1 + len a) with (k + (1 + len a)) by lia. assumption.
Qed.

Lemma op_is_data_spec c : c < 16 -> op_is_data c = negb (spec_control c).
Proof. intros H. rewrite <- control_spec by assumption. unfold op_is_data, op_is_control. destruct (_ =? 0); reflexivity. Qed.

Lemma set_bits_C w h : Cst w -> h_rsv h = 0 ->
  set_bits (w_exts w) h = Some (mkHeader (h_fin h) (rsv_for (w_exts w) (h_op h)) (h_op h) (h_masked h) (h_mask h) (h_len h)).
Proof.
  intros Hc H0. apply set_bits_single; [assumption|]. destruct (c_exts w Hc) as [[-> _]| ->]; [left; reflexivity|right; eexists; reflexivity].
Qed.

Definition w_rsv (w : writer) : N := rsv_for (w_exts w) (w_opcode w).

Lemma out_frame_g w fin data : Cst w -> wf_bytes data -> len data <= max_int ->
  gframe (w_fseq w =? 0) fin (out_frame w fin (w_rsv w) data).
Proof.
  intros Hc Hd Hl. destruct (c_wf w Hc) as (Ho & Hb & Hm).
  assert (Hr: w_rsv w = (if (w_fseq w =? 0) && comp && negb (spec_control op) && negb (op =? 0) then 4 else 0)).
  { unfold w_rsv, w_opcode. rewrite (c_op w Hc). rewrite (c_op w Hc) in Ho.
    destruct (c_exts w Hc) as [[-> ->]| ->]; cbn [rsv_for].
    - rewrite andb_false_r. reflexivity.
    - destruct (w_fseq w =? 0) eqn:E.
      + replace (0 <? w_fseq w) with false by lia. rewrite op_is_data_spec by assumption.
        destruct comp; reflexivity.
      + replace (0 <? w_fseq w) with true by lia. cbn. rewrite andb_false_r. reflexivity. }
  split; [apply out_frame_wf; try assumption; rewrite Hr; destruct (_ && _); lia|].
  unfold out_frame. cbn [pf_header h_fin h_op h_masked h_rsv].
  split; [reflexivity|]. split.
  - unfold w_opcode. rewrite (c_op w Hc). destruct (w_fseq w =? 0) eqn:E.
    + replace (0 <? w_fseq w) with false by lia. reflexivity.
    + replace (0 <? w_fseq w) with true by lia. reflexivity.
  - split; [apply (c_client w Hc)|assumption].
Qed.

(* ------------------------------------------------------------------ the primitives, exactly *)
Definition sent1 (w : writer) (f : pframe) : writer :=
  with_dest w (push (frame_bytes f) (w_dest w)) (w_masks_next w).

Lemma flush_fragment_raw_C fin w : Cst w ->
  let f := out_frame w fin (w_rsv w) (w_buf w) in
  flush_fragment_raw fin w = (inr None, sent1 w f) /\ gframe (w_fseq w =? 0) fin f.
Proof.
  intros Hc f.
  pose proof (set_bits_C w (mkHeader fin 0 (w_opcode w) false zero_mask (Z.of_N (w_n w))) Hc eq_refl) as Es.
  cbn [h_fin h_op h_masked h_mask h_len] in Es.
  destruct (flush_fragment_raw_frame fin w _ (c_inv w Hc) (c_wf w Hc) Es) as [H Hwf].
  cbn [h_rsv] in H, Hwf. fold (w_rsv w) in H, Hwf. fold f in H, Hwf.
  rewrite dest_write_ok in H by apply (c_dest w Hc). cbn [fst snd] in H.
  split; [exact H|]. destruct (c_wf w Hc) as (_ & Hb & _). pose proof (c_inv w Hc) as [H1 H2 H3 H4 H5].
  apply out_frame_g; try assumption. lia.
Qed.

Lemma flush_fragment_C w : Cst w -> w_buf w <> [] ->
  let f := out_frame w false (w_rsv w) (w_buf w) in
  flush_fragment w = (inr None, with_flush_result (sent1 w f) None false).
Proof.
  intros Hc Hb f. unfold flush_fragment, w_n. rewrite (c_err w Hc).
  replace (len (w_buf w) =? 0) with false by (destruct (w_buf w); [congruence|rewrite len_cons; lia]).
  cbn [orb]. destruct (flush_fragment_raw_C false w Hc) as [-> _]. reflexivity.
Qed.

Lemma flush_C w : Cst w -> (w_dirty w = true \/ w_buf w <> []) ->
  let f := out_frame w true (w_rsv w) (w_buf w) in
  flush w = (inr None, with_flush_result (sent1 w f) None true).
Proof.
  intros Hc Hb f. unfold flush, w_n. rewrite (c_err w Hc).
  replace (negb (w_dirty w) && (len (w_buf w) =? 0)) with false.
  2:{ destruct Hb as [-> |Hb]; [reflexivity|]. destruct (w_buf w); [congruence|]. rewrite len_cons.
      replace (1 + len l =? 0) with false by lia. symmetry. apply andb_false_r. }
  cbn [orb]. destruct (flush_fragment_raw_C true w Hc) as [-> _]. reflexivity.
Qed.

Definition sent2 (w : writer) (f : pframe) : writer :=
  wt_result w (push (pf_payload f) (push (rfc_header (pf_header f)) (w_dest w))) true.

Lemma write_through_C p w : Cst w -> w_buf w = [] -> wf_bytes p -> len p <= max_int ->
  let f := out_frame w false (w_rsv w) p in
  write_through p w = ((len p, None), sent2 w f) /\ gframe (w_fseq w =? 0) false f.
Proof.
  intros Hc Hb Hp Hl f.
  pose proof (set_bits_C w (mkHeader false 0 (w_opcode w) false zero_mask (Z.of_N (len p))) Hc eq_refl) as Es.
  cbn [h_fin h_op h_masked h_mask h_len] in Es.
  pose proof (write_through_frame p w _ (c_wf w Hc) Hp Hl (c_err w Hc) Hb Es) as H.
  cbn [h_rsv] in H. fold (w_rsv w) in H. fold f in H.
  rewrite dest_write_ok in H by apply (c_dest w Hc).
  rewrite dest_write_ok in H by reflexivity.
  destruct H as [H Hwf]. split; [exact H|]. apply out_frame_g; assumption.
Qed.

(* ------------------------------------------------------------------ emission steps *)
(* from w to w' the non-final fragments [fs] were sent and the bytes [a] accepted *)
Record Step (w w' : writer) (fs : list pframe) (a : list byte) : Prop := {
  s_cst : Cst w';
  s_log : log_bytes (w_dest w') = log_bytes (w_dest w) ++ wire fs;
  s_same : fs = [] -> w_dest w' = w_dest w;
  s_chain : gchain (w_fseq w) fs;
  s_fseq : w_fseq w' = w_fseq w + len fs;
  s_data : concat (map pf_unmasked fs) ++ w_buf w' = w_buf w ++ a;
  s_noflush : w_noflush w' = w_noflush w;
  s_size : w_noflush w = false -> w_buflen w' = w_buflen w;
  s_dirty : w_dirty w = true -> w_dirty w' = true }.

Lemma Step_refl w : Cst w -> Step w w [] [].
Proof.
  intros Hc. constructor.
  - assumption.
  - cbn. rewrite app_nil_r. reflexivity.
  - reflexivity.
  - exact I.
  - rewrite len_nil. lia.
  - cbn. rewrite app_nil_r. reflexivity.
  - reflexivity.
  - reflexivity.
  - auto.
Qed.

Lemma Step_trans w w1 w2 fs1 fs2 a1 a2 : Step w w1 fs1 a1 -> Step w1 w2 fs2 a2 ->
  Step w w2 (fs1 ++ fs2) (a1 ++ a2).
Proof.
  intros [A1 A2 A3 A4 A5 A6 A7 A8 A9] [B1 B2 B3 B4 B5 B6 B7 B8 B9]. constructor.
  - assumption.
  - rewrite B2, A2, wire_app, app_assoc. reflexivity.
  - intros H. apply app_eq_nil in H. destruct H as [H1 H2]. rewrite (B3 H2), (A3 H1). reflexivity.
  - apply gchain_app; [assumption|]. rewrite <- A5. assumption.
  - rewrite B5, A5, len_app. lia.
  - rewrite map_app, concat_app, <- app_assoc, B6, app_assoc, A6, <- app_assoc. reflexivity.
  - congruence.
  - intros H. rewrite B8, A8; [reflexivity|assumption|congruence].
  - auto.
Qed.

Lemma Cst_set_buf w b d : Cst w -> wf_bytes b -> len b <= w_buflen w -> Cst (set_buf w b d).
Proof.
  intros [H1 (Ho & Hb & Hm) H3 H4 H5 H6 H7] Hwb Hl. constructor; wsimpl; try assumption.
  - apply set_buf_inv; assumption.
  - split; [assumption|]. split; assumption.
Qed.

(* buffering without sending *)
Lemma Step_buffer w a d : Cst w -> wf_bytes a -> len (w_buf w) + len a <= w_buflen w ->
  (w_dirty w = true -> d = true) ->
  Step w (set_buf w (w_buf w ++ a) d) [] a.
Proof.
  intros Hc Ha Hl Hd. constructor; wsimpl.
  - apply Cst_set_buf; [assumption| |rewrite len_app; assumption].
    apply wf_bytes_app. split; [apply (c_wf w Hc)|assumption].
  - cbn. rewrite app_nil_r. reflexivity.
  - reflexivity.
  - exact I.
  - rewrite len_nil. lia.
  - reflexivity.
  - reflexivity.
  - reflexivity.
  - assumption.
Qed.

Lemma Cst_flushed w f fin : Cst w -> Cst (with_flush_result (sent1 w f) None fin).
Proof.
  intros [H1 (Ho & Hb & Hm) H3 H4 H5 H6 H7]. unfold sent1, with_dest. constructor; wsimpl; try assumption; try reflexivity.
  - apply with_flush_result_inv; [apply with_dest_inv; assumption|discriminate].
  - split; [assumption|]. split; [constructor|]. unfold masks_ok. wsimpl. apply w_masks_next_ok. assumption.
Qed.

(* FlushFragment of a non-empty buffer: one non-final fragment *)
Lemma Step_flush_fragment w : Cst w -> w_buf w <> [] ->
  let f := out_frame w false (w_rsv w) (w_buf w) in
  flush_fragment w = (inr None, with_flush_result (sent1 w f) None false) /\
  Step w (with_flush_result (sent1 w f) None false) [f] [].
Proof.
  intros Hc Hb f. split; [apply flush_fragment_C; assumption|].
  destruct (flush_fragment_raw_C false w Hc) as [_ Hg]. fold f in Hg.
  constructor.
  - apply (Cst_flushed w f false Hc).
  - unfold sent1, with_dest; wsimpl. rewrite log_bytes_push by apply (c_dest w Hc).
    unfold wire. cbn [map concat]. rewrite app_nil_r. reflexivity.
  - discriminate.
  - split; [assumption|exact I].
  - reflexivity.
  - unfold sent1, with_dest; wsimpl. cbn [map concat]. rewrite !app_nil_r. apply out_frame_unmasked.
  - reflexivity.
  - reflexivity.
  - auto.
Qed.

Lemma Cst_sent2 w f : Cst w -> Cst (sent2 w f).
Proof.
  intros [H1 (Ho & Hb & Hm) H3 H4 H5 H6 H7]. unfold sent2, wt_result. constructor; wsimpl; try assumption; try reflexivity.
  - destruct H1 as [A1 A2 A3 A4 A5]. constructor; wsimpl; try assumption. discriminate.
  - split; [assumption|]. split; [assumption|]. unfold masks_ok. wsimpl. apply w_masks_next_ok. assumption.
Qed.

(* WriteThrough on an empty buffer: one non-final fragment carrying p *)
Lemma Step_write_through p w : Cst w -> w_buf w = [] -> wf_bytes p -> len p <= max_int ->
  let f := out_frame w false (w_rsv w) p in
  write_through p w = ((len p, None), sent2 w f) /\ Step w (sent2 w f) [f] p /\ w_dirty (sent2 w f) = true.
Proof.
  intros Hc Hb Hp Hl f. destruct (write_through_C p w Hc Hb Hp Hl) as [H Hg]. fold f in H, Hg.
  split; [assumption|]. split; [|reflexivity].
  constructor.
  - apply (Cst_sent2 w f Hc).
  - unfold sent2, wt_result; wsimpl. rewrite !log_bytes_push by (try apply (c_dest w Hc); reflexivity).
    unfold wire, frame_bytes. cbn [map concat]. rewrite app_nil_r, <- app_assoc. reflexivity.
  - discriminate.
  - split; [assumption|exact I].
  - reflexivity.
  - unfold sent2, wt_result; wsimpl. cbn [map concat]. rewrite Hb, !app_nil_r. cbn [app]. apply out_frame_unmasked.
  - reflexivity.
  - reflexivity.
  - reflexivity.
Qed.

Lemma Cst_resized w size : Cst w -> writer_inv (resized w size) -> Cst (resized w size).
Proof. intros [H1 H2 H3 H4 H5 H6 H7] Hi. unfold resized in *. constructor; wsimpl; assumption. Qed.

(* Grow: nothing sent, nothing accepted; afterwards n more bytes fit *)
Lemma Step_grow n w : Cst w -> 2 * (14 + len (w_buf w) + n) <= max_int ->
  exists w', grow n w = (inr None, w') /\ Cst w' /\ w_dest w' = w_dest w /\ w_fseq w' = w_fseq w /\
    w_buf w' = w_buf w /\ w_noflush w' = w_noflush w /\ w_dirty w' = w_dirty w /\
    len (w_buf w) + n <= w_buflen w' /\ (len (w_buf w) + n <= w_buflen w -> w_buflen w' = w_buflen w).
Proof.
  intros Hc Hb. destruct (grow_spec n w (c_inv w Hc) Hb) as (w' & Hg & Hi & Hfit & Hcase).
  exists w'. split; [assumption|]. destruct Hcase as [->|(Hlt & s & _ & ->)].
  - repeat (split; [first [assumption|reflexivity]|]). auto.
  - split; [apply Cst_resized; assumption|]. unfold resized in *. wsimpl.
    repeat (split; [first [assumption|reflexivity]|]). lia.
Qed.

(* ------------------------------------------------------------------ Write *)
Lemma wl_cond_false p w : Cst w -> wl_cond p w = false -> len (w_buf w) + len p <= w_buflen w.
Proof.
  intros Hc H. unfold wl_cond in H. rewrite (c_err w Hc), andb_true_r in H.
  pose proof (c_inv w Hc) as [H1 H2 H3 H4 H5]. unfold w_available, w_n in H. lia.
Qed.

Lemma wl_cond_true p w : Cst w -> wl_cond p w = true -> w_buflen w < len (w_buf w) + len p.
Proof.
  intros Hc H. unfold wl_cond in H. rewrite (c_err w Hc), andb_true_r in H.
  unfold w_available, w_n in H. lia.
Qed.

Lemma wl_done_C fuel p acc w : Cst w -> wf_bytes p -> wl_cond p w = false ->
  write_loop fuel p acc w = (inr (acc + len p, None), set_buf w (w_buf w ++ p) (w_dirty w)) /\
  Step w (set_buf w (w_buf w ++ p) (w_dirty w)) [] p.
Proof.
  intros Hc Hp Hcond. split.
  - pose proof Hcond as Hcond'. unfold wl_cond in Hcond.
    destruct fuel; cbn [write_loop]; rewrite Hcond, (c_err w Hc); reflexivity.
  - apply Step_buffer; [assumption|assumption|apply wl_cond_false; assumption|auto].
Qed.

(* from an empty buffer (or when p fits): at most one WriteThrough, then buffering *)
Lemma wl_tail f p acc w : Cst w -> wf_bytes p -> len p <= max_int -> w_noflush w = false ->
  (w_buf w = [] \/ wl_cond p w = false) ->
  exists w' fs, write_loop (S (S f)) p acc w = (inr (acc + len p, None), w') /\ Step w w' fs p /\
    (wl_cond p w = false -> fs = []) /\ (w_dirty w = true \/ fs <> [] -> w_dirty w' = true).
Proof.
  intros Hc Hp Hl Hnf Hcase. destruct (wl_cond p w) eqn:Hcond.
  - destruct Hcase as [Hb|Hx]; [|discriminate].
    rewrite write_loop_S, Hcond, Hnf. unfold w_n. rewrite Hb. cbn [len length N.of_nat N.eqb].
    destruct (Step_write_through p w Hc Hb Hp Hl) as (Hw & Hs & Hd). rewrite Hw.
    set (w1 := sent2 w (out_frame w false (w_rsv w) p)) in *.
    assert (Hc1: Cst w1) by apply Hs.
    assert (Hb1: w_buf w1 = []) by (subst w1; unfold sent2, wt_result; wsimpl; assumption).
    rewrite drop_all by lia.
    assert (Hcond1: wl_cond [] w1 = false) by (unfold wl_cond; rewrite len_nil; replace (w_available w1 <? 0) with false by lia; reflexivity).
    destruct (wl_done_C (S f) [] (acc + len p) w1 Hc1 ltac:(constructor) Hcond1) as [Hr Hs1].
    rewrite Hr. eexists _, _. split; [rewrite len_nil, N.add_0_r; reflexivity|].
    split; [|split; [discriminate|]].
    + pose proof (Step_trans _ _ _ _ _ _ _ Hs Hs1) as Ht. rewrite (app_nil_r p) in Ht. exact Ht.
    + intros _. wsimpl. exact Hd.
  - destruct (wl_done_C (S (S f)) p acc w Hc Hp Hcond) as [Hr Hs]. rewrite Hr.
    eexists _, _. split; [reflexivity|]. split; [exact Hs|]. split; [reflexivity|].
    intros [Hd|Hx]; [wsimpl; assumption|congruence].
Qed.

Lemma Step_dirty w : Cst w -> Step w (set_buf w (w_buf w) true) [] [].
Proof.
  intros Hc. pose proof (Step_buffer w [] true Hc ltac:(constructor)) as H.
  rewrite app_nil_r in H. apply H; [|reflexivity]. rewrite len_nil. pose proof (c_inv w Hc) as [H1 H2 H3 H4 H5]. lia.
Qed.

Lemma Step_grow_nf n w : Cst w -> 2 * (14 + len (w_buf w) + n) <= max_int -> w_noflush w = true ->
  exists w', grow n w = (inr None, w') /\ Step w w' [] [] /\ len (w_buf w) + n <= w_buflen w' /\
    w_dirty w' = w_dirty w /\ w_buf w' = w_buf w.
Proof.
  intros Hc Hb Hnf. destruct (Step_grow n w Hc Hb) as (w' & Hg & Hc' & Hd & Hf & Hbuf & Hn & Hdi & Hfit & _).
  exists w'. split; [assumption|]. split; [|auto]. constructor.
  - assumption.
  - rewrite Hd. cbn. rewrite app_nil_r. reflexivity.
  - intros _. assumption.
  - exact I.
  - rewrite Hf, len_nil. lia.
  - cbn. rewrite Hbuf, app_nil_r. reflexivity.
  - assumption.
  - rewrite Hnf. discriminate.
  - rewrite Hdi. auto.
Qed.

Lemma write_C p w : Cst w -> wf_bytes p -> 2 * (14 + len (w_buf w) + len p) <= max_int ->
  exists w' fs, write p w = (inr (len p, None), w') /\ Step w w' fs p /\ w_dirty w' = true /\
    (fs = [] \/ (w_noflush w = false /\ w_buflen w < len (w_buf w) + len p)).
Proof.
  intros Hc Hp Hb. unfold write.
  pose proof (Step_dirty w Hc) as Hs0. set (w0 := set_buf w (w_buf w) true) in *.
  assert (Hc0: Cst w0) by apply Hs0.
  assert (Hd0: w_dirty w0 = true) by reflexivity.
  assert (Hlp: len p <= max_int) by lia.
  destruct (wl_cond p w0) eqn:Hcond.
  2:{ destruct (wl_done_C 8 p 0 w0 Hc0 Hp Hcond) as [Hr Hs]. rewrite Hr.
      eexists _, _. split; [reflexivity|]. split; [exact (Step_trans _ _ _ _ _ _ _ Hs0 Hs)|]. split; [reflexivity|left; reflexivity]. }
  pose proof (wl_cond_true p w0 Hc0 Hcond) as Hover.
  assert (Hover': w_buflen w < len (w_buf w) + len p) by exact Hover.
  destruct (w_noflush w0) eqn:Hnf.
  - (* flushing disabled: grow, then buffer *)
    rewrite write_loop_S, Hcond, Hnf.
    destruct (Step_grow_nf (len p) w0 Hc0 Hb Hnf) as (w1 & Hg & Hs1 & Hfit & Hdi & Hbuf). rewrite Hg.
    assert (Hc1: Cst w1) by apply Hs1.
    assert (Hcond1: wl_cond p w1 = false).
    { unfold wl_cond, w_available, w_n. rewrite Hbuf.
      replace (w_buflen w1 - len (w_buf w0) <? len p) with false by lia. reflexivity. }
    destruct (wl_done_C 7 p 0 w1 Hc1 Hp Hcond1) as [Hr Hs2]. rewrite Hr.
    eexists _, _. split; [reflexivity|].
    split; [exact (Step_trans _ _ _ _ _ _ _ Hs0 (Step_trans _ _ _ _ _ _ _ Hs1 Hs2))|].
    split; [wsimpl; rewrite Hdi; reflexivity|left; reflexivity].
  - destruct (w_buf w0) as [|b0 r0] eqn:Hbuf0.
    + (* empty buffer, p longer than the buffer: WriteThrough *)
      destruct (wl_tail 6 p 0 w0 Hc0 Hp Hlp Hnf (or_introl Hbuf0)) as (w' & fs & Hr & Hs & _ & Hd).
      rewrite Hr. exists w', fs. split; [reflexivity|]. split; [exact (Step_trans _ _ _ _ _ _ _ Hs0 Hs)|].
      split; [apply Hd; left; reflexivity|]. right. split; [assumption|exact Hover'].
    + (* fill the buffer, flush it as a fragment, go on with the rest *)
      rewrite write_loop_S, Hcond, Hnf. unfold w_n at 1. rewrite Hbuf0, len_cons.
      replace (1 + len r0 =? 0) with false by lia. cbv zeta. rewrite <- Hbuf0. rewrite <- Hbuf0 in Hover.
      pose proof (c_inv w0 Hc0) as [H1 H2 H3 H4 H5].
      assert (Hav: w_available w0 < len p) by (unfold w_available, w_n; lia).
      replace (N.min (w_available w0) (len p)) with (w_available w0) by lia.
      set (nn := w_available w0) in *.
      assert (Hnn: nn = w_buflen w0 - len (w_buf w0)) by reflexivity.
      pose proof (Step_buffer w0 (take nn p) (w_dirty w0) Hc0 (wf_bytes_take _ _ Hp)) as Hs1.
      rewrite len_take in Hs1. specialize (Hs1 ltac:(lia) ltac:(auto)).
      set (w1 := set_buf w0 (w_buf w0 ++ take nn p) (w_dirty w0)) in *.
      assert (Hc1: Cst w1) by apply Hs1.
      assert (Hne1: w_buf w1 <> []) by (subst w1; wsimpl; rewrite Hbuf0; discriminate).
      destruct (Step_flush_fragment w1 Hc1 Hne1) as [Hff Hs2]. rewrite Hff.
      set (w2 := with_flush_result _ None false) in *.
      assert (Hc2: Cst w2) by apply Hs2.
      assert (Hnf2: w_noflush w2 = false) by (rewrite (s_noflush _ _ _ _ Hs2), (s_noflush _ _ _ _ Hs1); assumption).
      assert (Hb2: w_buf w2 = []) by reflexivity.
      destruct (wl_tail 5 (drop nn p) (0 + nn) w2 Hc2 (wf_bytes_drop _ _ Hp) ltac:(rewrite len_drop; lia) Hnf2 (or_introl Hb2))
        as (w' & fs & Hr & Hs3 & _ & Hd).
      rewrite Hr. exists w', ([] ++ [out_frame w1 false (w_rsv w1) (w_buf w1)] ++ fs).
      split; [replace (0 + nn + len (drop nn p)) with (len p) by (rewrite len_drop; lia); reflexivity|].
      split.
      * pose proof (Step_trans _ _ _ _ _ _ _ Hs0 (Step_trans _ _ _ _ _ _ _ Hs1 (Step_trans _ _ _ _ _ _ _ Hs2 Hs3))) as Ht.
        cbn [app] in Ht. rewrite take_drop in Ht. exact Ht.
      * split; [apply Hd; left; reflexivity|]. right. split; [assumption|exact Hover'].
Qed.

(* ------------------------------------------------------------------ ReadFrom *)
(* what ReadFrom reports when the source is exhausted: io.EOF is swallowed, any other
   error of the source is handed to the caller *)
Definition rf_err (s : src) : option werror := match tl s with TEOF => None | TFail => Some WDest end.

(* any source, ending in EOF or failing: all its bytes are accepted, what leaves are
   non-final fragments, and the message is dirty as soon as one byte was accepted *)
Lemma read_from_loop_G fuel : forall s total w, Cst w -> wf_src s -> wf_bytes (flat s) ->
  2 * (14 + 2 * (len (w_buf w) + len (flat s))) <= max_int ->
  (rf_need s w <= fuel)%nat ->
  exists w' s' fs, read_from_loop fuel s total w = (inr (total + len (flat s), rf_err s), w', s') /\
    Step w w' fs (flat s) /\ (tl s = TEOF \/ 0 < len (flat s) -> w_dirty w' = true).
Proof.
  induction fuel as [|f IH]; intros s total w Hc Hs Hwf Hb Hf.
  { unfold rf_need in Hf. destruct (w_available w =? 0); lia. }
  cbn [read_from_loop]. pose proof (c_inv w Hc) as Hi. pose proof Hi as [H1 H2 H3 H4 H5].
  pose proof (inv_buflen_pos w Hi) as Hpos.
  destruct (w_available w =? 0) eqn:Ea.
  - assert (Hfull: len (w_buf w) = w_buflen w) by (unfold w_available, w_n in Ea; lia).
    destruct (w_noflush w) eqn:En.
    + destruct (Step_grow_nf (w_n w) w Hc ltac:(unfold w_n; lia) En) as (w1 & Hg & Hs1 & Hfit & Hdi & Hbuf).
      rewrite Hg. unfold w_n in Hfit.
      assert (Ha1: (w_available w1 =? 0) = false) by (unfold w_available, w_n; rewrite Hbuf; lia).
      destruct (IH s total w1 (s_cst _ _ _ _ Hs1) Hs Hwf) as (w' & s' & fs & Hr & Hs2 & Hd).
      * rewrite Hbuf. exact Hb.
      * unfold rf_need in *. rewrite Ha1. rewrite Ea in Hf. lia.
      * exists w', s', ([] ++ fs). split; [exact Hr|]. split; [|exact Hd].
        exact (Step_trans _ _ _ _ _ _ _ Hs1 Hs2).
    + assert (Hne: w_buf w <> []) by (intro H0; rewrite H0, len_nil in Hfull; lia).
      destruct (Step_flush_fragment w Hc Hne) as [Hff Hs1]. rewrite Hff.
      set (w1 := with_flush_result _ None false) in *.
      assert (Hb1: w_buf w1 = []) by reflexivity.
      assert (Hbl1: w_buflen w1 = w_buflen w) by reflexivity.
      assert (Ha1: (w_available w1 =? 0) = false) by (unfold w_available, w_n; rewrite Hb1, len_nil; lia).
      destruct (IH s total w1 (s_cst _ _ _ _ Hs1) Hs Hwf) as (w' & s' & fs & Hr & Hs2 & Hd).
      * rewrite Hb1, len_nil. lia.
      * unfold rf_need in *. rewrite Ha1. rewrite Ea in Hf. lia.
      * eexists w', s', _. split; [exact Hr|]. split; [|exact Hd].
        exact (Step_trans _ _ _ _ _ _ _ Hs1 Hs2).
  - assert (Hk: 0 < w_available w) by lia.
    pose proof (read1_props_u (w_available w) s Hs Hk) as Hr.
    pose proof (read1_len (w_available w) s) as Hlen.
    pose proof (read1_wf (w_available w) s Hwf) as [Hwb Hwf'].
    destruct (read1 (w_available w) s) as [[b e] s'] eqn:Er. cbn [fst snd] in Hlen, Hwb, Hwf'.
    assert (Hlb: len b <= w_available w) by lia. clear Hlen.
    assert (Hlb': len (w_buf w) + len b <= w_buflen w) by (unfold w_available, w_n in Hlb; lia).
    assert (Hdd: w_dirty w = true -> w_dirty w || (0 <? len b) = true) by (intros ->; reflexivity).
    pose proof (Step_buffer w b (w_dirty w || (0 <? len b)) Hc Hwb Hlb' Hdd) as Hs1.
    set (w1 := set_buf w (w_buf w ++ b) (w_dirty w || (0 <? len b))) in *.
    destruct e as [e|].
    + destruct Hr as (-> & Hfl & ->). unfold rf_err. destruct (tl s) eqn:Htl.
      * pose proof (Step_dirty w1 (s_cst _ _ _ _ Hs1)) as Hs2.
        eexists _, _, _. split; [rewrite Hfl; reflexivity|]. split; [|reflexivity].
        rewrite Hfl. exact (Step_trans _ _ _ _ _ _ _ Hs1 Hs2).
      * eexists _, _, _. split; [rewrite Hfl; reflexivity|]. split; [rewrite Hfl; exact Hs1|].
        intros [Hx|Hx]; [discriminate|]. rewrite Hfl in Hx. cbn in Hx. lia.
    + destruct Hr as (Hbne & Hfl & Hs' & Htl').
      assert (Hlb0: 0 < len b) by (destruct b; [congruence|rewrite len_cons; lia]).
      assert (Hlf: len (flat s) = len b + len (flat s')) by (rewrite Hfl, len_app; reflexivity).
      assert (Hd1: w_dirty w1 = true).
      { subst w1. wsimpl. replace (0 <? len b) with true by lia. apply orb_true_r. }
      destruct (IH s' (total + len b) w1 (s_cst _ _ _ _ Hs1) Hs' Hwf') as (w' & s'' & fs & Hr & Hs2 & Hd).
      * subst w1. wsimpl. rewrite len_app. lia.
      * unfold rf_need in *. rewrite Ea in Hf.
        assert (length (flat s) = length b + length (flat s'))%nat by (rewrite Hfl, app_length; reflexivity).
        unfold len in Hlb0. destruct (w_available w1 =? 0); lia.
      * exists w', s'', ([] ++ fs). split.
        { rewrite Hr. unfold rf_err. rewrite Htl'.
          replace (total + len b + len (flat s')) with (total + len (flat s)) by lia. reflexivity. }
        split; [|intros _; exact (s_dirty _ _ _ _ Hs2 Hd1)]. rewrite Hfl. exact (Step_trans _ _ _ _ _ _ _ Hs1 Hs2).
Qed.

Lemma read_from_G s w : Cst w -> wf_src s -> wf_bytes (flat s) ->
  2 * (14 + 2 * (len (w_buf w) + len (flat s))) <= max_int ->
  exists w' s' fs, read_from s w = (inr (len (flat s), rf_err s), w', s') /\
    Step w w' fs (flat s) /\ (tl s = TEOF \/ 0 < len (flat s) -> w_dirty w' = true).
Proof.
  intros Hc Hs Hwf Hb. unfold read_from.
  destruct (read_from_loop_G (S (S (2 * length (flat s) + 4))) s 0 w Hc Hs Hwf Hb) as (w' & s' & fs & Hr & H).
  - unfold rf_need. destruct (_ =? 0); lia.
  - exists w', s', fs. rewrite Hr. auto.
Qed.

Lemma read_from_loop_C fuel : forall s total w, Cst w -> wf_src s -> wf_bytes (flat s) -> tl s = TEOF ->
  2 * (14 + 2 * (len (w_buf w) + len (flat s))) <= max_int ->
  (rf_need s w <= fuel)%nat ->
  exists w' s' fs, read_from_loop fuel s total w = (inr (total + len (flat s), None), w', s') /\
    Step w w' fs (flat s) /\ w_dirty w' = true.
Proof.
  intros s total w Hc Hs Hwf Htl Hb Hf.
  destruct (read_from_loop_G fuel s total w Hc Hs Hwf Hb Hf) as (w' & s' & fs & Hr & Hst & Hd).
  exists w', s', fs. unfold rf_err in Hr. rewrite Htl in Hr. auto.
Qed.

Lemma read_from_C data sizes w : Cst w -> wf_bytes data ->
  2 * (14 + 2 * (len (w_buf w) + len data)) <= max_int ->
  exists w' s' fs, read_from (mkSrc (chunk_by sizes data) TEOF) w = (inr (len data, None), w', s') /\
    Step w w' fs data /\ w_dirty w' = true.
Proof.
  intros Hc Hd Hb. set (s := mkSrc (chunk_by sizes data) TEOF).
  assert (Hfl: flat s = data) by apply chunk_by_flat.
  destruct (read_from_loop_C (S (S (2 * length (flat s) + 4))) s 0 w Hc) as (w' & s' & fs & Hr & Hs & Hdi).
  - apply chunk_by_wf.
  - rewrite Hfl. assumption.
  - reflexivity.
  - rewrite Hfl. assumption.
  - unfold rf_need. destruct (_ =? 0); lia.
  - exists w', s', fs. unfold read_from. rewrite Hr, Hfl in *. auto.
Qed.

(* ------------------------------------------------------------------ messages *)
Definition nonfin (f : pframe) : Prop := h_fin (pf_header f) = false.

Lemma gchain_wf fs : forall k, gchain k fs -> Forall wf_pframe fs /\ Forall nonfin fs.
Proof.
  induction fs as [|f r IH]; intros k H; [split; constructor|].
  destruct H as [(Hw & Hf & _) Hr]. destruct (IH _ Hr) as [A B]. split; constructor; assumption.
Qed.

Lemma split_nonfin fs : forall r acc, Forall nonfin fs ->
  split_messages (fs ++ r) acc = split_messages r (rev_append fs acc).
Proof.
  induction fs as [|f fs IH]; intros r acc H; [reflexivity|].
  inversion H as [|? ? Hf Hfs]; subst. cbn [app split_messages rev_append]. rewrite Hf. apply IH. assumption.
Qed.

Lemma gframe_check first fin f : gframe first fin f ->
  (h_op (pf_header f) =? (if first then op else 0))
  && Bool.eqb (h_masked (pf_header f)) client
  && (h_rsv (pf_header f) =? (if first && comp && negb (spec_control op) && negb (op =? 0) then 4 else 0)) = true.
Proof.
  intros (_ & _ & -> & -> & ->). rewrite !N.eqb_refl, Bool.eqb_reflx. reflexivity.
Qed.

Lemma gchain_ok fs : forall k, gchain k fs -> msg_frames_ok client op comp (k =? 0) fs = true.
Proof.
  induction fs as [|f r IH]; intros k H; [reflexivity|].
  destruct H as [Hf Hr]. cbn [msg_frames_ok]. rewrite (gframe_check _ _ _ Hf). cbn [andb].
  specialize (IH _ Hr). replace (k + 1 =? 0) with false in IH by lia. exact IH.
Qed.

Lemma mfo_app first a b : msg_frames_ok client op comp first (a ++ b) =
  msg_frames_ok client op comp first a && msg_frames_ok client op comp (match a with [] => first | _ => false end) b.
Proof.
  revert first. induction a as [|f a IH]; intros first; [reflexivity|].
  cbn [app msg_frames_ok]. rewrite IH. rewrite <- !andb_assoc. destruct a; reflexivity.
Qed.

Lemma mfo_extend cur fs : msg_frames_ok client op comp true cur = true -> gchain (len cur) fs ->
  msg_frames_ok client op comp true (cur ++ fs) = true.
Proof.
  intros Hc Hg. rewrite mfo_app, Hc. cbn [andb]. pose proof (gchain_ok _ _ Hg) as H.
  destruct cur; [exact H|]. rewrite len_cons in H. replace (1 + len cur =? 0) with false in H by lia. exact H.
Qed.

Lemma msg_payload_app a b : msg_payload (a ++ b) = msg_payload a ++ msg_payload b.
Proof. unfold msg_payload. rewrite map_app, concat_app. reflexivity. Qed.

(* ------------------------------------------------------------------ the history invariant *)
(* [cur] = fragments of the open message already sent, [acc] = bytes accepted for it,
   [plain], [ss], [nf] = the monitor's bookkeeping *)
Record Hist (w : writer) (cur : list pframe) (acc : list byte) (plain : bool) (ss : N) (nf : bool) : Prop := {
  h_cst : Cst w;
  h_cur_ok : msg_frames_ok client op comp true cur = true;
  h_fseq : w_fseq w = len cur;
  h_acc : acc = msg_payload cur ++ w_buf w;
  h_clean : w_dirty w = false -> cur = [] /\ w_buf w = [];
  h_plain1 : plain = true -> cur = [] \/ (ss < len acc /\ nf = false);
  h_plain2 : plain = true -> w_noflush w = false -> w_buflen w = ss;
  h_nf : nf = true -> w_noflush w = true }.

Lemma Hist_step w w1 fs a cur acc plain ss nf plain1 :
  Hist w cur acc plain ss nf -> Step w w1 fs a ->
  (w_dirty w1 = true \/ (fs = [] /\ a = [] /\ w_dirty w = false)) ->
  (plain1 = true -> plain = true /\ (fs = [] \/ (w_noflush w = false /\ w_buflen w < len (w_buf w) + len a))) ->
  Hist w1 (cur ++ fs) (acc ++ a) plain1 ss nf.
Proof.
  intros [A1 A2 A3 A4 A5 A6 A7 A8] [B1 B2 B3 B4 B5 B6 B7 B8 B9] Hd Hp. constructor.
  - assumption.
  - apply mfo_extend; [assumption|]. rewrite <- A3. assumption.
  - rewrite B5, A3, len_app. reflexivity.
  - rewrite msg_payload_app, A4, <- !app_assoc. f_equal. unfold msg_payload. symmetry. exact B6.
  - intros Hd1. destruct Hd as [Hd|(-> & -> & Hd)]; [congruence|].
    destruct (A5 Hd) as [-> Hb]. split; [reflexivity|]. cbn in B6. rewrite Hb in B6. exact B6.
  - intros Hp1. destruct (Hp Hp1) as [Hpl Hcase]. destruct Hcase as [->|[Hnf Hov]].
    + rewrite app_nil_r. destruct (A6 Hpl) as [->|[Hlt Hn]]; [left; reflexivity|right].
      split; [rewrite len_app; lia|assumption].
    + right. assert (Hn: nf = false) by (destruct nf; [rewrite A8 in Hnf by reflexivity; discriminate|reflexivity]).
      split; [|assumption]. rewrite <- (A7 Hpl Hnf). rewrite A4, !len_app. lia.
  - intros Hp1 Hnf1. destruct (Hp Hp1) as [Hpl _]. rewrite B7 in Hnf1. rewrite B8 by assumption. auto.
  - intros Hn. rewrite B7. auto.
Qed.

(* ------------------------------------------------------------------ what remains to be shown after a step *)
Definition hist_post (w : writer) (cur : list pframe) (acc : list byte) (plain : bool) (ss : N) (nf : bool)
           (ops : list wop) : Prop :=
  exists fs, log_bytes (w_dest (snd (run_wops ops w))) = log_bytes (w_dest w) ++ wire fs /\ Forall wf_pframe fs /\
    forall msgs tailf, split_messages fs (rev cur) = (msgs, tailf) ->
      forallb (msg_frames_ok client op comp true) msgs = true /\
      msg_frames_ok client op comp true tailf = true /\
      exists acc', walk_history (steps_of ops (fst (run_wops ops w))) msgs (w_dirty w) acc
                     (dest_ncalls (w_dest w)) ss plain (w_noflush w) nf = Some ([], acc') /\
                   msg_payload tailf = take (len acc' - w_n (snd (run_wops ops w))) acc'.

Lemma steps_of_cons o os x xs : steps_of (o :: os) (x :: xs) = mkStep o x :: steps_of os xs.
Proof. reflexivity. Qed.

Lemma post_cons_nonfin w w1 o o1 rest fs1 cur acc plain ss nf acc1 plain1 ss1 nf1 :
  run_op o w = (o1, w1, false) ->
  log_bytes (w_dest w1) = log_bytes (w_dest w) ++ wire fs1 -> Forall wf_pframe fs1 -> Forall nonfin fs1 ->
  (forall msgs steps, walk_history (mkStep o o1 :: steps) msgs (w_dirty w) acc (dest_ncalls (w_dest w)) ss plain (w_noflush w) nf
     = walk_history steps msgs (w_dirty w1) acc1 (dest_ncalls (w_dest w1)) ss1 plain1 (w_noflush w1) nf1) ->
  hist_post w1 (cur ++ fs1) acc1 plain1 ss1 nf1 rest ->
  hist_post w cur acc plain ss nf (o :: rest).
Proof.
  intros Hrun Hlog Hwf Hnf Hwalk (fs & Hl & Hf & Hpost). unfold hist_post.
  rewrite run_wops_cons, Hrun. destruct (run_wops rest w1) as [os w2] eqn:Er. cbn [fst snd] in *.
  exists (fs1 ++ fs). split; [rewrite Hl, Hlog, wire_app, app_assoc; reflexivity|].
  split; [apply Forall_app; split; assumption|].
  intros msgs tailf Hsp. rewrite split_nonfin in Hsp by assumption.
  rewrite rev_append_rev, <- rev_app_distr in Hsp.
  destruct (Hpost msgs tailf Hsp) as (H1 & H2 & acc' & H3 & H4).
  split; [assumption|]. split; [assumption|]. exists acc'. rewrite steps_of_cons, Hwalk. auto.
Qed.

Lemma post_cons_fin w w1 o1 rest f cur acc plain ss nf :
  run_op WFlush w = (o1, w1, false) ->
  log_bytes (w_dest w1) = log_bytes (w_dest w) ++ wire [f] -> wf_pframe f -> h_fin (pf_header f) = true ->
  msg_frames_ok client op comp true (cur ++ [f]) = true ->
  (forall ms steps, walk_history (mkStep WFlush o1 :: steps) ((cur ++ [f]) :: ms) (w_dirty w) acc (dest_ncalls (w_dest w)) ss plain (w_noflush w) nf
     = walk_history steps ms false [] (dest_ncalls (w_dest w1)) (w_buflen w1) true (w_noflush w1) (w_noflush w1)) ->
  w_dirty w1 = false ->
  hist_post w1 [] [] true (w_buflen w1) (w_noflush w1) rest ->
  hist_post w cur acc plain ss nf (WFlush :: rest).
Proof.
  intros Hrun Hlog Hwf Hfin Hok Hwalk Hd1 (fs & Hl & Hf & Hpost). unfold hist_post.
  rewrite run_wops_cons, Hrun. destruct (run_wops rest w1) as [os w2] eqn:Er. cbn [fst snd] in *.
  exists ([f] ++ fs). split; [rewrite Hl, Hlog, wire_app, app_assoc; reflexivity|].
  split; [constructor; assumption|].
  intros msgs tailf Hsp. cbn [app split_messages] in Hsp. rewrite Hfin in Hsp.
  destruct (split_messages fs []) as [ms tl0] eqn:Es. injection Hsp as <- <-.
  destruct (Hpost ms tl0 Es) as (H1 & H2 & acc' & H3 & H4).
  assert (Em: rev_append (rev cur) [f] = cur ++ [f]).
  { rewrite rev_append_rev, rev_involutive. reflexivity. }
  rewrite Em. cbn [forallb]. rewrite Hok, H1. split; [reflexivity|]. split; [assumption|].
  exists acc'. rewrite steps_of_cons, Hwalk. rewrite Hd1 in H3. auto.
Qed.

(* ------------------------------------------------------------------ the induction over histories *)
Definition c06_op (o : wop) : Prop :=
  match o with
  | WWrite p => wf_bytes p
  | WReadFrom data _ => wf_bytes data
  | WWriteThrough p => wf_bytes p /\ len p <= max_int
  | WFlushFragment | WFlush | WGrow _ | WDisableFlush => True
  | _ => False
  end.

Lemma Step_buf_len w w1 fs a : Step w w1 fs a -> len (w_buf w1) <= len (w_buf w) + len a.
Proof. intros H. pose proof (f_equal len (s_data _ _ _ _ H)) as E. rewrite !len_app in E. lia. Qed.

Lemma write_through_notempty p w : w_err w = None -> w_buf w <> [] ->
  write_through p w = ((0, Some WNotEmpty), w).
Proof.
  intros He Hb. unfold write_through, w_n. rewrite He.
  replace (len (w_buf w) =? 0) with false by (destruct (w_buf w); [congruence|rewrite len_cons; lia]). reflexivity.
Qed.

Lemma Hist_dirty w cur acc plain ss nf : Hist w cur acc plain ss nf -> w_buf w <> [] -> w_dirty w = true.
Proof. intros H Hb. destruct (w_dirty w) eqn:E; [reflexivity|]. destruct (h_clean _ _ _ _ _ _ H E) as [_ Hx]. congruence. Qed.

Lemma hist_run : forall ops w cur acc plain ss nf, Hist w cur acc plain ss nf -> Forall c06_op ops ->
  28 + 4 * (len (w_buf w) + ops_cost ops) <= max_int -> hist_post w cur acc plain ss nf ops.
Proof.
  induction ops as [|o rest IH]; intros w cur acc plain ss nf HH Hops Hbud.
  - unfold hist_post. cbn [run_wops fst snd]. exists []. split; [cbn; rewrite app_nil_r; reflexivity|].
    split; [constructor|]. intros msgs tailf Hsp. cbn [split_messages] in Hsp.
    rewrite rev_append_rev, rev_involutive, app_nil_r in Hsp. injection Hsp as <- <-.
    split; [reflexivity|]. split; [apply HH|]. exists acc. split; [reflexivity|].
    rewrite (h_acc _ _ _ _ _ _ HH). unfold w_n. rewrite len_app.
    replace (len (msg_payload cur) + len (w_buf w) - len (w_buf w)) with (len (msg_payload cur)) by lia.
    rewrite take_app_le by lia. rewrite take_all by lia. reflexivity.
  - inversion Hops as [|? ? Ho Hrest]; subst. cbn [ops_cost] in Hbud.
    pose proof (h_cst _ _ _ _ _ _ HH) as Hc.
    destruct o as [p|data sizes|p| | |n| |xs|st o|o]; cbn [c06_op op_cost] in *; try contradiction.
    + (* Write *)
      destruct (write_C p w Hc Ho ltac:(lia)) as (w1 & fs & Hw & Hs & Hd & Hcase).
      destruct (gchain_wf _ _ (s_chain _ _ _ _ Hs)) as [Hwf Hnf].
      eapply (post_cons_nonfin w w1 (WWrite p) _ rest fs cur acc plain ss nf (acc ++ p) plain ss nf).
      * cbn [run_op]. rewrite Hw. reflexivity.
      * apply Hs.
      * assumption.
      * assumption.
      * intros msgs steps. cbn [walk_history s_op s_obs accepted_of observe o_n o_calls].
        rewrite take_all by lia. rewrite Hd, (s_noflush _ _ _ _ Hs).
        replace (w_noflush w && negb (dest_ncalls (w_dest w1) =? dest_ncalls (w_dest w))) with false; [reflexivity|].
        destruct (w_noflush w) eqn:En; [|reflexivity]. destruct Hcase as [->|[Hx _]]; [|discriminate].
        rewrite (s_same _ _ _ _ Hs eq_refl), N.eqb_refl. reflexivity.
      * apply IH; [|assumption|pose proof (Step_buf_len _ _ _ _ Hs); lia].
        apply (Hist_step w w1 fs p cur acc plain ss nf plain HH Hs); [left; assumption|]. intros ->. auto.
    + (* ReadFrom *)
      destruct (read_from_C data sizes w Hc Ho ltac:(lia)) as (w1 & s' & fs & Hw & Hs & Hd).
      destruct (gchain_wf _ _ (s_chain _ _ _ _ Hs)) as [Hwf Hnf].
      eapply (post_cons_nonfin w w1 (WReadFrom data sizes) _ rest fs cur acc plain ss nf (acc ++ data) false ss nf).
      * cbn [run_op]. rewrite Hw. reflexivity.
      * apply Hs.
      * assumption.
      * assumption.
      * intros msgs steps. cbn [walk_history s_op s_obs accepted_of observe o_n o_calls].
        rewrite take_all by lia. rewrite Hd, (s_noflush _ _ _ _ Hs). reflexivity.
      * apply IH; [|assumption|pose proof (Step_buf_len _ _ _ _ Hs); lia].
        apply (Hist_step w w1 fs data cur acc plain ss nf false HH Hs); [left; assumption|discriminate].
    + (* WriteThrough *)
      destruct Ho as [Hp Hl]. destruct (w_buf w) as [|b0 r0] eqn:Hb.
      * destruct (Step_write_through p w Hc Hb Hp Hl) as (Hw & Hs & Hd).
        set (f := out_frame w false (w_rsv w) p) in *. set (w1 := sent2 w f) in *.
        destruct (gchain_wf _ _ (s_chain _ _ _ _ Hs)) as [Hwf Hnf].
        eapply (post_cons_nonfin w w1 (WWriteThrough p) _ rest [f] cur acc plain ss nf (acc ++ p) false ss nf).
        -- cbn [run_op]. rewrite Hw. reflexivity.
        -- apply Hs.
        -- assumption.
        -- assumption.
        -- intros msgs steps. cbn [walk_history s_op s_obs accepted_of observe o_n o_calls].
           rewrite take_all by lia. rewrite Hd, (s_noflush _ _ _ _ Hs). reflexivity.
        -- apply IH; [|assumption|pose proof (Step_buf_len _ _ _ _ Hs); rewrite Hb, len_nil in *; subst w1; unfold sent2, wt_result; wsimpl; rewrite Hb, len_nil; lia].
           apply (Hist_step w w1 [f] p cur acc plain ss nf false HH Hs); [left; assumption|discriminate].
      * assert (Hne: w_buf w <> []) by (rewrite Hb; discriminate).
        pose proof (Hist_dirty _ _ _ _ _ _ HH Hne) as Hd.
        eapply (post_cons_nonfin w w (WWriteThrough p) _ rest [] cur acc plain ss nf (acc ++ []) false ss nf).
        -- cbn [run_op]. rewrite (write_through_notempty p w (c_err w Hc) Hne). reflexivity.
        -- cbn. rewrite app_nil_r. reflexivity.
        -- constructor.
        -- constructor.
        -- intros msgs steps. cbn [walk_history s_op s_obs accepted_of observe o_n o_calls].
           rewrite take_0, Hd. reflexivity.
        -- apply IH; [|assumption|rewrite Hb in *; lia].
           apply (Hist_step w w [] [] cur acc plain ss nf false HH (Step_refl w Hc)); [left; assumption|discriminate].
    + (* FlushFragment *)
      destruct (w_buf w) as [|b0 r0] eqn:Hb.
      * eapply (post_cons_nonfin w w WFlushFragment _ rest [] cur acc plain ss nf acc false ss nf).
        -- cbn [run_op]. unfold flush_fragment, w_n. rewrite Hb, (c_err w Hc). reflexivity.
        -- cbn. rewrite app_nil_r. reflexivity.
        -- constructor.
        -- constructor.
        -- intros msgs steps. reflexivity.
        -- apply IH; [|assumption|rewrite Hb in *; lia].
           rewrite app_nil_r.
           pose proof (Hist_step w w [] [] cur acc plain ss nf false HH (Step_refl w Hc)) as H.
           rewrite !app_nil_r in H. apply H; [|discriminate].
           destruct (w_dirty w); [left; reflexivity|right; auto].
      * assert (Hne: w_buf w <> []) by (rewrite Hb; discriminate).
        pose proof (Hist_dirty _ _ _ _ _ _ HH Hne) as Hd.
        destruct (Step_flush_fragment w Hc Hne) as [Hw Hs]. rewrite Hb in Hw, Hs.
        set (f := out_frame w false (w_rsv w) (b0 :: r0)) in *.
        set (w1 := with_flush_result (sent1 w f) None false) in *.
        destruct (gchain_wf _ _ (s_chain _ _ _ _ Hs)) as [Hwf Hnf].
        eapply (post_cons_nonfin w w1 WFlushFragment _ rest [f] cur acc plain ss nf acc false ss nf).
        -- cbn [run_op]. rewrite Hw. reflexivity.
        -- apply Hs.
        -- assumption.
        -- assumption.
        -- intros msgs steps. reflexivity.
        -- apply IH; [|assumption|change (w_buf w1) with (@nil byte); rewrite len_nil; lia].
           pose proof (Hist_step w w1 [f] [] cur acc plain ss nf false HH Hs) as H.
           rewrite app_nil_r in H. apply H; [left; exact Hd|discriminate].
    + (* Flush *)
      destruct (w_dirty w) eqn:Hd.
      * pose proof (flush_C w Hc (or_introl Hd)) as Hw.
        destruct (flush_fragment_raw_C true w Hc) as [_ Hg].
        set (f := out_frame w true (w_rsv w) (w_buf w)) in *.
        set (w1 := with_flush_result (sent1 w f) None true) in *.
        assert (Hok: msg_frames_ok client op comp true (cur ++ [f]) = true).
        { rewrite mfo_app, (h_cur_ok _ _ _ _ _ _ HH). cbn [andb msg_frames_ok]. rewrite andb_true_r.
          rewrite (h_fseq _ _ _ _ _ _ HH) in Hg. pose proof (gframe_check _ _ _ Hg) as Hk.
          destruct cur; [exact Hk|]. rewrite len_cons in Hk. replace (1 + len cur =? 0) with false in Hk by lia. exact Hk. }
        eapply (post_cons_fin w w1 _ rest f cur acc plain ss nf).
        -- cbn [run_op]. rewrite Hw. reflexivity.
        -- subst w1. unfold sent1, with_dest. wsimpl. rewrite log_bytes_push by apply (c_dest w Hc).
           unfold wire. cbn [map concat]. rewrite app_nil_r. reflexivity.
        -- apply Hg.
        -- apply Hg.
        -- exact Hok.
        -- intros ms steps. cbn [walk_history s_op s_obs observe o_calls o_size]. rewrite Hd.
           assert (Epl: msg_payload (cur ++ [f]) = acc).
           { rewrite msg_payload_app, (h_acc _ _ _ _ _ _ HH). f_equal. unfold msg_payload. cbn [map concat].
             rewrite app_nil_r. apply out_frame_unmasked. }
           rewrite Epl. replace (bytes_eqb acc acc) with true by (symmetry; apply bytes_eqb_eq; reflexivity).
           cbn [andb].
           replace (if plain && ((len acc <=? ss) || nf) then len (cur ++ [f]) =? 1 else true) with true; [reflexivity|].
           destruct (plain && ((len acc <=? ss) || nf)) eqn:Epn; [|reflexivity].
           apply andb_true_iff in Epn. destruct Epn as [Hpl Hor].
           destruct (h_plain1 _ _ _ _ _ _ HH Hpl) as [->|[Hlt Hnf]]; [reflexivity|].
           rewrite Hnf in Hor. rewrite orb_false_r in Hor. lia.
        -- reflexivity.
        -- apply IH; [|assumption|change (w_buf w1) with (@nil byte); rewrite len_nil; lia].
           constructor.
           ++ apply (Cst_flushed w f true Hc).
           ++ reflexivity.
           ++ reflexivity.
           ++ reflexivity.
           ++ intros _. split; reflexivity.
           ++ intros _. left. reflexivity.
           ++ intros _ _. reflexivity.
           ++ auto.
      * destruct (h_clean _ _ _ _ _ _ HH Hd) as [Hcur Hb]. subst cur.
        eapply (post_cons_nonfin w w WFlush _ rest [] [] acc plain ss nf [] true (w_buflen w) (w_noflush w)).
        -- cbn [run_op]. rewrite (flush_nothing w Hd Hb), (c_err w Hc). reflexivity.
        -- cbn. rewrite app_nil_r. reflexivity.
        -- constructor.
        -- constructor.
        -- intros msgs steps. cbn [walk_history s_op s_obs observe o_calls o_size]. rewrite Hd, N.eqb_refl. reflexivity.
        -- apply IH; [|assumption|lia]. constructor.
           ++ assumption.
           ++ reflexivity.
           ++ apply (h_fseq _ _ _ _ _ _ HH).
           ++ rewrite Hb. reflexivity.
           ++ auto.
           ++ intros _. left. reflexivity.
           ++ intros _ _. reflexivity.
           ++ auto.
    + (* Grow *)
      destruct (Step_grow n w Hc ltac:(lia)) as (w1 & Hg & Hc1 & Hd1 & Hf1 & Hb1 & Hn1 & Hdi1 & _ & _).
      eapply (post_cons_nonfin w w1 (WGrow n) _ rest [] cur acc plain ss nf acc false ss nf).
      * cbn [run_op]. rewrite Hg. reflexivity.
      * rewrite Hd1. cbn. rewrite app_nil_r. reflexivity.
      * constructor.
      * constructor.
      * intros msgs steps. cbn [walk_history s_op s_obs observe o_calls o_size]. rewrite Hdi1, Hd1, Hn1. reflexivity.
      * apply IH; [|assumption|rewrite Hb1; lia]. rewrite app_nil_r. destruct HH as [A1 A2 A3 A4 A5 A6 A7 A8]. constructor.
        -- assumption.
        -- assumption.
        -- rewrite Hf1. assumption.
        -- rewrite Hb1. assumption.
        -- rewrite Hdi1, Hb1. assumption.
        -- discriminate.
        -- discriminate.
        -- rewrite Hn1. assumption.
    + (* DisableFlush *)
      eapply (post_cons_nonfin w (disable_flush w) WDisableFlush _ rest [] cur acc plain ss nf acc plain ss
                (if w_dirty w then nf else true)).
      * reflexivity.
      * cbn. rewrite app_nil_r. reflexivity.
      * constructor.
      * constructor.
      * intros msgs steps. reflexivity.
      * apply IH; [|assumption|wsimpl; lia]. rewrite app_nil_r. destruct HH as [A1 A2 A3 A4 A5 A6 A7 A8]. constructor; wsimpl.
        -- destruct A1 as [B1 B2 B3 B4 B5 B6 B7]. constructor; wsimpl; try assumption.
           destruct B1 as [I1 I2 I3 I4 I5]. constructor; assumption.
        -- assumption.
        -- assumption.
        -- assumption.
        -- assumption.
        -- intros Hpl. destruct (w_dirty w) eqn:Hd; [auto|]. left. apply A5. reflexivity.
        -- discriminate.
        -- reflexivity.
Qed.
End Hist.

(* ------------------------------------------------------------------ the last observation *)
Definition lastb (d : N) (steps : list wstep) : N :=
  match rev_append steps [] with st :: _ => o_buffered (s_obs st) | [] => d end.

Lemma lastb_cons d st r : lastb d (st :: r) = lastb (o_buffered (s_obs st)) r.
Proof.
  unfold lastb. cbn [rev_append]. rewrite !rev_append_rev, !app_nil_r.
  replace (rev r ++ [st]) with (rev (st :: r)) by reflexivity. cbn [rev].
  destruct (rev r); reflexivity.
Qed.

Lemma run_op_buffered o w : o_buffered (fst (fst (run_op o w))) = w_n (snd (fst (run_op o w))).
Proof.
  destruct o as [p|data sizes|p| | |n| |xs|st o|o]; cbn [run_op].
  - destruct (write p w) as [[pn|[n e]] w1]; reflexivity.
  - destruct (read_from _ w) as [[[pn|[n e]] w1] s']; reflexivity.
  - destruct (write_through p w) as [[n e] w1]; reflexivity.
  - destruct (flush_fragment w) as [[pn|e] w1]; reflexivity.
  - destruct (flush w) as [[pn|e] w1]; reflexivity.
  - destruct (grow n w) as [[pn|e] w1]; reflexivity.
  - reflexivity.
  - reflexivity.
  - destruct (reset_writer _ _ _ _); reflexivity.
  - reflexivity.
Qed.

Lemma lastb_run : forall ops w,
  lastb (w_n w) (steps_of ops (fst (run_wops ops w))) = w_n (snd (run_wops ops w)).
Proof.
  induction ops as [|o rest IH]; intros w; [reflexivity|].
  rewrite run_wops_cons. pose proof (run_op_buffered o w) as Hb.
  destruct (run_op o w) as [[o1 w1] stop]. cbn [fst snd] in Hb. destruct stop.
  - cbn [fst snd]. unfold steps_of. cbn [combine]. rewrite combine_nil. cbn [map]. rewrite lastb_cons. cbn [s_obs fst snd].
    rewrite Hb. reflexivity.
  - specialize (IH w1). destruct (run_wops rest w1) as [os w2]. cbn [fst snd] in *.
    rewrite steps_of_cons, lastb_cons. cbn [s_obs]. rewrite Hb. exact IH.
Qed.

(* ------------------------------------------------------------------ C06: the history monitor holds *)
Record fresh_writer (w : writer) : Prop := {
  fr_buf : w_buf w = []; fr_dirty : w_dirty w = false; fr_fseq : w_fseq w = 0; fr_err : w_err w = None;
  fr_noflush : w_noflush w = false; fr_calls : d_calls (w_dest w) = []; fr_fail : d_fail_at (w_dest w) = None }.

Lemma c06_op_wf o : c06_op o -> op_wf o.
Proof. destruct o; cbn; auto; try contradiction. intros [H _]. exact H. Qed.

Theorem c06_monitor_holds ops w0 comp :
  writer_inv w0 -> fresh_writer w0 -> w_op w0 < 16 -> masks_ok w0 -> exts_comp (w_exts w0) comp ->
  Forall c06_op ops -> 28 + 4 * ops_cost ops <= max_int ->
  c06_monitor (client_side (w_state w0)) (w_op w0) comp (w_buflen w0)
    (steps_of ops (fst (run_wops ops w0))) (dest_log (w_dest (snd (run_wops ops w0)))) = true.
Proof.
  intros Hi [F1 F2 F3 F4 F5 F6 F7] Ho Hm Hx Hops Hbud.
  set (client := client_side (w_state w0)). set (op := w_op w0).
  assert (Hc: Cst client op comp w0).
  { constructor; try assumption; try reflexivity. split; [assumption|]. split; [rewrite F1; constructor|assumption]. }
  assert (HH: Hist client op comp w0 [] [] true (w_buflen w0) false).
  { constructor.
    - assumption.
    - reflexivity.
    - rewrite F3. reflexivity.
    - rewrite F1. reflexivity.
    - intros _. split; [reflexivity|assumption].
    - intros _. left. reflexivity.
    - intros _ _. reflexivity.
    - discriminate. }
  destruct (hist_run client op comp ops w0 [] [] true (w_buflen w0) false HH Hops) as (fs & Hlog & Hwf & Hpost).
  { rewrite F1, len_nil. lia. }
  assert (Hl0: log_bytes (w_dest w0) = []) by (unfold log_bytes, dest_log; rewrite F6; reflexivity).
  rewrite Hl0 in Hlog. cbn [app] in Hlog.
  pose proof (run_wops_aligned ops w0) as Hal.
  specialize (Hal (fresh_Jinv w0 Ho F1 Hm F6) (Forall_impl _ c06_op_wf Hops) F7).
  pose proof (lastb_run ops w0) as Hlast.
  destruct (run_wops ops w0) as [obs w'] eqn:Er. cbn [fst snd] in *.
  destruct Hal as (Hal & _ & _).
  unfold c06_monitor. unfold log_bytes in Hlog. rewrite Hlog, frames_of_wire by assumption.
  destruct (split_messages fs []) as [msgs tailf] eqn:Es.
  destruct (Hpost msgs tailf Es) as (H1 & H2 & acc' & H3 & H4).
  rewrite Hal, H1, H2. cbn [andb].
  rewrite F2, F5 in H3. unfold dest_ncalls in H3. rewrite F6 in H3. cbn [len length N.of_nat] in H3.
  rewrite H3.
  assert (El: last_buffered (steps_of ops obs) = w_n w').
  { unfold w_n in Hlast at 1. rewrite F1 in Hlast. exact Hlast. }
  rewrite El, H4. apply bytes_eqb_eq. reflexivity.
Qed.

(* from the constructors *)
Lemma new_writer_buffer_c06 ops state op rawlen masks exts comp w0 :
  new_writer_buffer (mkDest [] None) state op rawlen masks = inr w0 ->
  rawlen <= max_int -> op < 16 -> Forall wf_key masks -> exts_comp exts comp ->
  Forall c06_op ops -> 28 + 4 * ops_cost ops <= max_int ->
  let w := set_extensions exts w0 in
  c06_monitor (client_side state) op comp (w_buflen w)
    (steps_of ops (fst (run_wops ops w))) (dest_log (w_dest (snd (run_wops ops w)))) = true.
Proof.
  intros Hn Hr Ho Hm Hx Hops Hbud w.
  pose proof (new_writer_buffer_inv _ _ _ _ _ _ Hr Hn) as Hi.
  destruct (new_writer_buffer_fresh _ _ _ _ _ _ Hn) as (E1 & E2 & E3 & E4 & E5 & E6 & E7 & E8 & E9 & E10).
  assert (Hiw: writer_inv w) by (destruct Hi as [A1 A2 A3 A4 A5]; constructor; assumption).
  pose proof (c06_monitor_holds ops w comp Hiw) as H. subst w. wsimpl. rewrite E2, E3 in H. apply H; try assumption.
  - constructor; wsimpl; try assumption; rewrite E1; reflexivity.
  - unfold masks_ok. wsimpl. rewrite E10. assumption.
Qed.

(* every constructor of wsutil.Writer *)
Lemma constructors_c06 ops state op n masks exts comp w0 :
  (new_writer_buffer (mkDest [] None) state op n masks = inr w0 \/
   new_writer_buffer_size (mkDest [] None) state op n masks = inr w0 \/
   new_writer_size (mkDest [] None) state op n masks = inr w0) ->
  n + 14 <= max_int -> op < 16 -> Forall wf_key masks -> exts_comp exts comp ->
  Forall c06_op ops -> 28 + 4 * ops_cost ops <= max_int ->
  let w := set_extensions exts w0 in
  c06_monitor (client_side state) op comp (w_buflen w)
    (steps_of ops (fst (run_wops ops w))) (dest_log (w_dest (snd (run_wops ops w)))) = true.
Proof.
  intros Hn Hr Ho Hm Hx Hops Hbud.
  assert (Hsz: forall k, k <= max_int -> (if k <=? 2 then default_write_buffer else k) <= max_int).
  { intros k Hk. destruct (k <=? 2); [vm_compute; discriminate|assumption]. }
  assert (Hhs: (if 0 <? n then n + w_header_size state n else n) <= max_int).
  { destruct (0 <? n); [|lia]. unfold w_header_size. pose proof (mask_len_cases state).
    destruct (n <? 126); [lia|]. destruct (n <=? 65535); lia. }
  destruct Hn as [Hn|[Hn|Hn]].
  - apply (new_writer_buffer_c06 ops state op n masks exts comp w0 Hn); try assumption. lia.
  - unfold new_writer_buffer_size in Hn.
    apply (new_writer_buffer_c06 ops state op _ masks exts comp w0 Hn); try assumption. apply Hsz. lia.
  - unfold new_writer_size, new_writer_buffer_size in Hn.
    apply (new_writer_buffer_c06 ops state op _ masks exts comp w0 Hn); try assumption. apply Hsz. assumption.
Qed.
