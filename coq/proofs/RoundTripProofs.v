(* RoundTripProofs.v — C13, last sentence: a (compressed, fragmented, masked)
   message written through the Writer model is read back identically through the
   Reader model of the peer.  The proved halves are glued together here:
     writer side  (WriterHistProofs): every Write/Flush emits whole frames with the
                  header the property demands, payloads concatenate to the input;
     reader side  (ReaderProofs): drive meets the frame-sequence spec for every
                  frame list, transport chunking and caller buffers.
   The bridge: the writer's frames ARE a spec frame list ([sf_of]) whose wire bytes
   are the destination log, and the spec on that list yields one event. *)
Require Import Bytes Stream Utf8Spec Check Frame Cipher Utf8Dfa Extracted ExtractedOk Writer Reader
  BytesProofs StreamProofs FrameProofs CipherProofs CheckProofs WriterProofs WriterInv WriterFrameProofs
  WriterHistProofs Utf8Proofs ReaderLocalProofs ReaderAux ReaderInv ReaderProofs.
From Coq Require Import ZifyBool ZifyN ZifyNat.
Open Scope N_scope.

(* ------------------------------------------------------------------ writer side: Write* ; Flush *)
Section W.
Variables (client : bool) (op : N) (comp : bool).

(* the frames of one whole message: fragments number k, k+1, ..., only the last final *)
Fixpoint gmsg (k : N) (fs : list pframe) : Prop :=
  match fs with
  | [] => False
  | f :: r =>
    match r with
    | [] => gframe client op comp (k =? 0) true f
    | _ :: _ => gframe client op comp (k =? 0) false f /\ gmsg (k + 1) r
    end
  end.

Lemma gmsg_snoc fs : forall k f, gchain client op comp k fs ->
  gframe client op comp (k + len fs =? 0) true f -> gmsg k (fs ++ [f]).
Proof.
  induction fs as [|g fs IH]; intros k f Hc Hf.
  - rewrite len_nil, N.add_0_r in Hf. exact Hf.
  - destruct Hc as [Hg Hr]. rewrite len_cons in Hf.
    replace (k + (1 + len fs)) with (k + 1 + len fs) in Hf by lia.
    pose proof (IH (k + 1) f Hr Hf) as H. cbn [app gmsg].
    destruct (fs ++ [f]) as [|x y] eqn:E; [destruct fs; discriminate|]. split; assumption.
Qed.

Lemma gmsg_wf fs : forall k, gmsg k fs -> Forall wf_pframe fs.
Proof.
  induction fs as [|f r IH]; intros k H; [constructor|].
  cbn [gmsg] in H. destruct r as [|g r'].
  - constructor; [apply H|constructor].
  - destruct H as [Hf Hr]. constructor; [apply Hf|]. apply (IH _ Hr).
Qed.

(* any number of Write calls followed by one Flush: one whole message *)
Lemma writes_flush_C : forall pieces w, Cst client op comp w -> Forall wf_bytes pieces ->
  2 * (14 + len (w_buf w) + len (concat pieces)) <= max_int ->
  (w_dirty w = true \/ pieces <> []) ->
  exists fs f,
    log_bytes (w_dest (snd (run_wops (map WWrite pieces ++ [WFlush]) w))) =
      log_bytes (w_dest w) ++ WriterFrameProofs.wire (fs ++ [f]) /\
    gchain client op comp (w_fseq w) fs /\
    gframe client op comp (w_fseq w + len fs =? 0) true f /\
    concat (map pf_unmasked fs) ++ pf_unmasked f = w_buf w ++ concat pieces.
Proof.
  induction pieces as [|p rest IH]; intros w Hc Hps Hbud Hd.
  - destruct Hd as [Hd|Hd]; [|congruence].
    cbn [map app concat]. rewrite run_wops_cons. cbn [run_op].
    rewrite (flush_C client op comp w Hc (or_introl Hd)). cbn [run_wops snd].
    destruct (flush_fragment_raw_C client op comp true w Hc) as [_ Hg].
    set (f := out_frame w true (w_rsv w) (w_buf w)) in *.
    exists [], f. split; [|split; [exact I|split]].
    + unfold sent1, with_dest. wsimpl. rewrite log_bytes_push by apply (c_dest _ _ _ w Hc).
      cbn [app]. unfold WriterFrameProofs.wire. cbn [map concat]. rewrite app_nil_r. reflexivity.
    + rewrite len_nil, N.add_0_r. exact Hg.
    + cbn [map concat app]. rewrite app_nil_r. apply out_frame_unmasked.
  - inversion Hps as [|? ? Hp Hrest]; subst. cbn [concat] in Hbud. rewrite len_app in Hbud.
    destruct (write_C client op comp p w Hc Hp ltac:(lia)) as (w1 & fs1 & Hw & Hs & Hd1 & _).
    cbn [map app]. rewrite run_wops_cons. cbn [run_op]. rewrite Hw.
    pose proof (Step_buf_len _ _ _ _ _ _ _ Hs) as Hbl.
    destruct (IH w1 (s_cst _ _ _ _ _ _ _ Hs) Hrest ltac:(lia) (or_introl Hd1)) as (fs2 & f & Hlog & Hch & Hg & Hdata).
    destruct (run_wops (map WWrite rest ++ [WFlush]) w1) as [os w2]. cbn [snd] in *.
    exists (fs1 ++ fs2), f. split; [|split; [|split]].
    + rewrite Hlog, (s_log _ _ _ _ _ _ _ Hs), <- (app_assoc fs1), (WriterFrameProofs.wire_app fs1), app_assoc. reflexivity.
    + apply gchain_app; [apply (s_chain _ _ _ _ _ _ _ Hs)|]. rewrite <- (s_fseq _ _ _ _ _ _ _ Hs). exact Hch.
    + rewrite (s_fseq _ _ _ _ _ _ _ Hs) in Hg. rewrite len_app.
      replace (w_fseq w + (len fs1 + len fs2)) with (w_fseq w + len fs1 + len fs2) by lia. exact Hg.
    + rewrite map_app, concat_app, <- app_assoc, Hdata, app_assoc, (s_data _ _ _ _ _ _ _ Hs).
      cbn [concat]. rewrite <- app_assoc. reflexivity.
Qed.
End W.

(* ------------------------------------------------------------------ the writer's frames as spec frames *)
Definition sf_of (f : pframe) : sframe :=
  mkSF (h_fin (pf_header f)) (h_rsv (pf_header f)) (h_op (pf_header f))
       (if h_masked (pf_header f) then Some (h_mask (pf_header f)) else None) (pf_unmasked f).

Lemma len_pf_unmasked f : len (pf_unmasked f) = len (pf_payload f).
Proof. unfold pf_unmasked. destruct (h_masked _); [apply len_mask_spec|reflexivity]. Qed.

Lemma sf_of_header f : wf_pframe f -> sf_header (sf_of f) = pf_header f.
Proof.
  intros (_ & Hl & _ & Hm). unfold sf_header, sf_of. cbn [sf_fin sf_rsv sf_op sf_key sf_payload].
  rewrite len_pf_unmasked, <- Hl. destruct (pf_header f) as [fin rsv o masked mask l].
  cbn [h_fin h_rsv h_op h_masked h_mask h_len] in *. destruct masked; [reflexivity|]. rewrite Hm; reflexivity.
Qed.

Lemma sf_of_wire f : wf_pframe f -> sf_wire (sf_of f) = frame_bytes f.
Proof.
  intros Hf. unfold sf_wire. rewrite (sf_of_header f Hf). unfold frame_bytes. f_equal.
  unfold sf_of, pf_unmasked. cbn [sf_key sf_payload]. destruct (h_masked (pf_header f)); [|reflexivity].
  apply mask_spec_involutive.
Qed.

Lemma sf_of_wf f : wf_pframe f -> wf_sframe (sf_of f).
Proof.
  intros Hf. pose proof Hf as ((Hr & Ho & Hlen & Hk1 & Hk2) & Hl & Hp & Hm).
  unfold wf_sframe, sf_of. cbn [sf_rsv sf_op sf_key sf_payload].
  split; [exact Hr|]. split; [exact Ho|]. split.
  { unfold pf_unmasked. destruct (h_masked (pf_header f)); [apply mask_spec_wf|]; assumption. }
  split; [rewrite len_pf_unmasked, <- Hl; apply Hlen|].
  destruct (h_masked (pf_header f)); [split; assumption|exact I].
Qed.

Lemma wire_sf_of fs : Forall wf_pframe fs -> Reader.wire (map sf_of fs) = WriterFrameProofs.wire fs.
Proof.
  induction 1 as [|f fs Hf _ IH]; [reflexivity|].
  unfold Reader.wire, WriterFrameProofs.wire in *. cbn [map concat]. rewrite IH, (sf_of_wire f Hf). reflexivity.
Qed.

(* under the writer's frame description the spec frame is explicit *)
Lemma sf_of_gframe client op comp first fin f : gframe client op comp first fin f ->
  sf_of f = mkSF fin (if first && comp && negb (spec_control op) && negb (op =? 0) then 4 else 0)
                 (if first then op else 0)
                 (if client then Some (h_mask (pf_header f)) else None) (pf_unmasked f).
Proof.
  intros (_ & Hfin & Ho & Hm & Hr). unfold sf_of. rewrite Hfin, Ho, Hm, Hr. reflexivity.
Qed.

(* ------------------------------------------------------------------ the spec on one message *)
(* the reader of the PEER: the other side, MessageState attached (StateExtended),
   no UTF-8 checking, no frame size limit *)
Definition peer_state (client : bool) : N := if client then 5 else 6.
Definition peer_cfg (client : bool) : rcfg := mkCfg (peer_state client) false 0 true.

Lemma spec_first client n evs fin (c : bool) o key p rest : o = 1 \/ o = 2 ->
  spec_run (peer_cfg client) n None evs
    (mkSF fin (if c then 4 else 0) o (if client then Some key else None) p :: rest) =
  if fin then spec_run (peer_cfg client) (S n) None (evs ++ [mkEv o p false c]) rest
  else spec_run (peer_cfg client) (S n) (Some (o, p, c)) evs rest.
Proof. intros [-> | ->]; destruct client, fin, c; reflexivity. Qed.

Lemma spec_cont client n o acc cm evs fin key p rest :
  spec_run (peer_cfg client) n (Some (o, acc, cm)) evs
    (mkSF fin 0 0 (if client then Some key else None) p :: rest) =
  if fin then spec_run (peer_cfg client) (S n) None (evs ++ [mkEv o (acc ++ p) false cm]) rest
  else spec_run (peer_cfg client) (S n) (Some (o, acc ++ p, cm)) evs rest.
Proof. destruct client, fin; reflexivity. Qed.

Lemma spec_cont_msg client o cm : forall all k n acc evs, k <> 0 -> gmsg client o cm k all ->
  spec_run (peer_cfg client) n (Some (o, acc, cm)) evs (map sf_of all) =
  mkSR (evs ++ [mkEv o (acc ++ concat (map pf_unmasked all)) false cm]) [] OClean.
Proof.
  induction all as [|f r IH]; intros k n acc evs Hk H; [contradiction|].
  cbn [gmsg] in H. replace (k =? 0) with false in H by lia. destruct r as [|g r'].
  - cbn [map]. rewrite (sf_of_gframe _ _ _ _ _ _ H). cbn [andb]. rewrite spec_cont.
    cbn [concat]. rewrite app_nil_r. reflexivity.
  - destruct H as [Hf Hr]. change (map sf_of (f :: g :: r')) with (sf_of f :: map sf_of (g :: r')).
    rewrite (sf_of_gframe _ _ _ _ _ _ Hf). cbn [andb]. rewrite spec_cont.
    rewrite (IH (k + 1) (S n) _ evs ltac:(lia) Hr).
    change (map pf_unmasked (f :: g :: r')) with (pf_unmasked f :: map pf_unmasked (g :: r')).
    cbn [concat]. rewrite <- app_assoc. reflexivity.
Qed.

Lemma spec_msg client o cm all : o = 1 \/ o = 2 -> gmsg client o cm 0 all ->
  spec_run (peer_cfg client) 0 None [] (map sf_of all) =
  mkSR [mkEv o (concat (map pf_unmasked all)) false cm] [] OClean.
Proof.
  intros Ho H. destruct all as [|f r]; [contradiction|]. cbn [gmsg] in H.
  change (0 =? 0) with true in H.
  assert (Er: (if true && cm && negb (spec_control o) && negb (o =? 0) then 4 else 0) = (if cm then 4 else 0) :> N).
  { destruct Ho as [-> | ->]; destruct cm; reflexivity. }
  destruct r as [|g r'].
  - cbn [map]. rewrite (sf_of_gframe _ _ _ _ _ _ H), Er, spec_first by exact Ho.
    cbn [concat app]. rewrite app_nil_r. reflexivity.
  - destruct H as [Hf Hr]. change (map sf_of (f :: g :: r')) with (sf_of f :: map sf_of (g :: r')).
    rewrite (sf_of_gframe _ _ _ _ _ _ Hf), Er, spec_first by exact Ho.
    rewrite (spec_cont_msg client o cm (g :: r') (0 + 1) 1 _ [] ltac:(lia) Hr). reflexivity.
Qed.

(* an exact match with one data-message event *)
Lemma evs_match_single o p cm evs : spec_control o = false ->
  evs_match [mkEv o p false cm] evs = true -> evs = [mkEv o p false cm].
Proof.
  intros Hc H. destruct evs as [|[o' p' i' c'] [|x y]]; cbn [evs_match] in H; try discriminate.
  2:{ rewrite andb_false_r in H. discriminate. }
  rewrite andb_true_r in H. unfold ev_matches in H. cbn [ev_op ev_payload ev_inter ev_comp] in H.
  rewrite Hc in H. cbn [andb] in H. rewrite orb_false_r in H.
  apply andb_true_iff in H. destruct H as [H H4]. apply andb_true_iff in H. destruct H as [H H3].
  apply andb_true_iff in H. destruct H as [H1 H2].
  apply N.eqb_eq in H1. apply bytes_eqb_eq in H2. apply eqb_prop in H3. apply eqb_prop in H4.
  subst. reflexivity.
Qed.

(* ------------------------------------------------------------------ the writer under test *)
Definition writer_state (client : bool) : N := if client then 6 else 5.   (* StateClientSide/ServerSide | StateExtended *)

(* NewWriterSize with a positive size never panics *)
Lemma new_writer_size_ok d state op n masks : 0 < n ->
  exists w0, new_writer_size d state op n masks = inr w0.
Proof.
  intros Hn. unfold new_writer_size, new_writer_buffer_size, new_writer_buffer.
  replace (0 <? n) with true by lia. set (raw0 := n + w_header_size state n).
  assert (H2: (raw0 <=? 2) = false).
  { subst raw0. unfold w_header_size. destruct (n <? 126); [lia|]. destruct (n <=? 65535); lia. }
  rewrite H2.
  assert (Hr: (raw0 <=? reserve state raw0) = false).
  { subst raw0. unfold w_header_size, reserve. pose proof (mask_len_cases state) as Hm.
    destruct (n <? 126) eqn:E1; [|destruct (n <=? 65535) eqn:E2];
    destruct (_ <=? 125 + mask_len state + 2) eqn:E3; try destruct (_ <=? 65535 + mask_len state + 4) eqn:E4; lia. }
  rewrite Hr. eexists. reflexivity.
Qed.

Lemma fresh_Cst client op c n masks w0 :
  new_writer_size (mkDest [] None) (writer_state client) op n masks = inr w0 ->
  n + 14 <= max_int -> op < 16 -> Forall wf_key masks ->
  let w1 := set_extensions [c] w0 in
  Cst client op c w1 /\ w_buf w1 = [] /\ w_fseq w1 = 0 /\ w_dest w1 = mkDest [] None.
Proof.
  intros Hn Hb Ho Hm w1.
  pose proof (new_writer_size_inv _ _ _ _ _ _ Hb Hn) as Hi.
  unfold new_writer_size, new_writer_buffer_size in Hn.
  destruct (new_writer_buffer_fresh _ _ _ _ _ _ Hn) as (E1 & E2 & E3 & E4 & E5 & E6 & E7 & E8 & E9 & E10).
  subst w1. split; [|wsimpl; auto].
  constructor; wsimpl.
  - destruct Hi as [A1 A2 A3 A4 A5]. constructor; assumption.
  - split; [wsimpl; rewrite E3; exact Ho|]. split; [wsimpl; rewrite E6; constructor|].
    unfold masks_ok. wsimpl. rewrite E10. exact Hm.
  - exact E9.
  - rewrite E1. reflexivity.
  - rewrite E2. destruct client; reflexivity.
  - exact E3.
  - right. reflexivity.
Qed.

Lemma Forall_wf_concat pieces : wf_bytes (concat pieces) -> Forall wf_bytes pieces.
Proof.
  induction pieces as [|p r IH]; intros H; [constructor|]. cbn [concat] in H.
  apply wf_bytes_app in H. destruct H as [H1 H2]. constructor; [exact H1|apply IH, H2].
Qed.

(* ------------------------------------------------------------------ what the writer puts on the wire *)
(* Write(p1) ... Write(pk) Flush on a fresh writer, k >= 1: the destination received
   exactly the wire bytes of ONE spec message whose frames partition m *)
Lemma writer_wire client op c n masks pieces w0 :
  (op = 1 \/ op = 2) -> n + 14 <= max_int -> Forall wf_key masks ->
  wf_bytes (concat pieces) -> 2 * (14 + len (concat pieces)) <= max_int -> pieces <> [] ->
  new_writer_size (mkDest [] None) (writer_state client) op n masks = inr w0 ->
  exists all : list pframe,
    concat (dest_log (w_dest (snd (run_wops (map WWrite pieces ++ [WFlush]) (set_extensions [c] w0))))) =
      Reader.wire (map sf_of all) /\
    Forall wf_sframe (map sf_of all) /\
    spec_run (peer_cfg client) 0 None [] (map sf_of all) = mkSR [mkEv op (concat pieces) false c] [] OClean.
Proof.
  intros Ho Hn Hm Hwf Hbud Hne Hnew.
  assert (Ho16: op < 16) by (destruct Ho; lia).
  destruct (fresh_Cst client op c n masks w0 Hnew Hn Ho16 Hm) as (Hc & Hb & Hf & Hd).
  set (w1 := set_extensions [c] w0) in *.
  destruct (writes_flush_C client op c pieces w1 Hc (Forall_wf_concat _ Hwf)) as (fs & f & Hlog & Hch & Hg & Hdata).
  { rewrite Hb, len_nil. lia. }
  { right. exact Hne. }
  rewrite Hf in Hch, Hg. rewrite Hb in Hdata. cbn [app] in Hdata.
  pose proof (gmsg_snoc client op c fs 0 f Hch Hg) as Hmsg.
  pose proof (gmsg_wf client op c _ _ Hmsg) as Hall.
  exists (fs ++ [f]). split; [|split].
  - fold (log_bytes (w_dest (snd (run_wops (map WWrite pieces ++ [WFlush]) w1)))).
    rewrite Hlog, Hd. rewrite (wire_sf_of _ Hall). reflexivity.
  - clear -Hall. induction Hall as [|x l Hx _ IH]; cbn [map]; constructor; [apply sf_of_wf, Hx|exact IH].
  - rewrite (spec_msg client op c _ Ho Hmsg). rewrite map_app, concat_app. cbn [map concat].
    rewrite app_nil_r, Hdata. reflexivity.
Qed.

(* ------------------------------------------------------------------ C13: the round trip *)
Theorem writer_reader_roundtrip :
  forall (client c : bool) (op n : N) (masks : list (list byte)) (pieces : list (list byte)) (m : list byte)
         w0 obs w' (s : src) (bufs : list N) (fuel : nat),
  (op = 1 \/ op = 2) -> n + 14 <= max_int -> Forall wf_key masks ->
  wf_bytes m -> 2 * (14 + len m) <= max_int ->
  pieces <> [] -> concat pieces = m ->
  new_writer_size (mkDest [] None) (writer_state client) op n masks = inr w0 ->
  run_wops (map WWrite pieces ++ [WFlush]) (set_extensions [c] w0) = (obs, w') ->
  let bytes := concat (dest_log (w_dest w')) in
  wf_src s -> tl s = TEOF -> flat s = bytes ->
  (6 * length bytes + 8 <= fuel)%nat ->
  let d := drive fuel bufs (new_reader s (peer_state client) false false 0 true CbReadAll) in
  dr_events d = [mkEv op m false c] /\ dr_err d = RIo EEOF /\ dr_partial d = [].
Proof.
  intros client c op n masks pieces m w0 obs w' s bufs fuel Ho Hn Hm Hwf Hbud Hne Hcat Hnew Hrun bytes
         Hs Htl Hfl Hfuel d.
  subst m.
  destruct (writer_wire client op c n masks pieces w0 Ho Hn Hm Hwf Hbud Hne Hnew) as (all & Hbytes & Hall & Hspec).
  rewrite Hrun in Hbytes. cbn [snd] in Hbytes. fold bytes in Hbytes.
  assert (Hlen: (length (map sf_of all) <= length bytes)%nat).
  { rewrite Hbytes. clear. induction all as [|f r IH]; [cbn; lia|].
    cbn [map]. rewrite ReaderAux.wire_cons. pose proof (rfc_header_len2 (sf_header (sf_of f))) as H2.
    rewrite !app_length. cbn [length]. lia. }
  pose proof (reader_meets_spec (peer_cfg client) (map sf_of all) s bufs fuel) as H.
  cbv zeta in H. cbn [peer_cfg c_state c_check_utf8 c_max c_ext] in H. fold d in H.
  specialize (H ltac:(unfold wf_cfg; destruct client; cbn; lia) Hall Hs Htl ltac:(rewrite Hfl; exact Hbytes)
                ltac:(rewrite <- Hbytes; lia)).
  unfold reader_monitor, expected_events in H.
  change (mkCfg (peer_state client) false 0 true) with (peer_cfg client) in H. rewrite Hspec in H.
  cbn [sr_events sr_out sr_partial] in H.
  apply andb_true_iff in H. destruct H as [H H3]. apply andb_true_iff in H. destruct H as [H1 H2].
  split; [|split].
  - apply evs_match_single; [destruct Ho as [-> | ->]; reflexivity|exact H1].
  - unfold err_matches in H2. destruct (dr_err d) as [[| |]| | | | | | | |]; try discriminate. reflexivity.
  - apply bytes_eqb_eq in H3. exact H3.
Qed.

(* no Write call at all: Flush sends nothing, the peer sees a clean end of stream *)
Theorem writer_reader_nothing :
  forall (client c : bool) (op n : N) masks w0 (s : src) bufs fuel,
  new_writer_size (mkDest [] None) (writer_state client) op n masks = inr w0 ->
  let w' := snd (run_wops [WFlush] (set_extensions [c] w0)) in
  concat (dest_log (w_dest w')) = [] /\
  (wf_src s -> tl s = TEOF -> flat s = [] -> (8 <= fuel)%nat ->
   let d := drive fuel bufs (new_reader s (peer_state client) false false 0 true CbReadAll) in
   dr_events d = [] /\ dr_err d = RIo EEOF /\ dr_partial d = []).
Proof.
  intros client c op n masks w0 s bufs fuel Hnew w'.
  unfold new_writer_size, new_writer_buffer_size in Hnew.
  destruct (new_writer_buffer_fresh _ _ _ _ _ _ Hnew) as (E1 & E2 & E3 & E4 & E5 & E6 & E7 & E8 & E9 & E10).
  assert (Hw: w' = set_extensions [c] w0).
  { subst w'. rewrite run_wops_cons. cbn [run_op]. rewrite flush_nothing by (wsimpl; assumption). reflexivity. }
  split; [rewrite Hw; wsimpl; rewrite E1; reflexivity|].
  intros Hs Htl Hfl Hfuel d.
  pose proof (reader_meets_spec (peer_cfg client) [] s bufs fuel) as H.
  cbv zeta in H. cbn [peer_cfg c_state c_check_utf8 c_max c_ext] in H. fold d in H.
  specialize (H ltac:(unfold wf_cfg; destruct client; cbn; lia) ltac:(constructor) Hs Htl Hfl ltac:(cbn; lia)).
  unfold reader_monitor, expected_events in H. cbn [spec_run sr_events sr_out sr_partial] in H.
  apply andb_true_iff in H. destruct H as [H H3]. apply andb_true_iff in H. destruct H as [H1 H2].
  split; [|split].
  - destruct (dr_events d); [reflexivity|discriminate].
  - unfold err_matches in H2. destruct (dr_err d) as [[| |]| | | | | | | |]; try discriminate. reflexivity.
  - apply bytes_eqb_eq in H3. exact H3.
Qed.
