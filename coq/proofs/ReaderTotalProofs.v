(* ReaderTotalProofs.v — C15 for the message reader: on ARBITRARY bytes (no
   assumption that the stream is the encoding of anything), for every chunking
   and either tail, every decoding entry point of wsutil.Reader returns after
   finitely many steps, each of which consumed input or returned an error.
   The out-of-fuel artefact of the model's loops is excluded by explicit bounds
   in the number of bytes still in the source. *)
Require Import Bytes Stream Utf8Spec Check Frame Cipher Utf8Dfa Extracted Reader
  BytesProofs StreamProofs ReaderInv.
From Coq Require Import ZifyBool ZifyN ZifyNat.
Open Scope N_scope.

(* ------------------------------------------------------------------ io.ReadFull on any source *)
(* whatever the chunking (empty chunks included): the bytes returned and the
   bytes left are the bytes there were; success = exactly [need] bytes *)
Lemma read_full_aux_gen : forall cs need got t,
  let '((r, e), rest) := read_full_aux need got cs t in
  concat cs = r ++ concat rest /\ (e = None -> len r = need) /\ (wf_chunks cs -> wf_chunks rest).
Proof.
  induction cs as [|c cs IH]; intros need got t; cbn [read_full_aux].
  - destruct (need =? 0) eqn:E.
    + repeat split; auto. intros _. rewrite len_nil. lia.
    + repeat split; auto. discriminate.
  - destruct (need =? 0) eqn:E.
    { repeat split; auto. intros _. rewrite len_nil. lia. }
    destruct (need <=? len c) eqn:E1.
    + repeat split.
      * cbn [concat]. destruct (need =? len c) eqn:E2.
        -- rewrite take_all by lia. reflexivity.
        -- cbn [concat]. rewrite app_assoc, take_drop. reflexivity.
      * intros _. rewrite len_take. lia.
      * intros Hwf. inversion Hwf as [|? ? Hc Hcs]; subst.
        destruct (need =? len c) eqn:E2; [assumption|]. constructor; [|assumption].
        intro H. apply (f_equal len) in H. rewrite len_drop, len_nil in H. lia.
    + specialize (IH (need - len c) true t).
      destruct (read_full_aux (need - len c) true cs t) as [[r e] rest].
      destruct IH as (Hc & He & Hw). repeat split.
      * cbn [concat]. rewrite Hc, app_assoc. reflexivity.
      * intros H. rewrite len_app, (He H). lia.
      * intros Hwf. inversion Hwf; subst. auto.
Qed.

Lemma read_full_gen need s :
  let '((r, e), s') := read_full need s in
  flat s = r ++ flat s' /\ (e = None -> len r = need) /\ (wf_src s -> wf_src s') /\ tl s' = tl s.
Proof.
  unfold read_full. pose proof (read_full_aux_gen (chunks s) need false (tl s)) as H.
  destruct (read_full_aux need false (chunks s) (tl s)) as [[r e] rest].
  destruct H as (H1 & H2 & H3). repeat split; assumption.
Qed.

Lemma length_len {A} (l : list A) : length l = N.to_nat (len l).
Proof. unfold len. lia. Qed.

(* one transport Read *)
Lemma read1_gen k s : wf_src s -> 0 < k ->
  let '((b, e), s') := read1 k s in
  flat s = b ++ flat s' /\ wf_src s' /\ (e = None -> b <> []).
Proof.
  intros Hwf Hk. pose proof (read1_props_u k s Hwf Hk) as H.
  assert (Hs: forall e, snd (fst (read1 k s)) = Some e -> snd (read1 k s) = s).
  { unfold read1. destruct (chunks s); [reflexivity|]. destruct (k <? len l); discriminate. }
  destruct (read1 k s) as [[b e] s']. destruct e as [e|].
  - destruct H as (-> & Hf & _). specialize (Hs e eq_refl). cbn [snd] in Hs. subst s'.
    repeat split; auto. discriminate.
  - destruct H as (Hb & Hf & Hw & _). repeat split; auto.
Qed.

(* ------------------------------------------------------------------ header decoding looks at 2..14 bytes *)
Lemma parse_first2_extra b0 b1 : snd (parse_first2 b0 b1) <= 12.
Proof.
  unfold parse_first2. cbn [snd].
  destruct (negb (N.land b1 128 =? 0)); destruct (N.land b1 127 =? 126); destruct (N.land b1 127 =? 127); lia.
Qed.

Lemma rfc_parse_bounded bs h rest : rfc_parse bs = PComplete h rest ->
  (length rest + 2 <= length bs <= length rest + 14)%nat.
Proof.
  destruct bs as [|b0 [|b1 r]]; try discriminate. cbn [rfc_parse]. unfold rfc_parse_tail.
  set (need := extn_of (b1 mod 128) + (if 128 <=? b1 then 4 else 0)).
  assert (Hn: need <= 12).
  { unfold need, extn_of. destruct (128 <=? b1); destruct (b1 mod 128 =? 126); destruct (b1 mod 128 =? 127); lia. }
  destruct (len r <? need) eqn:E; [discriminate|].
  destruct (_ && _); [discriminate|]. intros H. injection H as _ Hr. subst rest.
  rewrite !length_len, len_drop, !len_cons. lia.
Qed.

Lemma rfc_parse_at_most_14 bs h rest : rfc_parse bs = PComplete h rest ->
  (length bs <= length rest + 14)%nat.
Proof. intros H. apply rfc_parse_bounded in H. lia. Qed.

(* the decoder itself, on any source (no well-formedness of chunks or bytes needed) *)
Lemma read_header_gen s :
  let '(hr, s') := read_header s in
  (wf_src s -> wf_src s') /\ tl s' = tl s /\ (length (flat s') <= length (flat s))%nat /\
  (forall h, hr = inr h -> (length (flat s') + 2 <= length (flat s) <= length (flat s') + 14)%nat).
Proof.
  unfold read_header.
  pose proof (read_full_gen 2 s) as R1. destruct (read_full 2 s) as [[b e] s1].
  destruct R1 as (Hf1 & Hl1 & Hw1 & Ht1).
  assert (L1: (length (flat s) = length b + length (flat s1))%nat) by (rewrite Hf1, app_length; reflexivity).
  destruct e as [e|].
  { split; [assumption|]. split; [assumption|]. split; [lia|]. intros h Hq; discriminate Hq. }
  specialize (Hl1 eq_refl). rewrite (length_len b), Hl1 in L1.
  pose proof (parse_first2_extra (nthb b 0) (nthb b 1)) as Hx.
  destruct (parse_first2 (nthb b 0) (nthb b 1)) as [[h l7] extra]. cbn [snd] in Hx.
  destruct (extra =? 0) eqn:E0.
  { split; [assumption|]. split; [assumption|]. split; [lia|]. intros; lia. }
  pose proof (read_full_gen extra s1) as R2. destruct (read_full extra s1) as [[x e2] s2].
  destruct R2 as (Hf2 & Hl2 & Hw2 & Ht2).
  assert (L2: (length (flat s1) = length x + length (flat s2))%nat) by (rewrite Hf2, app_length; reflexivity).
  assert (Ht: tl s2 = tl s) by congruence.
  assert (Hw: wf_src s -> wf_src s2) by auto.
  destruct e2 as [e2|].
  { split; [assumption|]. split; [assumption|]. split; [lia|]. intros h' Hq; discriminate Hq. }
  specialize (Hl2 eq_refl). rewrite (length_len x), Hl2 in L2.
  assert (Hb: (length (flat s2) + 2 <= length (flat s) <= length (flat s2) + 14)%nat) by lia.
  destruct ((l7 =? 127) && negb (N.land (nthb x 0) 128 =? 0)).
  { split; [assumption|]. split; [assumption|]. split; [lia|]. intros h' Hq; discriminate Hq. }
  destruct (if l7 =? 126 then _ else _) as [l x'].
  split; [assumption|]. split; [assumption|]. split; [lia|]. intros; exact Hb.
Qed.

Lemma read_header_at_most_14 s h s' : read_header s = (inr h, s') ->
  (length (flat s) <= length (flat s') + 14)%nat.
Proof.
  intros H. pose proof (read_header_gen s) as G. rewrite H in G.
  destruct G as (_ & _ & _ & G). specialize (G h eq_refl). lia.
Qed.

(* ------------------------------------------------------------------ the measure *)
Definition rlen (r : reader) : nat := length (flat (r_src r)).
(* bytes still in the source, plus one while a frame is being read (the step from
   "payload exhausted" to "between fragments" consumes nothing, and happens once) *)
Definition rmeasure (r : reader) : nat := (rlen r + (if r_frame r then 1 else 0))%nat.

Lemma rlen_app r r' b : flat (r_src r) = b ++ flat (r_src r') -> (rlen r = length b + rlen r')%nat.
Proof. unfold rlen. intros ->. apply app_length. Qed.

(* ------------------------------------------------------------------ layers *)
Lemma raw_read_gen k r : wf_src (r_src r) -> 0 < k ->
  let '((b, e), r') := raw_read k r in
  wf_src (r_src r') /\ r_frame r' = r_frame r /\ (rlen r' <= rlen r)%nat /\ (e = None -> (rlen r' < rlen r)%nat).
Proof.
  intros Hwf Hk. unfold raw_read. destruct (r_rawN r =? 0) eqn:E0.
  { repeat split; auto. discriminate. }
  pose proof (read1_gen (N.min k (r_rawN r)) (r_src r) Hwf ltac:(lia)) as R.
  destruct (read1 (N.min k (r_rawN r)) (r_src r)) as [[b e] s']. destruct R as (Hf & Hw & Hb).
  unfold rlen. rsimpl. rewrite Hf, app_length. repeat split; auto; try lia.
  intros He. assert (Hb': b <> []) by (apply Hb; destruct e as [[| |]|]; [discriminate..|reflexivity]).
  destruct b; [contradiction|]. cbn [length]. lia.
Qed.

Lemma frame_read_gen k r : wf_src (r_src r) -> 0 < k ->
  let '((d, e), r') := frame_read k r in
  wf_src (r_src r') /\ r_frame r' = r_frame r /\ (rlen r' <= rlen r)%nat /\ e <> Some ROutOfFuel /\
  (e = None -> (rlen r' < rlen r)%nat).
Proof.
  intros Hwf Hk. unfold frame_read. pose proof (raw_read_gen k r Hwf Hk) as R.
  destruct (raw_read k r) as [[b e] r1]. destruct R as (Hw & Hfr & Hle & Hlt).
  assert (Hm: forall x : option rerr, option_map RIo x <> Some ROutOfFuel) by (intros [x|]; discriminate).
  assert (Hn: option_map RIo e = None -> e = None) by (destruct e; [discriminate|reflexivity]).
  destruct (r_u8wrap r1).
  - destruct (u8_scan _ _ _ _) as [[st acc] rej]. destruct rej; unfold rlen in *; rsimpl.
    + repeat split; auto; discriminate.
    + repeat split; auto.
  - unfold rlen in *; rsimpl. repeat split; auto.
Qed.

Lemma rat_eof_gen data r2 :
  let '((d, e), r') := rat_eof data r2 in
  r_src r' = r_src r2 /\ e <> Some ROutOfFuel /\ (e = None -> r_frame r' = false).
Proof.
  unfold rat_eof. destruct (negb (r_rawN r2 =? 0)); [repeat split; discriminate|].
  destruct (st_fragmented (r_state r2)); [repeat split; discriminate|].
  destruct (_ && _); repeat split; discriminate.
Qed.

(* one Read while a frame is open *)
Lemma rgo_gen k r : wf_src (r_src r) -> 0 < k ->
  let '((d, e), r') := rgo k r in
  wf_src (r_src r') /\ (rlen r' <= rlen r)%nat /\ e <> Some ROutOfFuel /\
  (e = None -> (rlen r' < rlen r)%nat \/ r_frame r' = false).
Proof.
  intros Hwf Hk. unfold rgo. pose proof (frame_read_gen k r Hwf Hk) as R.
  destruct (frame_read k r) as [[data e] r2]. destruct R as (Hw & Hfr & Hle & Hno & Hlt).
  pose proof (rat_eof_gen data r2) as A.
  assert (HA: let '((d, e'), r') := rat_eof data r2 in
              wf_src (r_src r') /\ (rlen r' <= rlen r)%nat /\ e' <> Some ROutOfFuel /\
              (e' = None -> (rlen r' < rlen r)%nat \/ r_frame r' = false)).
  { destruct (rat_eof data r2) as [[d e'] r']. destruct A as (Hs & Hn' & Hf').
    unfold rlen in *. rewrite Hs. repeat split; auto. }
  destruct e as [e|].
  - destruct e as [[| |]| | | | | | | |]; try exact HA; repeat split; auto; try discriminate.
  - specialize (Hlt eq_refl). destruct (negb (r_rawN r2 =? 0)).
    + repeat split; auto; try discriminate.
    + destruct (rat_eof data r2) as [[d e'] r']. destruct A as (Hs & Hn' & Hf').
      unfold rlen in *. rewrite Hs. repeat split; auto.
Qed.

(* the drain and the read-all callback: io.ReadFull of the announced payload *)
Lemma raw_drain_gen r :
  let '(e, r') := raw_drain r in
  (wf_src (r_src r) -> wf_src (r_src r')) /\ r_frame r' = r_frame r /\ (rlen r' <= rlen r)%nat.
Proof.
  unfold raw_drain. pose proof (read_full_gen (r_rawN r) (r_src r)) as R.
  destruct (read_full (r_rawN r) (r_src r)) as [[b e] s']. destruct R as (Hf & _ & Hw & _).
  assert (Hl: (length (flat s') <= rlen r)%nat) by (unfold rlen; rewrite Hf, app_length; lia).
  destruct e as [[| |]|]; unfold rlen in *; rsimpl; repeat split; auto.
Qed.

Lemma cb_read_all_gen h m key r :
  let '(e, r') := cb_read_all h m key r in
  (wf_src (r_src r) -> wf_src (r_src r')) /\ r_frame r' = r_frame r /\ (rlen r' <= rlen r)%nat /\
  e <> Some ROutOfFuel.
Proof.
  unfold cb_read_all. pose proof (read_full_gen (r_rawN r) (r_src r)) as R.
  destruct (read_full (r_rawN r) (r_src r)) as [[b e] s']. destruct R as (Hf & _ & Hw & _).
  assert (Hl: (length (flat s') <= rlen r)%nat) by (unfold rlen; rewrite Hf, app_length; lia).
  destruct e as [[| |]|]; unfold rlen in *; rsimpl; repeat split; auto; discriminate.
Qed.
