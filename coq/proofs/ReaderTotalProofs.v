(* ReaderTotalProofs.v — C15 for the message reader: on ARBITRARY bytes (no
   assumption that the stream is the encoding of anything), for every chunking
   and either tail, every decoding entry point of wsutil.Reader returns after
   finitely many steps, each of which consumed input or returned an error.
   The out-of-fuel artefact of the model's loops is excluded by explicit bounds
   in the number of bytes still in the source. *)
Require Import Bytes Stream Utf8Spec Check Frame Cipher Utf8Dfa Extracted Reader
  BytesProofs StreamProofs ReaderInv.
From Coq Require Import ZifyBool ZifyN ZifyNat.
Open Scope N_scope.

(* ------------------------------------------------------------------ io.ReadFull on any source *)
(* whatever the chunking (empty chunks included): the bytes returned and the
   bytes left are the bytes there were; success = exactly [need] bytes *)
Lemma read_full_aux_gen : forall cs need got t,
  let '((r, e), rest) := read_full_aux need got cs t in
  concat cs = r ++ concat rest /\ (e = None -> len r = need) /\ (wf_chunks cs -> wf_chunks rest).
Proof.
  induction cs as [|c cs IH]; intros need got t; cbn [read_full_aux].
  - destruct (need =? 0) eqn:E.
    + repeat split; auto. intros _. rewrite len_nil. lia.
    + repeat split; auto. discriminate.
  - destruct (need =? 0) eqn:E.
    { repeat split; auto. intros _. rewrite len_nil. lia. }
    destruct (need <=? len c) eqn:E1.
    + repeat split.
      * cbn [concat]. destruct (need =? len c) eqn:E2.
        -- rewrite take_all by lia. reflexivity.
        -- cbn [concat]. rewrite app_assoc, take_drop. reflexivity.
      * intros _. rewrite len_take. lia.
      * intros Hwf. inversion Hwf as [|? ? Hc Hcs]; subst.
        destruct (need =? len c) eqn:E2; [assumption|]. constructor; [|assumption].
        intro H. apply (f_equal len) in H. rewrite len_drop, len_nil in H. lia.
    + specialize (IH (need - len c) (got || negb (len c =? 0)) t).
      destruct (read_full_aux (need - len c) (got || negb (len c =? 0)) cs t) as [[r e] rest].
      destruct IH as (Hc & He & Hw). repeat split.
      * cbn [concat]. rewrite Hc, app_assoc. reflexivity.
      * intros H. rewrite len_app, (He H). lia.
      * intros Hwf. inversion Hwf; subst. auto.
Qed.

Lemma read_full_gen need s :
  let '((r, e), s') := read_full need s in
  flat s = r ++ flat s' /\ (e = None -> len r = need) /\ (wf_src s -> wf_src s') /\ tl s' = tl s.
Proof.
  unfold read_full. pose proof (read_full_aux_gen (chunks s) need false (tl s)) as H.
  destruct (read_full_aux need false (chunks s) (tl s)) as [[r e] rest].
  destruct H as (H1 & H2 & H3). repeat split; assumption.
Qed.

Lemma length_len {A} (l : list A) : length l = N.to_nat (len l).
Proof. unfold len. lia. Qed.

(* one transport Read *)
Lemma read1_gen k s : wf_src s -> 0 < k ->
  let '((b, e), s') := read1 k s in
  flat s = b ++ flat s' /\ wf_src s' /\ (e = None -> b <> []).
Proof.
  intros Hwf Hk. pose proof (read1_props_u k s Hwf Hk) as H.
  assert (Hs: forall e, snd (fst (read1 k s)) = Some e -> snd (read1 k s) = s).
  { unfold read1. destruct (chunks s); [reflexivity|]. destruct (k <? len l); discriminate. }
  destruct (read1 k s) as [[b e] s']. destruct e as [e|].
  - destruct H as (-> & Hf & _). specialize (Hs e eq_refl). cbn [snd] in Hs. subst s'.
    repeat split; auto. discriminate.
  - destruct H as (Hb & Hf & Hw & _). repeat split; auto.
Qed.

(* ------------------------------------------------------------------ header decoding looks at 2..14 bytes *)
Lemma parse_first2_extra b0 b1 : snd (parse_first2 b0 b1) <= 12.
Proof.
  unfold parse_first2. cbn [snd].
  destruct (negb (N.land b1 128 =? 0)); destruct (N.land b1 127 =? 126); destruct (N.land b1 127 =? 127); lia.
Qed.

Lemma rfc_parse_bounded bs h rest : rfc_parse bs = PComplete h rest ->
  (length rest + 2 <= length bs <= length rest + 14)%nat.
Proof.
  destruct bs as [|b0 [|b1 r]]; try discriminate. cbn [rfc_parse]. unfold rfc_parse_tail.
  set (need := extn_of (b1 mod 128) + (if 128 <=? b1 then 4 else 0)).
  assert (Hn: need <= 12).
  { unfold need, extn_of. destruct (128 <=? b1); destruct (b1 mod 128 =? 126); destruct (b1 mod 128 =? 127); lia. }
  destruct (len r <? need) eqn:E; [discriminate|].
  destruct (_ && _); [discriminate|]. intros H. injection H as _ Hr. subst rest.
  rewrite !length_len, len_drop, !len_cons. lia.
Qed.

Lemma rfc_parse_at_most_14 bs h rest : rfc_parse bs = PComplete h rest ->
  (length bs <= length rest + 14)%nat.
Proof. intros H. apply rfc_parse_bounded in H. lia. Qed.

(* the decoder itself, on any source (no well-formedness of chunks or bytes needed) *)
Lemma read_header_gen s :
  let '(hr, s') := read_header s in
  (wf_src s -> wf_src s') /\ tl s' = tl s /\ (length (flat s') <= length (flat s))%nat /\
  (forall h, hr = inr h -> (length (flat s') + 2 <= length (flat s) <= length (flat s') + 14)%nat).
Proof.
  unfold read_header.
  pose proof (read_full_gen 2 s) as R1. destruct (read_full 2 s) as [[b e] s1].
  destruct R1 as (Hf1 & Hl1 & Hw1 & Ht1).
  assert (L1: (length (flat s) = length b + length (flat s1))%nat) by (rewrite Hf1, app_length; reflexivity).
  destruct e as [e|].
  { split; [assumption|]. split; [assumption|]. split; [lia|]. intros h Hq; discriminate Hq. }
  specialize (Hl1 eq_refl). rewrite (length_len b), Hl1 in L1.
  pose proof (parse_first2_extra (nthb b 0) (nthb b 1)) as Hx.
  destruct (parse_first2 (nthb b 0) (nthb b 1)) as [[h l7] extra]. cbn [snd] in Hx.
  destruct (extra =? 0) eqn:E0.
  { split; [assumption|]. split; [assumption|]. split; [lia|]. intros; lia. }
  pose proof (read_full_gen extra s1) as R2. destruct (read_full extra s1) as [[x e2] s2].
  destruct R2 as (Hf2 & Hl2 & Hw2 & Ht2).
  assert (L2: (length (flat s1) = length x + length (flat s2))%nat) by (rewrite Hf2, app_length; reflexivity).
  assert (Ht: tl s2 = tl s) by congruence.
  assert (Hw: wf_src s -> wf_src s2) by auto.
  destruct e2 as [e2|].
  { split; [assumption|]. split; [assumption|]. split; [lia|]. intros h' Hq; discriminate Hq. }
  specialize (Hl2 eq_refl). rewrite (length_len x), Hl2 in L2.
  assert (Hb: (length (flat s2) + 2 <= length (flat s) <= length (flat s2) + 14)%nat) by lia.
  destruct ((l7 =? 127) && negb (N.land (nthb x 0) 128 =? 0)).
  { split; [assumption|]. split; [assumption|]. split; [lia|]. intros h' Hq; discriminate Hq. }
  destruct (if l7 =? 126 then _ else _) as [l x'].
  split; [assumption|]. split; [assumption|]. split; [lia|]. intros; exact Hb.
Qed.

Lemma read_header_at_most_14 s h s' : read_header s = (inr h, s') ->
  (length (flat s) <= length (flat s') + 14)%nat.
Proof.
  intros H. pose proof (read_header_gen s) as G. rewrite H in G.
  destruct G as (_ & _ & _ & G). specialize (G h eq_refl). lia.
Qed.

(* ------------------------------------------------------------------ the measure *)
Definition rlen (r : reader) : nat := length (flat (r_src r)).
(* bytes still in the source, plus one while a frame is being read (the step from
   "payload exhausted" to "between fragments" consumes nothing, and happens once) *)
Definition rmeasure (r : reader) : nat := (rlen r + (if r_frame r then 1 else 0))%nat.

Lemma rlen_app r r' b : flat (r_src r) = b ++ flat (r_src r') -> (rlen r = length b + rlen r')%nat.
Proof. unfold rlen. intros ->. apply app_length. Qed.

(* ------------------------------------------------------------------ layers *)
Lemma raw_read_gen k r : wf_src (r_src r) -> 0 < k ->
  let '((b, e), r') := raw_read k r in
  wf_src (r_src r') /\ r_frame r' = r_frame r /\ (rlen r' <= rlen r)%nat /\ (e = None -> (rlen r' < rlen r)%nat).
Proof.
  intros Hwf Hk. unfold raw_read. destruct (r_rawN r =? 0) eqn:E0.
  { repeat split; auto. discriminate. }
  pose proof (read1_gen (N.min k (r_rawN r)) (r_src r) Hwf ltac:(lia)) as R.
  destruct (read1 (N.min k (r_rawN r)) (r_src r)) as [[b e] s']. destruct R as (Hf & Hw & Hb).
  unfold rlen. rsimpl. rewrite Hf, app_length. repeat split; auto; try lia.
  intros He. assert (Hb': b <> []) by (apply Hb; destruct e as [[| |]|]; [discriminate..|reflexivity]).
  destruct b; [contradiction|]. cbn [length]. lia.
Qed.

Lemma frame_read_gen k r : wf_src (r_src r) -> 0 < k ->
  let '((d, e), r') := frame_read k r in
  wf_src (r_src r') /\ r_frame r' = r_frame r /\ (rlen r' <= rlen r)%nat /\ e <> Some ROutOfFuel /\
  (e = None -> (rlen r' < rlen r)%nat).
Proof.
  intros Hwf Hk. unfold frame_read. pose proof (raw_read_gen k r Hwf Hk) as R.
  destruct (raw_read k r) as [[b e] r1]. destruct R as (Hw & Hfr & Hle & Hlt).
  assert (Hm: forall x : option rerr, option_map RIo x <> Some ROutOfFuel) by (intros [x|]; discriminate).
  assert (Hn: option_map RIo e = None -> e = None) by (destruct e; [discriminate|reflexivity]).
  destruct (r_u8wrap r1).
  - destruct (u8_scan _ _ _ _) as [[st acc] rej]. destruct rej; unfold rlen in *; rsimpl.
    + repeat split; auto; discriminate.
    + repeat split; auto.
  - unfold rlen in *; rsimpl. repeat split; auto.
Qed.

Lemma rat_eof_gen data r2 :
  let '((d, e), r') := rat_eof data r2 in
  r_src r' = r_src r2 /\ e <> Some ROutOfFuel /\ (e = None -> r_frame r' = false).
Proof.
  unfold rat_eof. destruct (negb (r_rawN r2 =? 0)); [repeat split; discriminate|].
  destruct (st_fragmented (r_state r2)); [repeat split; discriminate|].
  destruct (_ && _); repeat split; discriminate.
Qed.

(* one Read while a frame is open *)
Lemma rgo_gen k r : wf_src (r_src r) -> 0 < k ->
  let '((d, e), r') := rgo k r in
  wf_src (r_src r') /\ (rlen r' <= rlen r)%nat /\ e <> Some ROutOfFuel /\
  (e = None -> (rlen r' < rlen r)%nat \/ r_frame r' = false).
Proof.
  intros Hwf Hk. unfold rgo. pose proof (frame_read_gen k r Hwf Hk) as R.
  destruct (frame_read k r) as [[data e] r2]. destruct R as (Hw & Hfr & Hle & Hno & Hlt).
  pose proof (rat_eof_gen data r2) as A.
  assert (HA: let '((d, e'), r') := rat_eof data r2 in
              wf_src (r_src r') /\ (rlen r' <= rlen r)%nat /\ e' <> Some ROutOfFuel /\
              (e' = None -> (rlen r' < rlen r)%nat \/ r_frame r' = false)).
  { destruct (rat_eof data r2) as [[d e'] r']. destruct A as (Hs & Hn' & Hf').
    unfold rlen in *. rewrite Hs. repeat split; auto. }
  destruct e as [e|].
  - destruct e as [[| |]| | | | | | | |]; try exact HA; repeat split; auto; try discriminate.
  - specialize (Hlt eq_refl). destruct (negb (r_rawN r2 =? 0)).
    + repeat split; auto; try discriminate.
    + destruct (rat_eof data r2) as [[d e'] r']. destruct A as (Hs & Hn' & Hf').
      unfold rlen in *. rewrite Hs. repeat split; auto.
Qed.

(* the drain and the read-all callback: io.ReadFull of the announced payload *)
Lemma raw_drain_gen r :
  let '(e, r') := raw_drain r in
  (wf_src (r_src r) -> wf_src (r_src r')) /\ r_frame r' = r_frame r /\ (rlen r' <= rlen r)%nat.
Proof.
  unfold raw_drain. pose proof (read_full_gen (r_rawN r) (r_src r)) as R.
  destruct (read_full (r_rawN r) (r_src r)) as [[b e] s']. destruct R as (Hf & _ & Hw & _).
  assert (Hl: (length (flat s') <= rlen r)%nat) by (unfold rlen; rewrite Hf, app_length; lia).
  destruct e as [[| |]|]; unfold rlen in *; rsimpl; repeat split; auto.
Qed.

Lemma cb_read_all_gen h m key r :
  let '(e, r') := cb_read_all h m key r in
  (wf_src (r_src r) -> wf_src (r_src r')) /\ r_frame r' = r_frame r /\ (rlen r' <= rlen r)%nat /\
  e <> Some ROutOfFuel.
Proof.
  unfold cb_read_all. pose proof (read_full_gen (r_rawN r) (r_src r)) as R.
  destruct (read_full (r_rawN r) (r_src r)) as [[b e] s']. destruct R as (Hf & _ & Hw & _).
  assert (Hl: (length (flat s') <= rlen r)%nat) by (unfold rlen; rewrite Hf, app_length; lia).
  destruct e as [[| |]|]; unfold rlen in *; rsimpl; repeat split; auto; discriminate.
Qed.

(* ------------------------------------------------------------------ NextFrame *)
(* on any bytes: never longer, an error is a real error, success ate a header *)
Lemma next_frame_gen r :
  let '((h, e), r') := next_frame r in
  (wf_src (r_src r) -> wf_src (r_src r')) /\ (rlen r' <= rlen r)%nat /\ e <> Some ROutOfFuel /\
  (e = None -> (rlen r' + 2 <= rlen r)%nat).
Proof.
  unfold next_frame. change (reader_read_header (r_src r)) with (read_header (r_src r)).
  pose proof (read_header_gen (r_src r)) as G. destruct (read_header (r_src r)) as [hr s1].
  destruct G as (Hw & _ & Hle & Hok). fold (rlen r) in Hle, Hok.
  destruct hr as [e|hdr].
  { unfold rlen at 1. rsimpl. repeat split; auto; try discriminate.
    destruct e as [[| |]| |]; try discriminate. destruct (st_fragmented (r_state r)); discriminate. }
  specialize (Hok hdr eq_refl). destruct Hok as [Hok _].
  destruct (if r_skip r then None else check_header hdr (r_state r)) as [rl|].
  { unfold rlen at 1 2. rsimpl. repeat split; auto; discriminate. }
  destruct ((0 <? r_max r)%Z && (r_max r <? h_len hdr)%Z).
  { unfold rlen at 1 2. rsimpl. repeat split; auto; discriminate. }
  destruct (if r_ext r then unset_bits hdr (r_compressed r) else Some (hdr, r_compressed r)) as [[hdr' comp']|].
  2: { unfold rlen at 1 2. rsimpl. repeat split; auto; discriminate. }
  destruct (st_fragmented (r_state r) && op_is_control (h_op hdr')).
  2: { unfold rlen at 1 2. rsimpl. repeat split; auto; discriminate. }
  set (r3 := mkR s1 _ _ _ _ _ _ _ _ _ _ _ _ _ _ _ _ _).
  assert (H3: (wf_src (r_src r) -> wf_src (r_src r3)) /\ (rlen r3 + 2 <= rlen r)%nat) by (split; assumption).
  destruct H3 as [Hw3 Hl3].
  assert (H4: let '(e, r4) := match r_cb r with CbNone => (None, r3)
                               | CbReadAll => cb_read_all hdr' (h_masked hdr) (if h_masked hdr then h_mask hdr else r_key (set_src r s1)) r3 end in
              (wf_src (r_src r) -> wf_src (r_src r4)) /\ (rlen r4 + 2 <= rlen r)%nat /\ e <> Some ROutOfFuel).
  { destruct (r_cb r).
    - repeat split; auto; discriminate.
    - pose proof (cb_read_all_gen hdr' (h_masked hdr) (if h_masked hdr then h_mask hdr else r_key (set_src r s1)) r3) as C.
      destruct (cb_read_all _ _ _ r3) as [e r4]. destruct C as (C1 & _ & C3 & C4).
      repeat split; auto. clear -C3 Hl3. lia. }
  destruct (match r_cb r with CbNone => _ | CbReadAll => _ end) as [e r4].
  destruct H4 as (Hw4 & Hl4 & Hn4).
  destruct e as [e|].
  { repeat split; auto; try discriminate. clear -Hl4. lia. }
  pose proof (raw_drain_gen r4) as D. destruct (raw_drain r4) as [e2 r5]. destruct D as (D1 & _ & D3).
  repeat split; auto; try (clear -Hl4 D3; lia). destruct e2; discriminate.
Qed.

(* ------------------------------------------------------------------ Read: every call makes progress *)
Lemma reader_read_gen k r : wf_src (r_src r) -> 0 < k ->
  let '((d, e), r') := reader_read k r in
  wf_src (r_src r') /\ (rlen r' <= rlen r)%nat /\ e <> Some ROutOfFuel /\
  (e = None -> (rmeasure r' < rmeasure r)%nat).
Proof.
  intros Hwf Hk. rewrite reader_read_eq. unfold rmeasure. destruct (r_frame r) eqn:Efr.
  - pose proof (rgo_gen k r Hwf Hk) as R. destruct (rgo k r) as [[d e] r'].
    destruct R as (Hw & Hle & Hn & Hp). repeat split; auto.
    intros He. destruct (Hp He) as [Hlt|Hf]; [destruct (r_frame r'); lia|rewrite Hf; lia].
  - destruct (negb (st_fragmented (r_state r))).
    { repeat split; auto; discriminate. }
    pose proof (next_frame_gen r) as F. destruct (next_frame r) as [[h e] r1].
    destruct F as (Hw1 & Hle1 & Hn1 & Hok1). specialize (Hw1 Hwf).
    destruct e as [e|].
    { repeat split; auto; discriminate. }
    specialize (Hok1 eq_refl). destruct (r_frame r1) eqn:Efr1.
    + pose proof (rgo_gen k r1 Hw1 Hk) as R. destruct (rgo k r1) as [[d e] r'].
      destruct R as (Hw & Hle & Hn & Hp). repeat split; auto; [lia|].
      intros _. destruct (r_frame r'); lia.
    + repeat split; auto; try discriminate. intros _. rewrite Efr1. lia.
Qed.

(* the statement of C15 for Read, spelled out *)
Theorem every_read_makes_progress : forall k r d e r',
  wf_src (r_src r) -> 0 < k -> reader_read k r = ((d, e), r') ->
  wf_src (r_src r') /\
  (length (flat (r_src r')) <= length (flat (r_src r)))%nat /\
  e <> Some ROutOfFuel /\
  (e = None -> (rmeasure r' < rmeasure r)%nat).
Proof.
  intros k r d e r' Hwf Hk H. pose proof (reader_read_gen k r Hwf Hk) as G. rewrite H in G. exact G.
Qed.

(* in the words of the property: a Read that returns no error either consumed
   transport bytes, or closed the frame it was reading (which it can do once:
   the next Read must consume a header or fail) *)
Theorem read_progress_cases : forall k r d r',
  wf_src (r_src r) -> 0 < k -> reader_read k r = ((d, None), r') ->
  (length (flat (r_src r')) < length (flat (r_src r)))%nat \/
  (length (flat (r_src r')) = length (flat (r_src r)) /\ r_frame r = true /\ r_frame r' = false).
Proof.
  intros k r d r' Hwf Hk H. destruct (every_read_makes_progress k r d None r' Hwf Hk H) as (_ & Hle & _ & Hm).
  specialize (Hm eq_refl). unfold rmeasure, rlen in Hm.
  destruct (r_frame r), (r_frame r'); try (left; lia).
  destruct (Nat.eq_dec (length (flat (r_src r'))) (length (flat (r_src r)))) as [E|E]; [right; auto|left; lia].
Qed.

(* ------------------------------------------------------------------ read to io.EOF *)
Lemma next_buf_positive bufs all : 0 < fst (next_buf bufs all).
Proof.
  unfold next_buf. destruct bufs as [|k b]; [destruct all as [|k b]|]; cbn [fst];
    try (destruct (k =? 0) eqn:E; lia); reflexivity.
Qed.

Lemma read_to_eof_gen : forall fuel bufs all r racc, wf_src (r_src r) -> (rmeasure r < fuel)%nat ->
  let '((p, e), r') := read_to_eof fuel bufs all r racc in
  e <> ROutOfFuel /\ wf_src (r_src r') /\ (rlen r' <= rlen r)%nat.
Proof.
  induction fuel as [|fuel IH]; intros bufs all r racc Hwf Hm; [lia|].
  cbn [read_to_eof]. pose proof (next_buf_positive bufs all) as Hk.
  destruct (next_buf bufs all) as [k bufs']. cbn [fst] in Hk.
  pose proof (reader_read_gen k r Hwf Hk) as R. destruct (reader_read k r) as [[d e] r1].
  destruct R as (Hw1 & Hle1 & Hn1 & Hp1). destruct e as [e|].
  - repeat split; auto. intros ->. apply Hn1. reflexivity.
  - specialize (Hp1 eq_refl). specialize (IH bufs' all r1 (d :: racc) Hw1 ltac:(lia)).
    destruct (read_to_eof fuel bufs' all r1 (d :: racc)) as [[p e] r'].
    destruct IH as (I1 & I2 & I3). repeat split; auto. lia.
Qed.

Theorem read_to_eof_terminates : forall fuel bufs all r racc,
  wf_src (r_src r) -> (rmeasure r < fuel)%nat ->
  snd (fst (read_to_eof fuel bufs all r racc)) <> ROutOfFuel.
Proof.
  intros fuel bufs all r racc Hwf Hm. pose proof (read_to_eof_gen fuel bufs all r racc Hwf Hm) as G.
  destruct (read_to_eof fuel bufs all r racc) as [[p e] r']. cbn [fst snd]. apply G.
Qed.

(* ------------------------------------------------------------------ the NextFrame / Read loop on arbitrary input *)
Lemma drive_gen bufs : forall fuel r, wf_src (r_src r) -> (rlen r + 1 <= fuel)%nat ->
  dr_err (drive fuel bufs r) <> ROutOfFuel.
Proof.
  induction fuel as [|fuel IH]; intros r Hwf Hf; [lia|].
  cbn [drive]. pose proof (next_frame_gen r) as F. destruct (next_frame r) as [[h e] r1].
  destruct F as (Hw1 & Hle1 & Hn1 & Hok1). specialize (Hw1 Hwf).
  destruct e as [e|].
  { cbn [dr_err]. intros ->. apply Hn1. reflexivity. }
  specialize (Hok1 eq_refl).
  assert (Hm: (rmeasure r1 < S fuel)%nat) by (unfold rmeasure; destruct (r_frame r1); lia).
  pose proof (read_to_eof_gen (S fuel) bufs bufs r1 [] Hw1 Hm) as T.
  destruct (read_to_eof (S fuel) bufs bufs r1 []) as [[p e2] r2]. destruct T as (Hn2 & Hw2 & Hle2).
  destruct e2 as [[| |]| | | | | | | |]; cbn [dr_err]; try discriminate; try (exfalso; apply Hn2; reflexivity).
  apply IH.
  - exact Hw2.
  - unfold rlen in *. rsimpl. lia.
Qed.

Theorem drive_total : forall s state skip chk max ext cb bufs fuel,
  wf_src s -> (length (flat s) + 1 <= fuel)%nat ->
  dr_err (drive fuel bufs (new_reader s state skip chk max ext cb)) <> ROutOfFuel.
Proof. intros. apply drive_gen; assumption. Qed.

(* from ANY reader state, not only a fresh one *)
Theorem drive_total_any_state : forall r bufs fuel,
  wf_src (r_src r) -> (length (flat (r_src r)) + 1 <= fuel)%nat ->
  dr_err (drive fuel bufs r) <> ROutOfFuel.
Proof. intros. apply drive_gen; assumption. Qed.

(* ------------------------------------------------------------------ Discard *)
(* every iteration of Discard's loop consumes a header; no assumption on the
   chunking at all *)
Lemma discard_gen : forall fuel r, (rlen r + 1 <= fuel)%nat ->
  fst (discard fuel r) <> Some ROutOfFuel.
Proof.
  induction fuel as [|fuel IH]; intros r Hf; [lia|].
  cbn [discard]. pose proof (raw_drain_gen r) as D. destruct (raw_drain r) as [e r1].
  destruct D as (_ & _ & Hle1). destruct e as [e|]; [cbn [fst]; discriminate|].
  destruct (negb (st_fragmented (r_state r1))); [cbn [fst]; discriminate|].
  pose proof (next_frame_gen r1) as F. destruct (next_frame r1) as [[h e2] r2].
  destruct F as (_ & Hle2 & Hn2 & Hok2). destruct e2 as [e2|].
  { cbn [fst]. intros H. apply Hn2. exact H. }
  specialize (Hok2 eq_refl). apply IH. lia.
Qed.

Theorem discard_total : forall r,
  fst (discard (S (length (flat (r_src r)))) r) <> Some ROutOfFuel.
Proof. intros r. apply discard_gen. unfold rlen. lia. Qed.

(* ------------------------------------------------------------------ helper.go:ReadMessage, repeated *)
Lemma read_full_rd_gen : forall fuel need got r racc, wf_src (r_src r) -> (rmeasure r < fuel)%nat ->
  let '((p, e), r') := read_full_rd fuel need got r racc in
  e <> Some ROutOfFuel /\ wf_src (r_src r') /\ (rlen r' <= rlen r)%nat.
Proof.
  induction fuel as [|fuel IH]; intros need got r racc Hwf Hm; [lia|].
  cbn [read_full_rd]. destruct (need =? 0) eqn:E0.
  { repeat split; auto. discriminate. }
  pose proof (reader_read_gen need r Hwf ltac:(lia)) as R. destruct (reader_read need r) as [[d e] r1].
  destruct R as (Hw1 & Hle1 & Hn1 & Hp1). destruct e as [e|].
  - destruct (need <=? len d); [repeat split; auto; discriminate|].
    repeat split; auto. intros H. apply Hn1.
    destruct e as [[| |]| | | | | | | |]; try discriminate H; [|reflexivity].
    destruct (got + len d =? 0); discriminate H.
  - specialize (Hp1 eq_refl). specialize (IH (need - len d) (got + len d) r1 (d :: racc) Hw1 ltac:(lia)).
    destruct (read_full_rd fuel (need - len d) (got + len d) r1 (d :: racc)) as [[p e] r'].
    destruct IH as (I1 & I2 & I3). repeat split; auto. lia.
Qed.

Lemma read_message_gen fuel bufs s state : wf_src s -> (length (flat s) + 1 <= fuel)%nat ->
  let '((evs, e), s') := read_message fuel bufs s state in
  e <> Some ROutOfFuel /\ wf_src s' /\ (e = None -> (length (flat s') + 2 <= length (flat s))%nat).
Proof.
  intros Hwf Hf. unfold read_message.
  set (r := new_reader s state false true 0 false CbReadAll).
  pose proof (next_frame_gen r) as F. destruct (next_frame r) as [[h e] r1].
  destruct F as (Hw1 & Hle1 & Hn1 & Hok1). specialize (Hw1 Hwf).
  change (rlen r) with (length (flat s)) in *.
  destruct e as [e|].
  { repeat split; auto; discriminate. }
  specialize (Hok1 eq_refl).
  assert (Hm: (rmeasure r1 < fuel)%nat) by (unfold rmeasure; destruct (r_frame r1); lia).
  pose proof (read_to_eof_gen fuel bufs bufs r1 [] Hw1 Hm) as T.
  destruct (read_to_eof fuel bufs bufs r1 []) as [[p e2] r2]. destruct T as (Hn2 & Hw2 & Hle2).
  destruct e2 as [[| |]| | | | | | | |]; repeat split; auto; try discriminate;
    try (intros _; unfold rlen in *; lia).
Qed.

Lemma read_messages_gen bufs state : forall fuel s acc, wf_src s -> (length (flat s) + 1 <= fuel)%nat ->
  snd (read_messages fuel bufs s state acc) <> ROutOfFuel.
Proof.
  induction fuel as [|fuel IH]; intros s acc Hwf Hf; [lia|].
  cbn [read_messages]. pose proof (read_message_gen (S fuel) bufs s state Hwf Hf) as M.
  destruct (read_message (S fuel) bufs s state) as [[evs e] s']. destruct M as (Hn & Hw & Hok).
  destruct e as [e|].
  - cbn [snd]. intros ->. apply Hn. reflexivity.
  - specialize (Hok eq_refl). apply IH; [exact Hw|lia].
Qed.

Theorem read_messages_total : forall fuel bufs s state acc,
  wf_src s -> (length (flat s) + 1 <= fuel)%nat ->
  snd (read_messages fuel bufs s state acc) <> ROutOfFuel.
Proof. intros. apply read_messages_gen; assumption. Qed.

Theorem read_message_total : forall fuel bufs s state,
  wf_src s -> (length (flat s) + 1 <= fuel)%nat ->
  snd (fst (read_message fuel bufs s state)) <> Some ROutOfFuel.
Proof.
  intros fuel bufs s state Hwf Hf. pose proof (read_message_gen fuel bufs s state Hwf Hf) as M.
  destruct (read_message fuel bufs s state) as [[evs e] s']. cbn [fst snd]. apply M.
Qed.

(* ------------------------------------------------------------------ arbitrary operation sequences *)
Lemma discard_wf : forall fuel r, wf_src (r_src r) -> wf_src (r_src (snd (discard fuel r))).
Proof.
  induction fuel as [|fuel IH]; intros r Hwf; [exact Hwf|].
  cbn [discard]. pose proof (raw_drain_gen r) as D. destruct (raw_drain r) as [e r1].
  destruct D as (Hw1 & _ & _). specialize (Hw1 Hwf). destruct e as [e|]; [exact Hw1|].
  destruct (negb (st_fragmented (r_state r1))); [exact Hw1|].
  pose proof (next_frame_gen r1) as F. destruct (next_frame r1) as [[h e2] r2].
  destruct F as (Hw2 & _). specialize (Hw2 Hw1). destruct e2 as [e2|]; [exact Hw2|]. apply IH, Hw2.
Qed.

Definition rout_err (o : rout) : option rerror :=
  match o with OutNext _ e => e | OutRead _ e => e | OutDiscard e => e end.

(* any interleaving of NextFrame / Read / Discard calls on one Reader over any
   bytes: every call returns, none with the out-of-fuel artefact *)
Theorem run_script_total : forall ops r, wf_src (r_src r) ->
  Forall (fun o => rout_err o <> Some ROutOfFuel) (fst (run_script ops r)).
Proof.
  induction ops as [|op ops IH]; intros r Hwf; cbn [run_script]; [constructor|].
  assert (H: let '(o, r1) := match op with
      | OpNext => let '((h, e), r1) := next_frame r in (OutNext h e, r1)
      | OpRead k => let '((d, e), r1) := reader_read (if k =? 0 then 1 else k) r in (OutRead d e, r1)
      | OpDiscard => let '(e, r1) := discard (S (length (flat (r_src r)))) r in (OutDiscard e, r1)
      end in rout_err o <> Some ROutOfFuel /\ wf_src (r_src r1)).
  { destruct op as [|k|].
    - pose proof (next_frame_gen r) as F. destruct (next_frame r) as [[h e] r1].
      destruct F as (Hw & _ & Hn & _). split; [exact Hn|exact (Hw Hwf)].
    - pose proof (reader_read_gen (if k =? 0 then 1 else k) r Hwf ltac:(destruct (k =? 0) eqn:E; lia)) as R.
      destruct (reader_read (if k =? 0 then 1 else k) r) as [[d e] r1].
      destruct R as (Hw & _ & Hn & _). split; [exact Hn|exact Hw].
    - pose proof (discard_total r) as D. pose proof (discard_wf (S (length (flat (r_src r)))) r Hwf) as W.
      destruct (discard (S (length (flat (r_src r)))) r) as [e r1]. split; [exact D|exact W]. }
  destruct (match op with OpNext => _ | OpRead k => _ | OpDiscard => _ end) as [o r1].
  destruct H as [Ho Hw1]. specialize (IH r1 Hw1). destruct (run_script ops r1) as [os r2].
  cbn [fst] in *. constructor; assumption.
Qed.
