(* HsDialerProofs.v — proofs for C10 (and the flat-stream lemma reused by C11). *)
Require Import Bytes HsBase64 HsSha1 HsBufio HsBufioProofs HsHttpHead HsHttp HsUpgrader HsUpgraderProofs HsDialer.
From Coq Require Import ZifyBool ZifyN ZifyNat Btauto.
From Coq Require String.
Import String.StringSyntax.
Local Open Scope string_scope.
Local Open Scope list_scope.
Open Scope N_scope.

(* ================= 1. Dialer.Upgrade over any chunking = over the flat stream *)
Theorem dialer_flat : forall cfg url_host uri nonce B r, 1 <= B ->
  let res := dialer_upgrade cfg url_host uri nonce B r in
  let '(hs, e, unread) := dialer_upgrade_lines cfg nonce (fst (raw_lines (flat r))) (snd (raw_lines (flat r))) (r_tail r) in
  d_hs res = hs /\ d_err res = e
  /\ d_request res = write_upgrade_request cfg url_host uri nonce
  /\ match unread with
     | Some unread_lines => flat (d_reader res) = concat unread_lines ++ snd (raw_lines (flat r))
                    /\ r_tail (d_reader res) = r_tail r
     | None => True
     end.
Proof.
  intros cfg url_host uri nonce B r HB. cbn zeta. unfold dialer_upgrade.
  destruct (raw_lines (flat r)) as [ls rem] eqn:Hr. cbn [fst snd].
  destruct ls as [|l ls].
  - apply raw_lines_nil_inv in Hr. destruct Hr as [Hn _].
    pose proof (read_line_flat_err B r HB Hn) as E.
    destruct (read_line B r) as [res r']. cbn [fst] in E. subst res. cbn. auto.
  - apply raw_lines_cons_inv in Hr. destruct Hr as [y [Hs Hy]].
    destruct (read_line_flat_ok B r l y HB Hs) as [r1 [E1 [E2 E3]]].
    rewrite E1. cbn [dialer_upgrade_lines].
    assert (Hrest : flat r1 = concat ls ++ rem).
    { rewrite E2. apply (raw_lines_concat (length y)); [lia|exact Hy]. }
    destruct (http_parse_response_line ascii_to_int (cut_eol l)) as [sl|]; [|cbn; auto].
    destruct (status_line_check sl); [cbn; auto|].
    assert (Hy' : raw_lines (flat r1) = (ls, rem)) by (rewrite E2; exact Hy).
    assert (Hc : (length ls < S (length (flat r1)))%nat).
    { pose proof (raw_lines_count (length (flat r1)) (flat r1) ls rem (le_n _) Hy'). lia. }
    destruct (run_stream_flat dst dres (dline_step cfg nonce) d_on_blank d_on_ioerr (init_dst, Some DFuel)
                ls (S (length (flat r1))) B init_dst r1 rem HB Hc Hy') as [r' [G1 G2]].
    rewrite G1. rewrite E3 in *.
    destruct (run_lines dst dres (dline_step cfg nonce) d_on_blank d_on_ioerr init_dst ls rem (r_tail r))
      as [lr unread]. cbn [fst snd] in *.
    destruct (d_after_loop lr) as [s e]. cbn. auto.
Qed.

(* ================= 2. the header loop as a fold *)
Fixpoint dfold (cfg : dcfg) (nonce : list byte) (s : dst) (hs : list (list byte * list byte)) : dst + derr :=
  match hs with
  | [] => inl s
  | (k, v) :: r => match dhdr_step cfg nonce s k v with
                   | inl s' => dfold cfg nonce s' r
                   | inr e => inr e
                   end
  end.

Lemma drun_lines_ok : forall cfg nonce ls s rem t s' unread,
  run_lines dst dres (dline_step cfg nonce) d_on_blank d_on_ioerr s ls rem t = ((s', None), unread) <->
  exists hs rest, take_resp_headers ls = Some (hs, rest) /\ dfold cfg nonce s hs = inl s' /\ unread = Some rest.
Proof.
  intros cfg nonce. induction ls as [|l ls IH]; intros s rem t s' unread; cbn [run_lines take_resp_headers].
  - cbn. split; [discriminate|]. intros [hs [rest [H _]]]. discriminate.
  - destruct (cut_eol l) as [|c line] eqn:Hc.
    + cbn [d_on_blank]. split.
      * intros H. inversion H; subst. exists [], ls. repeat split.
      * intros [hs [rest [H1 [H2 H3]]]]. inversion H1; subst. cbn in H2. inversion H2. reflexivity.
    + unfold dline_step at 1.
      destruct (http_parse_header_line (c :: line)) as [[k v]|] eqn:Hp.
      * destruct (dhdr_step cfg nonce s k v) as [s1|e] eqn:Hst.
        -- rewrite IH. split.
           ++ intros [hs [rest [H1 [H2 H3]]]]. rewrite H1. exists ((k, v) :: hs), rest.
              split; [reflexivity|]. cbn [dfold]. rewrite Hst. auto.
           ++ intros [hs [rest [H1 [H2 H3]]]].
              destruct (take_resp_headers ls) as [[hs' rest']|]; [|discriminate].
              inversion H1; subst. cbn [dfold] in H2. rewrite Hst in H2.
              exists hs', rest. auto.
        -- split; [discriminate|].
           intros [hs [rest [H1 [H2 _]]]].
           destruct (take_resp_headers ls) as [[hs' rest']|]; [|discriminate].
           inversion H1; subst. cbn [dfold] in H2. rewrite Hst in H2. discriminate.
      * split; [discriminate|]. intros [hs [rest [H1 _]]]. discriminate.
Qed.

Lemma drun_lines_err : forall cfg nonce ls s rem t s' e unread,
  run_lines dst dres (dline_step cfg nonce) d_on_blank d_on_ioerr s ls rem t = ((s', Some e), unread) ->
  e <> DFuel.
Proof.
  intros cfg nonce. induction ls as [|l ls IH]; intros s rem t s' e unread; cbn [run_lines].
  - cbn. intros H. inversion H. discriminate.
  - destruct (cut_eol l) as [|c line].
    + cbn. discriminate.
    + unfold dline_step at 1.
      destruct (http_parse_header_line (c :: line)) as [[k v]|].
      * destruct (dhdr_step cfg nonce s k v) as [s1|r] eqn:Hst.
        -- apply IH.
        -- intros H. inversion H; subst. unfold dhdr_step in Hst.
           destruct (classify k);
           repeat match type of Hst with
                  | (if ?b then _ else _) = _ => destruct b
                  | (let (_, _) := ?x in _) = _ => destruct x
                  | (match ?x with _ => _ end) = _ => destruct x
                  end; inversion Hst; discriminate.
      * intros H. inversion H. discriminate.
Qed.

(* ================= 3. components of a successful fold *)
Definition dbit_of (k : hkind) : N :=
  match k with KUpgrade => 1 | KConnection => 2 | KSecAccept => 4 | _ => 0 end.
Definition dseen_of (hs : list (list byte * list byte)) (s0 : N) : N :=
  fold_left (fun acc kv => N.lor acc (dbit_of (classify (fst kv)))) hs s0.
Fixpoint dproto_of (hs : list (list byte * list byte)) (p0 : list byte) : list byte :=
  match hs with
  | [] => p0
  | (k, v) :: r => dproto_of r (match classify k with KSecProtocol => v | _ => p0 end)
  end.
Definition dstatic_ok (cfg : dcfg) (nonce : list byte) (kv : list byte * list byte) : bool :=
  let (k, v) := kv in
  match classify k with
  | KUpgrade => equal_fold_word v (bs "websocket")
  | KConnection => equal_fold_word v (bs "upgrade")
  | KSecAccept => check_accept v nonce
  | KSecProtocol => existsb (bytes_eqb v) (dc_protocols cfg)
  | KSecExtensions => true
  | KHost | KSecVersion | KSecKey | KOther => negb (dc_on_header cfg k v)
  end.
Fixpoint dexts_run (cfg : dcfg) (e0 : list hopt) (hs : list (list byte * list byte)) : list hopt + mx_err :=
  match hs with
  | [] => inl e0
  | (k, v) :: r =>
      match classify k with
      | KSecExtensions =>
          let (es, e) := match_selected_extensions v (dc_extensions cfg) e0 in
          match e with Some x => inr x | None => dexts_run cfg es r end
      | _ => dexts_run cfg e0 r
      end
  end.

Lemma dfold_ok : forall cfg nonce hs s s',
  dfold cfg nonce s hs = inl s' <->
  (forallb (dstatic_ok cfg nonce) hs = true
   /\ exists es, dexts_run cfg (hs_exts (dsn_hs s)) hs = inl es
      /\ s' = mkDst (dseen_of hs (dsn_seen s)) (mkHs (dproto_of hs (hs_protocol (dsn_hs s))) es)).
Proof.
  intros cfg nonce. induction hs as [|[k v] hs IH]; intros s s'.
  - cbn. split.
    + intros H. inversion H; subst. split; [reflexivity|].
      exists (hs_exts (dsn_hs s')). split; [reflexivity|]. destruct s' as [a [c d]]. reflexivity.
    + intros [_ [es [H1 H2]]]. inversion H1; subst. destruct s as [a [c d]]. reflexivity.
  - cbn [dfold forallb dexts_run dproto_of]. unfold dseen_of. cbn [fold_left fst].
    fold (dseen_of hs (N.lor (dsn_seen s) (dbit_of (classify k)))).
    unfold dhdr_step, dstatic_ok.
    destruct (classify k) eqn:Hk; cbn [dbit_of];
      try (destruct (dc_on_header cfg k v); cbn [negb andb];
           [split; [discriminate|intros [H _]; discriminate]|rewrite N.lor_0_r; rewrite IH; reflexivity]).
    + destruct (equal_fold_word v (bs "websocket")); cbn [andb].
      * rewrite IH. cbn. reflexivity.
      * split; [discriminate|]. intros [H _]; discriminate.
    + destruct (equal_fold_word v (bs "upgrade")); cbn [andb].
      * rewrite IH. cbn. reflexivity.
      * split; [discriminate|]. intros [H _]; discriminate.
    + destruct (existsb (bytes_eqb v) (dc_protocols cfg)); cbn [andb].
      * rewrite N.lor_0_r. rewrite IH. cbn. reflexivity.
      * split; [discriminate|]. intros [H _]; discriminate.
    + cbn [andb]. rewrite N.lor_0_r.
      destruct (match_selected_extensions v (dc_extensions cfg) (hs_exts (dsn_hs s))) as [es e].
      destruct e as [[|]|].
      * split; [discriminate|]. intros [_ [es' [H _]]]. discriminate.
      * split; [discriminate|]. intros [_ [es' [H _]]]. discriminate.
      * rewrite IH. cbn. reflexivity.
    + destruct (check_accept v nonce); cbn [andb].
      * rewrite IH. cbn. reflexivity.
      * split; [discriminate|]. intros [H _]; discriminate.
Qed.

(* ================= 4. headerSeen = all <-> Upgrade, Connection and Sec-WebSocket-Accept occur *)
Definition dkind (K : hkind) (kv : list byte * list byte) : bool :=
  match classify (fst kv), K with
  | KUpgrade, KUpgrade | KConnection, KConnection | KSecAccept, KSecAccept
  | KSecProtocol, KSecProtocol | KSecExtensions, KSecExtensions => true
  | _, _ => false
  end.
Definition dhas (K : hkind) (hs : list (list byte * list byte)) : bool := existsb (dkind K) hs.
Definition dbits_of (hs : list (list byte * list byte)) : N :=
  N.lor (if dhas KUpgrade hs then 1 else 0)
    (N.lor (if dhas KConnection hs then 2 else 0) (if dhas KSecAccept hs then 4 else 0)).

Lemma dbits_of_cons : forall kv hs, dbits_of (kv :: hs) = N.lor (dbit_of (classify (fst kv))) (dbits_of hs).
Proof.
  intros kv hs. unfold dbits_of, dhas. cbn [existsb]. unfold dkind at 1 3 5.
  set (a := existsb (dkind KUpgrade) hs). set (b := existsb (dkind KConnection) hs).
  set (c := existsb (dkind KSecAccept) hs).
  destruct (classify (fst kv)); cbn [orb dbit_of]; destruct a, b, c; reflexivity.
Qed.

Lemma dseen_of_bits : forall hs s0, dseen_of hs s0 = N.lor s0 (dbits_of hs).
Proof.
  induction hs as [|kv hs IH]; intros s0.
  - cbn. rewrite N.lor_0_r. reflexivity.
  - unfold dseen_of. cbn [fold_left]. fold (dseen_of hs (N.lor s0 (dbit_of (classify (fst kv))))).
    rewrite IH, dbits_of_cons, N.lor_assoc. reflexivity.
Qed.

Lemma dseen_all_iff : forall hs,
  (dseen_of hs 0 =? dseen_all) = dhas KUpgrade hs && dhas KConnection hs && dhas KSecAccept hs.
Proof.
  intros hs. rewrite dseen_of_bits. unfold dbits_of.
  destruct (dhas KUpgrade hs), (dhas KConnection hs), (dhas KSecAccept hs); reflexivity.
Qed.

Lemma dvalues_nonempty : forall K hs,
  negb (match dvalues_of K hs with [] => true | _ => false end) = dhas K hs.
Proof.
  intros K. induction hs as [|kv hs IH]; [reflexivity|].
  unfold dvalues_of, dhas in *. cbn [filter existsb map]. unfold dkind at 1.
  destruct (match classify (fst kv), K with
            | KUpgrade, KUpgrade | KConnection, KConnection | KSecAccept, KSecAccept
            | KSecProtocol, KSecProtocol | KSecExtensions, KSecExtensions => true
            | _, _ => false end); [reflexivity|]. cbn [orb]. exact IH.
Qed.

Lemma dall_and_some_split : forall (p : list byte -> bool) K hs,
  dall_and_some p (dvalues_of K hs) = dhas K hs && forallb p (dvalues_of K hs).
Proof.
  intros p K hs. rewrite <- dvalues_nonempty. unfold dall_and_some.
  destruct (dvalues_of K hs); reflexivity.
Qed.

Definition dheaders_ok (cfg : dcfg) (nonce : list byte) (hs : list (list byte * list byte)) : bool :=
  forallb (fun v => equal_fold_word v (bs "websocket")) (dvalues_of KUpgrade hs)
  && forallb (fun v => equal_fold_word v (bs "upgrade")) (dvalues_of KConnection hs)
  && forallb (fun v => check_accept v nonce) (dvalues_of KSecAccept hs)
  && forallb (fun v => existsb (bytes_eqb v) (dc_protocols cfg)) (dvalues_of KSecProtocol hs)
  && forallb (fun kv => match classify (fst kv) with
                        | KHost | KSecVersion | KSecKey | KOther => negb (dc_on_header cfg (fst kv) (snd kv))
                        | _ => true
                        end) hs.

Lemma dstatic_ok_split : forall cfg nonce hs, forallb (dstatic_ok cfg nonce) hs = dheaders_ok cfg nonce hs.
Proof.
  intros cfg nonce. induction hs as [|[k v] hs IH]; [reflexivity|].
  cbn [forallb]. rewrite IH. unfold dheaders_ok, dvalues_of, dstatic_ok.
  cbn [filter map forallb fst snd].
  destruct (classify k) eqn:Hk; cbn [map forallb filter fst snd]; btauto.
Qed.

Lemma dexts_run_spec : forall cfg hs e0,
  dexts_run cfg e0 hs = match_ext_spec (dc_extensions cfg) (dvalues_of KSecExtensions hs) e0.
Proof.
  intros cfg. induction hs as [|[k v] hs IH]; intros e0; [reflexivity|].
  cbn [dexts_run]. unfold dvalues_of in *. cbn [filter fst].
  destruct (classify k) eqn:Hk; cbn [map]; try apply IH.
  cbn [match_ext_spec snd]. destruct (match_selected_extensions v (dc_extensions cfg) e0) as [es e].
  destruct e; [reflexivity|apply IH].
Qed.

Lemma dproto_of_spec : forall hs p0, dproto_of hs p0 = last (dvalues_of KSecProtocol hs) p0.
Proof.
  induction hs as [|[k v] hs IH]; intros p0; [reflexivity|].
  cbn [dproto_of]. unfold dvalues_of in *. cbn [filter fst].
  destruct (classify k) eqn:Hk; cbn [map]; try apply IH.
  rewrite IH. cbn [snd]. rewrite last_cons_default. reflexivity.
Qed.

(* ================= 5. the theorems of C10 *)
Lemma status_check_eq : forall sl,
  (match status_line_check sl with None => true | Some _ => false end)
  = (sl_major sl =? 1)%Z && (1 <=? sl_minor sl)%Z && (sl_status sl =? 101)%Z.
Proof.
  intros sl. unfold status_line_check. rewrite (Z.leb_antisym (sl_minor sl) 1).
  destruct (sl_major sl =? 1)%Z, (sl_minor sl <? 1)%Z, (sl_status sl =? 101)%Z; reflexivity.
Qed.

Lemma response_accepted_eq : forall cfg nonce sl hs,
  response_accepted cfg nonce (mkPresp sl hs)
  = (match status_line_check sl with None => true | Some _ => false end)
    && forallb (dstatic_ok cfg nonce) hs && (dseen_of hs 0 =? dseen_all).
Proof.
  intros cfg nonce sl hs. unfold response_accepted. cbn [pr_line pr_headers].
  rewrite status_check_eq, dstatic_ok_split, dseen_all_iff, !dall_and_some_split.
  unfold dheaders_ok. btauto.
Qed.

(* outcome on the flat view *)
Theorem dialer_lines_success : forall cfg nonce ls rem t hs0 unread,
  dialer_upgrade_lines cfg nonce ls rem t = (hs0, None, unread) <->
  exists l ls' sl hs rest es,
    ls = l :: ls'
    /\ http_parse_response_line ascii_to_int (cut_eol l) = Some sl
    /\ take_resp_headers ls' = Some (hs, rest)
    /\ response_accepted cfg nonce (mkPresp sl hs) = true
    /\ dexts_run cfg [] hs = inl es
    /\ hs0 = mkHs (dproto_of hs []) es /\ unread = Some rest.
Proof.
  intros cfg nonce ls rem t hs0 unread. split.
  - destruct ls as [|l ls']; [cbn; discriminate|]. cbn [dialer_upgrade_lines].
    destruct (http_parse_response_line ascii_to_int (cut_eol l)) as [sl|] eqn:Hsl; [|discriminate].
    destruct (status_line_check sl) eqn:Hchk; [discriminate|].
    destruct (run_lines dst dres (dline_step cfg nonce) d_on_blank d_on_ioerr init_dst ls' rem t)
      as [[s oe] un] eqn:Hrun.
    destruct oe as [e|]; cbn [d_after_loop]; [discriminate|].
    destruct (dsn_seen s =? dseen_all) eqn:Hseen; [|discriminate].
    intros H. inversion H; subst hs0 un.
    apply drun_lines_ok in Hrun. destruct Hrun as [hs [rest [Hth [Hfold Hun]]]].
    apply dfold_ok in Hfold. destruct Hfold as [Hst [es [He Hs]]].
    cbn [init_dst dsn_hs hs_exts hs_protocol dsn_seen] in *.
    exists l, ls', sl, hs, rest, es. repeat split; try assumption.
    + rewrite response_accepted_eq, Hchk, Hst. rewrite Hs in Hseen. cbn [dsn_seen] in Hseen.
      rewrite Hseen. reflexivity.
    + rewrite Hs. reflexivity.
  - intros [l [ls' [sl [hs [rest [es [E [Hsl [Hth [Hacc [He [Hh Hun]]]]]]]]]]]]. subst.
    cbn [dialer_upgrade_lines]. rewrite Hsl.
    rewrite response_accepted_eq in Hacc.
    destruct (status_line_check sl); [discriminate|]. cbn [andb] in Hacc.
    apply andb_prop in Hacc. destruct Hacc as [Hst Hseen].
    assert (Hrun : run_lines dst dres (dline_step cfg nonce) d_on_blank d_on_ioerr init_dst ls' rem t
                   = ((mkDst (dseen_of hs 0) (mkHs (dproto_of hs []) es), None), Some rest)).
    { apply drun_lines_ok. exists hs, rest. split; [exact Hth|]. split; [|reflexivity].
      apply dfold_ok. split; [exact Hst|]. exists es. split; [exact He|reflexivity]. }
    rewrite Hrun. cbn [d_after_loop dsn_seen]. rewrite Hseen. reflexivity.
Qed.

(* success <=> the response parses and satisfies the conditions of the property;
   then Protocol/Extensions are the server's and the reader that remains holds exactly the
   bytes after the response head *)
Theorem dialer_success_iff : forall cfg url_host uri nonce B r, 1 <= B ->
  (d_err (dialer_upgrade cfg url_host uri nonce B r) = None <->
   exists p rest es,
     parse_response (flat r) = Some (p, rest)
     /\ response_accepted cfg nonce p = true
     /\ response_extensions cfg p = inl es).
Proof.
  intros cfg url_host uri nonce B r HB.
  pose proof (dialer_flat cfg url_host uri nonce B r HB) as F. cbn zeta in F.
  unfold parse_response, response_extensions.
  destruct (raw_lines (flat r)) as [ls rem]. cbn [fst snd] in F.
  destruct (dialer_upgrade_lines cfg nonce ls rem (r_tail r)) as [[hs0 e] unread] eqn:Hl.
  destruct F as [_ [Fe _]]. rewrite Fe. clear Fe. split.
  - intros He. rewrite He in Hl. apply dialer_lines_success in Hl.
    destruct Hl as [l [ls' [sl [hs [rest [es [E [Hsl [Hth [Hacc [Hx _]]]]]]]]]]]. subst ls.
    rewrite Hsl, Hth. exists (mkPresp sl hs), (concat rest ++ rem), es.
    split; [reflexivity|]. split; [exact Hacc|]. cbn [pr_headers].
    rewrite dexts_run_spec in Hx. exact Hx.
  - intros [p [rest [es [Hp [Hacc Hx]]]]].
    destruct ls as [|l ls']; [discriminate|].
    destruct (http_parse_response_line ascii_to_int (cut_eol l)) as [sl|] eqn:Hsl; [|discriminate].
    destruct (take_resp_headers ls') as [[hs rest']|] eqn:Hth; [|discriminate].
    inversion Hp; subst p rest. cbn [pr_headers] in Hx.
    assert (G : dialer_upgrade_lines cfg nonce (l :: ls') rem (r_tail r)
                = (mkHs (dproto_of hs []) es, None, Some rest')).
    { apply dialer_lines_success. exists l, ls', sl, hs, rest', es. repeat split; try assumption.
      rewrite dexts_run_spec. exact Hx. }
    rewrite G in Hl. inversion Hl. reflexivity.
Qed.

Theorem dialer_success_result : forall cfg url_host uri nonce B r p rest es, 1 <= B ->
  parse_response (flat r) = Some (p, rest) ->
  response_accepted cfg nonce p = true ->
  response_extensions cfg p = inl es ->
  let res := dialer_upgrade cfg url_host uri nonce B r in
  d_err res = None
  /\ d_hs res = mkHs (response_protocol p) es
  /\ d_request res = expected_request cfg url_host uri nonce
  /\ flat (d_reader res) = rest /\ r_tail (d_reader res) = r_tail r.
Proof.
  intros cfg url_host uri nonce B r p rest es HB Hp Hacc Hx. cbn zeta.
  pose proof (dialer_flat cfg url_host uri nonce B r HB) as F. cbn zeta in F.
  unfold parse_response, response_extensions, response_protocol in *.
  destruct (raw_lines (flat r)) as [ls rem]. cbn [fst snd] in F.
  destruct ls as [|l ls']; [discriminate|].
  destruct (http_parse_response_line ascii_to_int (cut_eol l)) as [sl|] eqn:Hsl; [|discriminate].
  destruct (take_resp_headers ls') as [[hs rest']|] eqn:Hth; [|discriminate].
  inversion Hp; subst p rest. cbn [pr_headers] in *.
  assert (G : dialer_upgrade_lines cfg nonce (l :: ls') rem (r_tail r)
              = (mkHs (dproto_of hs []) es, None, Some rest')).
  { apply dialer_lines_success. exists l, ls', sl, hs, rest', es. repeat split; try assumption.
    rewrite dexts_run_spec. exact Hx. }
  rewrite G in F. destruct F as [F1 [F2 [F3 [F4 F5]]]].
  rewrite F1, F2, F3, F4, F5, dproto_of_spec. repeat split.
Qed.

(* the model never runs out of fuel *)
Theorem dialer_no_fuel : forall cfg url_host uri nonce B r, 1 <= B ->
  d_err (dialer_upgrade cfg url_host uri nonce B r) <> Some DFuel.
Proof.
  intros cfg url_host uri nonce B r HB.
  pose proof (dialer_flat cfg url_host uri nonce B r HB) as F. cbn zeta in F.
  destruct (raw_lines (flat r)) as [ls rem]. cbn [fst snd] in F.
  destruct (dialer_upgrade_lines cfg nonce ls rem (r_tail r)) as [[hs0 e] unread] eqn:Hl.
  destruct F as [_ [Fe _]]. rewrite Fe. clear Fe.
  destruct ls as [|l ls']; cbn [dialer_upgrade_lines] in Hl; [inversion Hl; discriminate|].
  destruct (http_parse_response_line ascii_to_int (cut_eol l)) as [sl|]; [|inversion Hl; discriminate].
  destruct (status_line_check sl) as [e0|] eqn:Hc.
  - inversion Hl; subst. unfold status_line_check in Hc.
    destruct (negb (sl_major sl =? 1)%Z || (sl_minor sl <? 1)%Z); [inversion Hc; discriminate|].
    destruct (negb (sl_status sl =? 101)%Z); inversion Hc; discriminate.
  - destruct (run_lines dst dres (dline_step cfg nonce) d_on_blank d_on_ioerr init_dst ls' rem (r_tail r))
      as [[s oe] un] eqn:Hrun.
    destruct oe as [e1|]; cbn [d_after_loop] in Hl.
    + inversion Hl; subst. intros C. inversion C; subst.
      eapply drun_lines_err; [exact Hrun|reflexivity].
    + destruct (dsn_seen s =? dseen_all); inversion Hl; subst; [discriminate|].
      unfold d_missing. destruct (N.land (dsn_seen s) dseen_upgrade =? 0); [discriminate|].
      destruct (N.land (dsn_seen s) dseen_connection =? 0); discriminate.
Qed.

(* ================= 6. the status code is literally 101 *)
Theorem status_literally_101 : forall line sl,
  http_parse_response_line ascii_to_int line = Some sl -> sl_status sl = 101%Z ->
  snd (fst (bsplit3 line 32)) = [49; 48; 49].
Proof.
  intros line sl H Hs. unfold http_parse_response_line in H.
  destruct (bsplit3 line 32) as [[proto status] reason]. cbn [fst snd].
  destruct (http_parse_version ascii_to_int proto) as [[ma mi]|]; [|discriminate].
  destruct (len status =? 3) eqn:Hl; cbn [negb] in H; [|discriminate].
  destruct (ascii_to_int status) as [st|] eqn:Ha; [|discriminate].
  inversion H; subst sl. cbn [sl_status] in Hs. subst st.
  destruct status as [|a [|b [|c [|d rest]]]]; unfold len in Hl; cbn [length] in Hl; try lia.
  rewrite ascii_to_int_spec in Ha.
  destruct (all_digits [a; b; c]) eqn:Hd; cbn [andb] in Ha; [|discriminate].
  destruct (dec_z [a; b; c] 0 <=? max_int)%Z; [|discriminate].
  inversion Ha as [Hv]. unfold dec_z in Hv. cbn [fold_left] in Hv.
  unfold all_digits in Hd. cbn [forallb] in Hd.
  assert (a = 49 /\ b = 48 /\ c = 49) as [-> [-> ->]] by lia. reflexivity.
Qed.

(* the response-line parser before the fixes: witnesses *)
Lemma old_status_parsers_refuted :
  option_map sl_status (http_parse_response_line_old ascii_to_int_wrap (bs "HTTP/1.1 0:1 x")) = Some 101%Z
  /\ option_map sl_status (http_parse_response_line_old ascii_to_int_wrap (bs "HTTP/1.1 18446744073709551717 x")) = Some 101%Z
  /\ option_map sl_status (http_parse_response_line_old ascii_to_int (bs "HTTP/1.1 0101 x")) = Some 101%Z
  /\ http_parse_response_line ascii_to_int (bs "HTTP/1.1 0101 x") = None
  /\ http_parse_response_line ascii_to_int (bs "HTTP/1.1 0:1 x") = None.
Proof. vm_compute. repeat split; reflexivity. Qed.

(* the subprotocol test before F9: after "a" matched, a second line "zzz" passed *)
Lemma old_subprotocol_step_refuted :
  let cfg := mkDcfg [bs "a"; bs "b"] [] [] [] (fun _ _ => false) in
  match dproto_step_old cfg init_dst (bs "a") with
  | inl s => match dproto_step_old cfg s (bs "zzz") with inl s' => hs_protocol (dsn_hs s') = bs "a" | inr _ => False end
  | inr _ => False
  end.
Proof. vm_compute. reflexivity. Qed.

(* ================= 7. hostport *)
Lemma index_byte_from_split : forall c l i x y,
  split_byte c l = Some (x, y) -> index_byte_from c l i = (i + Z.of_nat (length x))%Z.
Proof.
  intros c. induction l as [|b l IH]; intros i x y H; cbn [split_byte index_byte_from] in *; [discriminate|].
  destruct (b =? c).
  - inversion H; subst. cbn. lia.
  - destruct (split_byte c l) as [[x' y']|]; [|discriminate]. inversion H; subst.
    rewrite (IH (i + 1)%Z x' y eq_refl). cbn [length]. lia.
Qed.
Lemma index_byte_from_none : forall c l i, no_byte c l = true -> index_byte_from c l i = (-1)%Z.
Proof.
  intros c. induction l as [|b l IH]; intros i H; cbn [index_byte_from no_byte forallb] in *; [reflexivity|].
  apply andb_prop in H. destruct H as [H1 H2]. destruct (b =? c); [discriminate|]. apply IH. exact H2.
Qed.
Lemma last_index_from_none : forall c l i best, no_byte c l = true -> last_index_byte_from c l i best = best.
Proof.
  intros c. induction l as [|b l IH]; intros i best H; cbn [last_index_byte_from no_byte forallb] in *; [reflexivity|].
  apply andb_prop in H. destruct H as [H1 H2]. destruct (b =? c); [discriminate|]. apply IH. exact H2.
Qed.
Lemma last_index_from_app : forall c x y i best, no_byte c y = true ->
  last_index_byte_from c (x ++ c :: y) i best = (i + Z.of_nat (length x))%Z.
Proof.
  intros c. induction x as [|b x IH]; intros y i best Hy; cbn [app last_index_byte_from length].
  - rewrite N.eqb_refl. rewrite (last_index_from_none c y _ _ Hy). lia.
  - rewrite (IH y (i + 1)%Z _ Hy). lia.
Qed.
Lemma split_byte_app : forall c l x y, split_byte c l = Some (x, y) -> l = x ++ c :: y /\ no_byte c x = true.
Proof.
  intros c. induction l as [|b l IH]; intros x y H; cbn [split_byte] in H; [discriminate|].
  destruct (b =? c) eqn:E.
  - inversion H; subst. apply N.eqb_eq in E. subst. split; reflexivity.
  - destruct (split_byte c l) as [[x' y']|]; [|discriminate]. inversion H; subst.
    destruct (IH x' y eq_refl) as [H1 H2]. subst l. split; [reflexivity|].
    cbn [no_byte forallb]. rewrite E. exact H2.
Qed.
Lemma split_byte_none : forall c l, split_byte c l = None -> no_byte c l = true.
Proof.
  intros c. induction l as [|b l IH]; intros H; cbn [split_byte] in H; [reflexivity|].
  destruct (b =? c) eqn:E; [discriminate|].
  destruct (split_byte c l) as [[x y]|]; [discriminate|]. cbn [no_byte forallb]. rewrite E. apply IH. reflexivity.
Qed.
Lemma no_byte_app : forall c a b, no_byte c (a ++ b) = no_byte c a && no_byte c b.
Proof. intros. unfold no_byte. apply forallb_app. Qed.

(* for a URL authority  name[:port]  or  [v6][:port] : hostname = host without the port,
   address = host:port, the default port being appended when the URL has none *)
Definition addr_of (host hn dflt : list byte) (port : option (list byte)) : list byte :=
  match port with Some (_ :: _) => host | _ => hn ++ dflt end.

Lemma hostport_name_port : forall h dflt hn port,
  spec_name_port h = Some (hn, port) ->
  hostport h dflt = (hn, addr_of h hn dflt port).
Proof.
  intros h dflt hn port G. unfold spec_name_port in G. unfold hostport, last_index_byte, index_byte, addr_of.
  destruct (no_byte 93 h) eqn:Hb; cbn [negb] in G; [|discriminate].
  rewrite (index_byte_from_none 93 h 0%Z Hb).
  destruct (split_byte 58 h) as [[name p]|] eqn:Hs.
  - destruct (no_byte 58 p) eqn:Hp; [|discriminate]. inversion G; subst.
    destruct (split_byte_app _ _ _ _ Hs) as [E _]. subst h.
    rewrite (last_index_from_app 58 hn p 0%Z (-1)%Z Hp).
    assert (((-1) <? 0 + Z.of_nat (length hn))%Z = true) as -> by lia.
    replace (Z.to_nat (0 + Z.of_nat (length hn))) with (length hn) by lia.
    rewrite firstn_app, Nat.sub_diag, firstn_all. cbn [firstn]. rewrite app_nil_r.
    rewrite app_length. cbn [length]. unfold byte in *.
    destruct p as [|c p].
    + cbn [length]. match goal with |- context[(?a =? ?b)%Z] => assert ((a =? b)%Z = true) as -> by lia end. reflexivity.
    + cbn [length]. match goal with |- context[(?a =? ?b)%Z] => assert ((a =? b)%Z = false) as -> by lia end.
      reflexivity.
  - inversion G; subst. rewrite (last_index_from_none 58 hn 0%Z (-1)%Z (split_byte_none _ _ Hs)).
    reflexivity.
Qed.

Lemma last_index_le : forall (x : list byte) (i best : Z), (best <= i + Z.of_nat (length x))%Z ->
  (last_index_byte_from 58%N (x ++ (@cons byte 93%N (@nil byte))) i best <= i + Z.of_nat (length x))%Z.
Proof.
  induction x as [|b x IHx]; intros i best Hb; cbn [app last_index_byte_from length] in *.
  - replace (93 =? 58) with false by reflexivity. cbn [Z.of_nat] in *. lia.
  - specialize (IHx (i + 1)%Z (if b =? 58 then i else best)). destruct (b =? 58); lia.
Qed.

(* for a URL authority  name[:port]  or  [v6][:port] : hostname = host without the port,
   address = host:port, the default port being appended when the URL has none *)
Theorem hostport_spec : forall host dflt hn port,
  spec_split_host_port host = Some (hn, port) ->
  hostport host dflt = (hn, addr_of host hn dflt port).
Proof.
  intros host dflt hn port H. unfold spec_split_host_port in H.
  destruct host as [|c host']; [apply hostport_name_port; exact H|].
  destruct (c =? 91) eqn:Hc; [|apply hostport_name_port; exact H].
  unfold hostport, last_index_byte, index_byte, addr_of.
  destruct (split_byte 93 (c :: host')) as [[inside after]|] eqn:Hs; [|discriminate].
  destruct (split_byte_app _ _ _ _ Hs) as [E Hin].
  rewrite (index_byte_from_split 93 _ 0%Z inside after Hs). rewrite E.
  destruct after as [|a port'].
  - inversion H; subst hn port.
    pose proof (last_index_le inside 0%Z (-1)%Z ltac:(lia)) as Hlast.
    rewrite (proj2 (Z.ltb_ge _ _) Hlast). rewrite <- E. reflexivity.
  - destruct ((a =? 58) && no_byte 58 port' && no_byte 93 port') eqn:Hp; [|discriminate].
    apply andb_prop in Hp. destruct Hp as [Hp Hp2]. apply andb_prop in Hp. destruct Hp as [Ha Hp1].
    apply N.eqb_eq in Ha. subst a. inversion H; subst hn port.
    change (inside ++ 93 :: 58 :: port') with (inside ++ (93 :: nil) ++ 58 :: port'). rewrite app_assoc.
    rewrite (last_index_from_app 58 _ port' 0%Z (-1)%Z Hp1). rewrite !app_length. cbn [length].
    unfold byte in *.
    match goal with |- context[(?a <? ?b)%Z] => assert ((a <? b)%Z = true) as -> by lia end.
    match goal with |- context[firstn ?n (?a ++ ?b)] => replace n with (length a) by (rewrite app_length; cbn; lia) end.
    rewrite firstn_app, Nat.sub_diag, firstn_all. cbn [firstn]. rewrite app_nil_r.
    destruct port' as [|c0 p0]; cbn [length].
    + match goal with |- context[(?a =? ?b)%Z] => assert ((a =? b)%Z = true) as -> by lia end. reflexivity.
    + match goal with |- context[(?a =? ?b)%Z] => assert ((a =? b)%Z = false) as -> by lia end. reflexivity.
Qed.

(* non-vacuity material for props/C10.v: the RFC 6455 sample response (plus optional header lines) and one frame *)
Definition c10_sample_resp (extra : list byte) : list byte :=
  bs "HTTP/1.1 101 Switching Protocols" ++ crlf ++ bs "Upgrade: websocket" ++ crlf
  ++ bs "Connection: Upgrade" ++ crlf ++ bs "Sec-WebSocket-Accept: s3pPLMBiTxaQ9kYGzzhZRbK+xOo=" ++ crlf
  ++ bs "Sec-WebSocket-Protocol: chat" ++ crlf ++ extra ++ crlf ++ [129; 2; 104; 105].
