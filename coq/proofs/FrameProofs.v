Require Import Bytes Stream Check Frame BytesProofs StreamProofs.
From Coq Require Import ZifyBool ZifyN ZifyNat.
Open Scope N_scope.
Ltac Zify.zify_post_hook ::= Z.div_mod_to_equations.

(* ---------- bit-level facts, by finite sweep ---------- *)
Lemma land128 b : b < 256 -> negb (N.land b 128 =? 0) = (128 <=? b).
Proof.
  intros H. pose proof (byte_forall (fun b => Bool.eqb (negb (N.land b 128 =? 0)) (128 <=? b)) eq_refl b H) as E.
  apply eqb_prop in E. exact E.
Qed.
Lemma land112 b : b < 256 -> N.shiftr (N.land b 112) 4 = (b / 16) mod 8.
Proof.
  intros H. pose proof (byte_forall (fun b => N.shiftr (N.land b 112) 4 =? (b / 16) mod 8) eq_refl b H) as E.
  apply N.eqb_eq in E. exact E.
Qed.
Lemma land15 b : b < 256 -> N.land b 15 = b mod 16.
Proof.
  intros H. pose proof (byte_forall (fun b => N.land b 15 =? b mod 16) eq_refl b H) as E.
  apply N.eqb_eq in E. exact E.
Qed.
Lemma land127 b : b < 256 -> N.land b 127 = b mod 128.
Proof.
  intros H. pose proof (byte_forall (fun b => N.land b 127 =? b mod 128) eq_refl b H) as E.
  apply N.eqb_eq in E. exact E.
Qed.
Lemma lor128 b : b < 128 -> N.lor b 128 = 128 + b.
Proof.
  intros H. pose proof (lt_forall 128%nat (fun b => N.lor b 128 =? 128 + b) eq_refl b H) as E.
  apply N.eqb_eq in E. exact E.
Qed.
Lemma enc_byte0 (fin : bool) rsv op : rsv < 8 -> op < 16 ->
  N.lor (N.lor (if fin then 128 else 0) (N.shiftl rsv 4 mod 256)) op = 128 * b2n fin + 16 * rsv + op.
Proof.
  intros Hr Ho.
  pose proof (lt_forall 8%nat (fun rsv => forallb (fun op =>
    (N.lor (N.lor 128 (N.shiftl rsv 4 mod 256)) op =? 128 + 16 * rsv + op) &&
    (N.lor (N.lor 0 (N.shiftl rsv 4 mod 256)) op =? 16 * rsv + op)) (all_lt 16%nat)) eq_refl rsv Hr) as E.
  pose proof (lt_forall 16%nat _ E op Ho) as E2. cbv beta in E2.
  apply andb_true_iff in E2. destruct E2 as [E1 E2]. apply N.eqb_eq in E1, E2.
  destruct fin; cbn [b2n]; lia.
Qed.

Lemma parse_first2_arith b0 b1 : b0 < 256 -> b1 < 256 ->
  parse_first2 b0 b1 =
  (mkHeader (128 <=? b0) ((b0 / 16) mod 8) (b0 mod 16) (128 <=? b1) zero_mask
            (if b1 mod 128 <? 126 then Z.of_N (b1 mod 128) else 0%Z),
   b1 mod 128,
   (if 128 <=? b1 then 4 else 0) + (if b1 mod 128 =? 126 then 2 else if b1 mod 128 =? 127 then 8 else 0)).
Proof.
  intros H0 H1. unfold parse_first2.
  rewrite (land128 b0 H0), (land128 b1 H1), (land112 b0 H0), (land15 b0 H0), (land127 b1 H1). reflexivity.
Qed.

(* ---------- the decoder against rfc_parse on arbitrary byte strings ---------- *)
Definition dec_agrees (bs : list byte) (t : tail) (res : (herr + header) * src) : Prop :=
  let '(r, s') := res in
  match rfc_parse bs with
  | PComplete h rest => r = inr h /\ flat s' = rest /\ wf_src s' /\ tl s' = t
  | PMsb => r = inl HMsb
  | PIncomplete => exists e, r = inl (HIo e) /\
       e = match t with TFail => EFail | TEOF => e end /\ (t = TEOF -> e = EEOF \/ e = EUnexpected)
  end.

Lemma nthb_take0 {n} (l : list byte) : 0 < n -> nthb (take n l) 0 = nthb l 0.
Proof. intros H. unfold nthb, take. destruct l; destruct (N.to_nat n) eqn:E; try reflexivity; lia. Qed.

Lemma flat_cons2 (l : list byte) : 2 <= len l -> exists b0 b1 r, l = b0 :: b1 :: r.
Proof. destruct l as [|b0 [|b1 r]]; unfold len; simpl; intros; try lia. eauto. Qed.

Lemma read_header_spec s : wf_src s -> wf_bytes (flat s) ->
  dec_agrees (flat s) (tl s) (read_header s).
Proof.
  intros Hwf Hb. unfold dec_agrees, read_header.
  destruct (N.ltb_spec (len (flat s)) 2) as [Hs|Hl].
  - (* fewer than two bytes *)
    pose proof (read_full_short 2 s Hwf Hs) as R.
    destruct (read_full 2 s) as [[b e] s1]. destruct R as (_ & _ & He & _). subst e.
    assert (P: rfc_parse (flat s) = PIncomplete).
    { destruct (flat s) as [|b0 [|b1 r]]; try reflexivity. unfold len in Hs; simpl in Hs; lia. }
    rewrite P. eexists; split; [reflexivity|]. destruct (tl s); split; try reflexivity; try discriminate.
    intros _. destruct (len (flat s) =? 0); auto.
  - pose proof (read_full_ok 2 s Hwf Hl) as R.
    destruct (read_full 2 s) as [[b e] s1]. destruct R as (He & Hbv & Hf1 & Hw1 & Ht1). subst e.
    destruct (flat_cons2 _ Hl) as (b0 & b1 & r & Hfl). rewrite Hfl in *.
    assert (Hb0: b0 < 256) by (inversion Hb; assumption).
    assert (Hb1: b1 < 256) by (inversion Hb as [|? ? _ Hb']; inversion Hb'; assumption).
    assert (Hr: wf_bytes r) by (inversion Hb as [|? ? _ Hb']; inversion Hb'; assumption).
    subst b. change (take 2 (b0 :: b1 :: r)) with [b0; b1].
    change (nthb [b0; b1] 0) with b0. change (nthb [b0; b1] 1) with b1.
    change (drop 2 (b0 :: b1 :: r)) with r in Hf1.
    rewrite (parse_first2_arith b0 b1 Hb0 Hb1). cbv iota beta.
    cbn [rfc_parse]. unfold rfc_parse_tail, extn_of.
    set (l7 := b1 mod 128). set (masked := 128 <=? b1).
    set (extn := if l7 =? 126 then 2 else if l7 =? 127 then 8 else 0).
    assert (Hextra: (if masked then 4 else 0) + extn = extn + (if masked then 4 else 0)) by lia.
    rewrite Hextra. set (need := extn + (if masked then 4 else 0)).
    destruct (need =? 0) eqn:En.
    + (* no extra bytes *)
      assert (Hl7: l7 <? 126 = true) by (unfold need, extn in En; destruct (l7 =? 126) eqn:?; destruct (l7 =? 127) eqn:?; lia).
      assert (Hm: masked = false) by (unfold need in En; destruct masked; [lia|reflexivity]).
      assert (He0: extn = 0) by (unfold need in En; lia).
      replace (len r <? need) with false by lia.
      rewrite He0. rewrite take_0.
      replace (l7 =? 127) with false by lia. cbn [andb].
      rewrite Hl7, Hm. cbn [h_len]. replace need with 0 by lia. rewrite drop_0.
      repeat split; auto.
    + destruct (N.ltb_spec (len r) need) as [Hshort|Hlong].
      * rewrite <- Hf1 in Hshort.
        pose proof (read_full_short need s1 Hw1 Hshort) as R2.
        destruct (read_full need s1) as [[x e2] s2]. destruct R2 as (_ & _ & He2 & _). subst e2.
        eexists; split; [reflexivity|]. rewrite Ht1. destruct (tl s); split; try reflexivity; try discriminate.
        intros _. destruct (len (flat s1) =? 0); auto.
      * rewrite <- Hf1 in Hlong.
        pose proof (read_full_ok need s1 Hw1 Hlong) as R2.
        destruct (read_full need s1) as [[x e2] s2]. destruct R2 as (He2 & Hx & Hf2 & Hw2 & Ht2). subst e2.
        rewrite Hf1 in Hx, Hf2, Hlong.
        assert (Htk: take extn r = take extn x).
        { subst x. unfold take. rewrite firstn_firstn. f_equal. unfold need. lia. }
        assert (Hx0: 0 < extn -> nthb x 0 = nthb (take extn r) 0).
        { intros Hp. rewrite Htk. symmetry. apply nthb_take0. exact Hp. }
        destruct (l7 =? 127) eqn:E127.
        -- assert (Hextn: extn = 8) by (unfold extn; try rewrite E127; destruct (l7 =? 126) eqn:?; [lia|reflexivity]).
           assert (Hwx: nthb x 0 < 256).
           { rewrite Hx0 by lia. unfold nthb, take.
             destruct (firstn (N.to_nat extn) r) as [|y ys] eqn:Ef; [simpl; lia|]. simpl.
             assert (In y r). { eapply (In_firstn y). rewrite Ef. left; reflexivity. }
             apply (proj1 (Forall_forall _ _) Hr). assumption. }
           rewrite (land128 _ Hwx). rewrite (Hx0 ltac:(lia)). cbn [andb].
           destruct (128 <=? nthb (take extn r) 0) eqn:Emsb; [reflexivity|].
           replace (l7 =? 126) with false by lia. replace (l7 <? 126) with false by lia.
           rewrite Hextn in *. rewrite <- Htk.
           assert (Hdx: drop 8 x = take (if masked then 4 else 0) (drop 8 r)).
           { subst x. unfold take, drop. rewrite skipn_firstn_comm. f_equal. unfold need. lia. }
           cbn [h_masked h_fin h_rsv h_op]. rewrite Hdx.
           repeat split; auto; [|congruence].
           f_equal. destruct masked; [|reflexivity].
           f_equal. unfold take. rewrite firstn_firstn. reflexivity.
        -- cbn [andb]. destruct (l7 =? 126) eqn:E126.
           ++ assert (Hextn: extn = 2) by (unfold extn; try rewrite E126; reflexivity).
              replace (l7 <? 126) with false by lia.
              rewrite Hextn in *. rewrite <- Htk.
              assert (Hdx: drop 2 x = take (if masked then 4 else 0) (drop 2 r)).
              { subst x. unfold take, drop. rewrite skipn_firstn_comm. f_equal. unfold need. lia. }
              cbn [h_masked h_fin h_rsv h_op]. rewrite Hdx.
              repeat split; auto; [|congruence].
              f_equal. destruct masked; [|reflexivity].
              f_equal. unfold take. rewrite firstn_firstn. reflexivity.
           ++ assert (Hextn: extn = 0) by (unfold extn; try rewrite E126; try rewrite E127; reflexivity).
              assert (Hl7: l7 <? 126 = true).
              { assert (l7 < 128) by (unfold l7; apply N.mod_lt; lia). lia. }
              rewrite Hl7. rewrite Hextn in *. rewrite drop_0.
              assert (Hm: masked = true) by (unfold need in En; destruct masked; [reflexivity|lia]).
              rewrite Hm in *. cbn [h_masked h_fin h_rsv h_op h_len].
              repeat split; auto; [|congruence].
              f_equal. f_equal. subst x. unfold take. rewrite firstn_firstn. f_equal.
              unfold need. rewrite Hm. lia.
Qed.

Lemma reader_read_header_same s : reader_read_header s = read_header s.
Proof. reflexivity. Qed.

(* ---------- encoder = RFC layout ---------- *)
Lemma write_header_rfc h : wf_header h -> write_header h = inr (rfc_header h).
Proof.
  intros (Hr & Ho & Hl & Hm & Hmw). unfold write_header, rfc_header, rfc_len_form.
  rewrite (enc_byte0 (h_fin h) _ _ Hr Ho).
  assert (Hmask: firstn 4 (h_mask h) = h_mask h) by (apply firstn_all2; lia).
  destruct (h_len h <=? 125)%Z eqn:E1.
  - replace (byte_of_z (h_len h)) with (Z.to_N (h_len h)) by (unfold byte_of_z; f_equal; lia).
    destruct (h_masked h); cbn [b2n]; rewrite ?Hmask; [|f_equal; f_equal; lia].
    rewrite lor128 by lia. reflexivity.
  - destruct (h_len h <=? 65535)%Z eqn:E2.
    + replace (h_len h mod 65536)%Z with (h_len h) by lia.
      destruct (h_masked h); cbn [b2n]; rewrite ?Hmask; reflexivity.
    + replace (h_len h <=? 9223372036854775807)%Z with true by lia.
      replace (h_len h mod 18446744073709551616)%Z with (h_len h) by lia.
      destruct (h_masked h); cbn [b2n]; rewrite ?Hmask; reflexivity.
Qed.

Lemma rfc_header_length h : wf_header h ->
  Z.of_nat (length (rfc_header h)) = header_size h.
Proof.
  intros (Hr & Ho & Hl & Hm & Hmw). unfold rfc_header, rfc_len_form, header_size.
  destruct (h_len h <=? 125)%Z eqn:E1.
  - replace (h_len h <? 126)%Z with true by lia.
    destruct (h_masked h); cbn [app length]; rewrite ?Hm; reflexivity.
  - replace (h_len h <? 126)%Z with false by lia.
    destruct (h_len h <=? 65535)%Z eqn:E2.
    + destruct (h_masked h); cbn [app length be_bytes]; rewrite ?app_length, ?Hm; reflexivity.
    + replace (h_len h <=? 9223372036854775807)%Z with true by lia.
      destruct (h_masked h); cbn [app length be_bytes]; rewrite ?app_length, ?Hm; reflexivity.
Qed.

(* minimal form: 2, 4 or 10 bytes (+4 when masked), decided by the thresholds *)
Lemma header_size_minimal h : wf_header h ->
  header_size h = ((if (h_len h <=? 125) then 2 else if (h_len h <=? 65535) then 4 else 10)
                   + (if h_masked h then 4 else 0))%Z.
Proof.
  intros (Hr & Ho & Hl & Hm & Hmw). unfold header_size.
  destruct (h_len h <=? 125)%Z eqn:E1; [replace (h_len h <? 126)%Z with true by lia|replace (h_len h <? 126)%Z with false by lia].
  - destruct (h_masked h); reflexivity.
  - destruct (h_len h <=? 65535)%Z eqn:E2.
    + destruct (h_masked h); reflexivity.
    + replace (h_len h <=? 9223372036854775807)%Z with true by lia. destruct (h_masked h); reflexivity.
Qed.

Lemma rfc_header_wf h : wf_header h -> wf_bytes (rfc_header h).
Proof.
  intros (Hr & Ho & Hl & Hm & Hmw). unfold rfc_header, rfc_len_form.
  assert (Hmk: wf_bytes (if h_masked h then h_mask h else [])) by (destruct (h_masked h); [assumption|constructor]).
  assert (H0: wf_byte (128 * b2n (h_fin h) + 16 * h_rsv h + h_op h))
    by (unfold wf_byte; destruct (h_fin h); cbn [b2n]; lia).
  destruct (h_len h <=? 125)%Z eqn:E1; [|destruct (h_len h <=? 65535)%Z eqn:E2].
  all: apply wf_bytes_app; split;
    [constructor; [exact H0|constructor; [unfold wf_byte; destruct (h_masked h); cbn [b2n]; lia|constructor]]
    |apply wf_bytes_app; split; [first [apply wf_be_bytes|constructor]|exact Hmk]].
Qed.

(* ---------- decode (encode h ++ rest) ---------- *)
Lemma be8_msb_clear v : v < 2 ^ 63 -> nthb (be_bytes 8 v) 0 < 128.
Proof.
  intros H. cbn [be_bytes nthb nth N.to_nat]. change (N.of_nat 7) with 7.
  change (256 ^ 7) with 72057594037927936. change (2 ^ 63) with 9223372036854775808 in H. lia.
Qed.

Lemma rfc_parse_tail_exact fin rsv op (masked : bool) l7 ext m rest :
  m = (if masked then m else []) -> (masked = true -> length m = 4%nat) ->
  rfc_parse_tail fin rsv op masked l7 (len ext) (ext ++ m ++ rest) =
  if (l7 =? 127) && (128 <=? nthb ext 0) then PMsb
  else PComplete (mkHeader fin rsv op masked (if masked then m else zero_mask)
                           (Z.of_N (if l7 <? 126 then l7 else be_val ext))) rest.
Proof.
  intros Hm Hlen. unfold rfc_parse_tail.
  assert (L: len m = if masked then 4 else 0).
  { destruct masked; [unfold len; rewrite Hlen; reflexivity|rewrite Hm; reflexivity]. }
  rewrite !len_app, L.
  replace (len ext + ((if masked then 4 else 0) + len rest) <? len ext + (if masked then 4 else 0)) with false
    by (destruct masked; lia).
  rewrite take_app_le by lia. rewrite (take_all (len ext) ext) by lia.
  rewrite (drop_app_ge (len ext) ext) by lia. rewrite N.sub_diag, drop_0.
  destruct ((l7 =? 127) && (128 <=? nthb ext 0)); [reflexivity|].
  f_equal.
  - f_equal. destruct masked; [|reflexivity].
    rewrite take_app_le by lia. apply take_all. lia.
  - rewrite drop_app_ge by (destruct masked; lia).
    replace (len ext + (if masked then 4 else 0) - len ext) with (len m) by lia.
    rewrite drop_app_ge by lia. rewrite N.sub_diag. apply drop_0.
Qed.

Lemma rfc_parse_header h rest : wf_header h ->
  rfc_parse (rfc_header h ++ rest) = PComplete (norm_header h) rest.
Proof.
  intros (Hr & Ho & Hl & Hm & Hmw). unfold rfc_header, rfc_len_form, norm_header.
  assert (Hfin: forall f : bool, (128 <=? 128 * b2n f + 16 * h_rsv h + h_op h) = f)
    by (intros [|]; cbn [b2n]; lia).
  assert (Hrsv: forall f : bool, ((128 * b2n f + 16 * h_rsv h + h_op h) / 16) mod 8 = h_rsv h)
    by (intros [|]; cbn [b2n]; lia).
  assert (Hop: forall f : bool, (128 * b2n f + 16 * h_rsv h + h_op h) mod 16 = h_op h)
    by (intros [|]; cbn [b2n]; lia).
  set (m := if h_masked h then h_mask h else []).
  assert (Hm1: m = if h_masked h then m else []) by (unfold m; destruct (h_masked h); reflexivity).
  assert (Hm2: h_masked h = true -> length m = 4%nat) by (unfold m; intros ->; exact Hm).
  assert (Hm3: (if h_masked h then m else zero_mask) = if h_masked h then h_mask h else zero_mask)
    by (unfold m; destruct (h_masked h); reflexivity).
  set (l := Z.to_N (h_len h)).
  destruct (h_len h <=? 125)%Z eqn:E1; [|destruct (h_len h <=? 65535)%Z eqn:E2].
  - assert (Hl': l <= 125) by lia.
    assert (Hmk: forall f : bool, (128 <=? 128 * b2n f + l) = f) by (intros [|]; cbn [b2n]; lia).
    assert (Hl7: forall f : bool, (128 * b2n f + l) mod 128 = l) by (intros [|]; cbn [b2n]; lia).
    cbn [app rfc_parse]. rewrite Hfin, Hrsv, Hop, Hmk, Hl7.
    replace (extn_of l) with (len (@nil byte)) by (unfold extn_of; replace (l =? 126) with false by lia; replace (l =? 127) with false by lia; reflexivity).
    rewrite (rfc_parse_tail_exact _ _ _ _ _ [] m rest Hm1 Hm2).
    replace (l =? 127) with false by lia. cbn [andb]. replace (l <? 126) with true by lia.
    rewrite Hm3. f_equal. f_equal. unfold l. lia.
  - assert (Hl': 125 < l <= 65535) by lia.
    assert (Hmk: forall f : bool, (128 <=? 128 * b2n f + 126) = f) by (intros [|]; cbn [b2n]; lia).
    assert (Hl7: forall f : bool, (128 * b2n f + 126) mod 128 = 126) by (intros [|]; cbn [b2n]; lia).
    rewrite <- !app_assoc. remember (be_bytes 2 l) as e eqn:He.
    assert (Hlen: len e = 2) by (subst e; unfold len; rewrite len_be_bytes; reflexivity).
    assert (Hv: be_val e = l).
    { subst e. apply be_val_be_bytes_small. change (256 ^ N.of_nat 2) with 65536. lia. }
    cbn [app rfc_parse]. rewrite Hfin, Hrsv, Hop, Hmk, Hl7.
    change (extn_of 126) with 2. rewrite <- Hlen.
    rewrite (rfc_parse_tail_exact _ _ _ _ _ e m rest Hm1 Hm2).
    cbn [N.eqb Pos.eqb andb N.ltb N.compare Pos.compare Pos.compare_cont].
    rewrite Hm3, Hv. f_equal. f_equal. unfold l. lia.
  - assert (Hl': 65535 < l < 2 ^ 63) by (change (2^63) with 9223372036854775808; lia).
    assert (Hmk: forall f : bool, (128 <=? 128 * b2n f + 127) = f) by (intros [|]; cbn [b2n]; lia).
    assert (Hl7: forall f : bool, (128 * b2n f + 127) mod 128 = 127) by (intros [|]; cbn [b2n]; lia).
    assert (Hmsb: nthb (be_bytes 8 l) 0 < 128) by (apply be8_msb_clear; lia).
    rewrite <- !app_assoc. remember (be_bytes 8 l) as e eqn:He.
    assert (Hlen: len e = 8) by (subst e; unfold len; rewrite len_be_bytes; reflexivity).
    assert (Hv: be_val e = l).
    { subst e. apply be_val_be_bytes_small. change (256 ^ N.of_nat 8) with 18446744073709551616.
      change (2^63) with 9223372036854775808 in Hl'. lia. }
    cbn [app rfc_parse]. rewrite Hfin, Hrsv, Hop, Hmk, Hl7.
    change (extn_of 127) with 8. rewrite <- Hlen.
    rewrite (rfc_parse_tail_exact _ _ _ _ _ e m rest Hm1 Hm2).
    replace (128 <=? nthb e 0) with false by lia.
    cbn [N.eqb Pos.eqb andb N.ltb N.compare Pos.compare Pos.compare_cont].
    rewrite Hm3, Hv. f_equal. f_equal. unfold l. lia.
Qed.

(* decode (encode h ++ rest) under any chunking: the identical header, not one byte more *)
Lemma read_header_roundtrip h rest s : wf_header h -> wf_bytes rest -> wf_src s ->
  flat s = rfc_header h ++ rest ->
  exists s', read_header s = (inr (norm_header h), s') /\ flat s' = rest /\ wf_src s' /\ tl s' = tl s.
Proof.
  intros Hh Hrest Hwf Hflat.
  assert (Hb: wf_bytes (flat s)) by (rewrite Hflat; apply wf_bytes_app; split; [apply rfc_header_wf, Hh|exact Hrest]).
  pose proof (read_header_spec s Hwf Hb) as H. unfold dec_agrees in H.
  destruct (read_header s) as [r s']. rewrite Hflat, (rfc_parse_header h rest Hh) in H.
  destruct H as (-> & H1 & H2 & H3). exists s'. repeat split; assumption.
Qed.

(* ---------- frames ---------- *)
Lemma write_frame_rfc f : wf_header (f_header f) ->
  write_frame f = inr [rfc_header (f_header f); f_payload f]
  /\ compile_frame f = inr (rfc_header (f_header f) ++ f_payload f).
Proof.
  intros Hh. unfold compile_frame, write_frame. rewrite (write_header_rfc _ Hh).
  split; [reflexivity|]. cbn [concat]. rewrite app_nil_r. reflexivity.
Qed.

(* whole-frame read = header codec followed by exactly Length payload bytes *)
Lemma read_frame_spec s h r : wf_src s -> wf_bytes (flat s) ->
  rfc_parse (flat s) = PComplete h r -> Z.to_N (h_len h) <= len r ->
  exists s', read_frame s = (inr (mkFrame h (take (Z.to_N (h_len h)) r)), s')
    /\ flat s' = drop (Z.to_N (h_len h)) r /\ wf_src s' /\ tl s' = tl s.
Proof.
  intros Hwf Hb Hp Hlen. unfold read_frame.
  pose proof (read_header_spec s Hwf Hb) as H. unfold dec_agrees in H. rewrite Hp in H.
  destruct (read_header s) as [res s1]. destruct H as (-> & Hf1 & Hw1 & Ht1).
  destruct (0 <? h_len h)%Z eqn:E.
  - rewrite <- Hf1 in Hlen. pose proof (read_full_ok _ s1 Hw1 Hlen) as R.
    destruct (read_full (Z.to_N (h_len h)) s1) as [[p e] s2]. destruct R as (-> & -> & Hf2 & Hw2 & Ht2).
    rewrite Hf1 in *. exists s2. repeat split; auto. congruence.
  - exists s1. replace (Z.to_N (h_len h)) with 0 by lia. rewrite take_0, drop_0. repeat split; auto.
Qed.

Lemma read_frame_roundtrip f rest s : wf_header (f_header f) ->
  h_len (f_header f) = Z.of_N (len (f_payload f)) ->
  wf_bytes (f_payload f) -> wf_bytes rest -> wf_src s ->
  flat s = rfc_header (f_header f) ++ f_payload f ++ rest ->
  exists s', read_frame s = (inr (mkFrame (norm_header (f_header f)) (f_payload f)), s')
    /\ flat s' = rest /\ wf_src s' /\ tl s' = tl s.
Proof.
  intros Hh Hl Hp Hrest Hwf Hflat.
  assert (Hb: wf_bytes (flat s)).
  { rewrite Hflat. apply wf_bytes_app; split; [apply rfc_header_wf, Hh|]. apply wf_bytes_app; split; assumption. }
  pose proof (rfc_parse_header (f_header f) (f_payload f ++ rest) Hh) as P. rewrite <- Hflat in P.
  assert (Hn: Z.to_N (h_len (norm_header (f_header f))) = len (f_payload f)) by (cbn [norm_header h_len]; lia).
  destruct (read_frame_spec s _ _ Hwf Hb P) as (s' & H1 & H2 & H3 & H4).
  { rewrite Hn, len_app. lia. }
  exists s'. rewrite Hn in *. rewrite take_app_le in H1 by lia. rewrite take_all in H1 by lia.
  rewrite drop_app_ge in H2 by lia. rewrite N.sub_diag, drop_0 in H2. repeat split; assumption.
Qed.

(* a cut inside the header or the payload never yields a frame *)
Lemma read_frame_cut s h r : wf_src s -> wf_bytes (flat s) ->
  (rfc_parse (flat s) = PIncomplete \/
   (rfc_parse (flat s) = PComplete h r /\ len r < Z.to_N (h_len h))) ->
  exists e s', read_frame s = (inl (HIo e), s').
Proof.
  intros Hwf Hb Hc. unfold read_frame.
  pose proof (read_header_spec s Hwf Hb) as H. unfold dec_agrees in H.
  destruct (read_header s) as [res s1]. destruct Hc as [Hp|[Hp Hlen]]; rewrite Hp in H.
  - destruct H as (e & -> & _). eauto.
  - destruct H as (-> & Hf1 & Hw1 & Ht1). replace (0 <? h_len h)%Z with true by lia.
    rewrite <- Hf1 in Hlen. pose proof (read_full_short _ s1 Hw1 Hlen) as R.
    destruct (read_full (Z.to_N (h_len h)) s1) as [[p e] s2]. destruct R as (_ & _ & -> & _). eauto.
Qed.
