(* WriterFailProofs.v — C16 write side: after the first failed destination write
   every later Write/WriteThrough/FlushFragment/Flush errs and nothing more is
   sent; what was delivered is a prefix of a frame stream. *)
Require Import Bytes Stream Check Frame Cipher Extracted Writer
  BytesProofs StreamProofs FrameProofs CipherProofs CheckProofs WriterProofs WriterInv WriterFrameProofs.
From Coq Require Import ZifyBool ZifyN ZifyNat.
Open Scope N_scope.

(* ------------------------------------------------------------------ a reported destination error is recorded *)
Lemma write_loop_err fuel : forall p acc w n e w',
  write_loop fuel p acc w = (inr (n, Some e), w') -> e = WHang \/ w_err w' = Some e.
Proof.
  induction fuel as [|f IH]; intros p acc w n e w' H.
  - cbn [write_loop] in H. destruct (_ && _).
    + injection H as _ <- _. left. reflexivity.
    + destruct (w_err w) eqn:E; injection H as _ H2 H3; [subst; right; congruence|discriminate].
  - rewrite write_loop_S in H. destruct (wl_cond p w).
    + destruct (w_noflush w).
      * destruct (grow (len p) w) as [[pn|[e0|]] w1] eqn:Eg; [discriminate| |eapply IH; eassumption].
        injection H as _ <- _. left.
        unfold grow in Eg. destruct (grow_loop _ _ _ _ _ _) as [[sz off]|]; [|congruence].
        destruct (sz <? _); [discriminate|]. destruct (sz =? _); discriminate.
      * destruct (w_n w =? 0).
        -- destruct (write_through p w) as [[nn e0] w1]. eapply IH; eassumption.
        -- cbv zeta in H. destruct (flush_fragment _) as [[pn|e0] w2]; [discriminate|]. eapply IH; eassumption.
    + destruct (w_err w) eqn:E; injection H as _ H2 H3; [subst; right; congruence|discriminate].
Qed.

Lemma flush_fragment_err w e w' : flush_fragment w = (inr e, w') -> w_err w' = e.
Proof.
  unfold flush_fragment. destruct (_ || _); [intros H; injection H as <- <-; reflexivity|].
  destruct (flush_fragment_raw false w) as [[pn|e0] w1]; [discriminate|]. intros H. injection H as <- <-. reflexivity.
Qed.

Lemma flush_err w e w' : flush w = (inr e, w') -> w_err w' = e.
Proof.
  unfold flush. destruct (_ || _); [intros H; injection H as <- <-; reflexivity|].
  destruct (flush_fragment_raw true w) as [[pn|e0] w1]; [discriminate|]. intros H. injection H as <- <-. reflexivity.
Qed.

Lemma grow_err n w e w' : grow n w = (inr (Some e), w') -> e = WHang.
Proof.
  unfold grow. destruct (grow_loop _ _ _ _ _ _) as [[sz off]|]; [|congruence].
  destruct (sz <? _); [discriminate|]. destruct (sz =? _); discriminate.
Qed.

Lemma read1_tl k s : tl (snd (read1 k s)) = tl s.
Proof. unfold read1. destruct (chunks s); [reflexivity|]. destruct (k <? _); reflexivity. Qed.

Lemma read1_eof k s b e s' : tl s = TEOF -> read1 k s = ((b, Some e), s') -> e = EEOF.
Proof.
  unfold read1. intros Ht. destruct (chunks s); [rewrite Ht; intros H; injection H as _ <- _; reflexivity|].
  destruct (k <? _); discriminate.
Qed.

Lemma read_from_loop_err fuel : forall s total w n e w' s', tl s = TEOF ->
  read_from_loop fuel s total w = (inr (n, Some e), w', s') -> e = WHang \/ w_err w' = Some e.
Proof.
  induction fuel as [|f IH]; intros s total w n e w' s' Ht H.
  - cbn [read_from_loop] in H. injection H as _ <- _ _. left; reflexivity.
  - cbn [read_from_loop] in H. destruct (w_available w =? 0).
    + destruct (w_noflush w).
      * destruct (grow (w_n w) w) as [[pn|[e0|]] w1] eqn:Eg; [discriminate| |eapply IH; eassumption].
        injection H as _ <- _ _. left. eapply grow_err; eassumption.
      * destruct (flush_fragment w) as [[pn|[e0|]] w1] eqn:Ef; [discriminate| |eapply IH; eassumption].
        injection H as _ <- <- _. right. eapply flush_fragment_err; eassumption.
    + pose proof (read1_tl (w_available w) s) as Ht1.
      destruct (read1 (w_available w) s) as [[b e1] s1] eqn:Er. cbn [snd] in Ht1.
      destruct e1 as [e1|]; [|eapply IH; [|eassumption]; congruence].
      rewrite (read1_eof _ _ _ _ _ Ht Er) in H. discriminate.
Qed.

Lemma write_through_err p w n w' : len p <= max_int ->
  write_through p w = ((n, Some WDest), w') -> w_err w' = Some WDest.
Proof.
  intros Hl. unfold write_through. destruct (w_err w) eqn:E; [intros H; injection H as _ <- <-; assumption|].
  destruct (negb _); [discriminate|].
  destruct (set_bits _ _) as [h1|] eqn:Es; [|discriminate].
  apply set_bits_pres in Es. destruct Es as (_ & _ & _ & _ & El). cbn [h_len] in El.
  destruct (if client_side (w_state w) then take_mask w else _) as [key masks'].
  set (h := if client_side (w_state w) then _ else h1).
  assert (Hl': h_len h = Z.of_N (len p)) by (subst h; destruct (client_side (w_state w)); cbn [h_len]; assumption).
  destruct (write_header_some h) as [hb Hhb]; [unfold max_int in *; lia|]. rewrite Hhb.
  destruct (dest_write hb (w_dest w)) as [ok1 d1]. destruct (if ok1 then _ else _) as [ok d2].
  intros H. injection H as _ H2 <-. wsimpl. assumption.
Qed.

(* ------------------------------------------------------------------ a recorded error is sticky *)
Lemma read_from_loop_sticky fuel : forall s total w e, w_err w = Some e ->
  let w' := snd (fst (read_from_loop fuel s total w)) in w_dest w' = w_dest w /\ w_err w' = Some e.
Proof.
  induction fuel as [|f IH]; intros s total w e He; [cbn; auto|].
  cbn [read_from_loop]. destruct (w_available w =? 0).
  - destruct (w_noflush w).
    + destruct (grow_same (w_n w) w) as (H1 & H2 & _).
      destruct (grow (w_n w) w) as [[pn|[e0|]] w1]; cbn [fst snd] in *; try (split; congruence).
      destruct (IH s total w1 e ltac:(congruence)) as [A B]. split; congruence.
    + unfold flush_fragment. rewrite He, orb_true_r. cbn [fst snd]. auto.
  - destruct (read1 (w_available w) s) as [[b e1] s1].
    destruct e1 as [[| |]|]; cbn [fst snd]; auto.
    destruct (IH s1 (total + len b) (set_buf w (w_buf w ++ b) (w_dirty w || (0 <? len b))) e He) as [A B]. split; assumption.
Qed.

Definition op_small (o : wop) : Prop := match o with WWriteThrough p => len p <= max_int | _ => True end.
Definition needs_err (o : wop) : bool :=
  match o with WWrite _ | WWriteThrough _ | WFlushFragment | WFlush => true | _ => false end.

(* with an error recorded: no destination call, the error stays, the four writing
   operations report an error *)
Lemma run_op_sticky o w e : w_err w = Some e -> is_reset o = false ->
  let '(o1, w1, stop) := run_op o w in
  o_calls o1 = dest_ncalls (w_dest w) /\ w_dest w1 = w_dest w /\ w_err w1 <> None /\
  (needs_err o = true -> o_err o1 <> None).
Proof.
  intros He Hr. destruct o as [p|data sizes|p| | |n| |xs|st o|o]; cbn [run_op needs_err] in *; try discriminate.
  - unfold write. assert (E: forall fuel, write_loop fuel p 0 (set_buf w (w_buf w) true) = (inr (0, Some e), set_buf w (w_buf w) true)).
    { intros fuel. destruct fuel; cbn [write_loop]; wsimpl; rewrite He, andb_false_r; reflexivity. }
    rewrite E. cbn [observe o_calls o_err]. wsimpl. rewrite He. repeat split; discriminate.
  - pose proof (read_from_loop_sticky (S (S (2 * length (flat (mkSrc (chunk_by sizes data) TEOF)) + 4)))
                  (mkSrc (chunk_by sizes data) TEOF) 0 w e He) as H.
    unfold read_from. destruct (read_from_loop _ _ _ _) as [[[pn|[n e1]] w1] s1]; cbn [fst snd] in H; destruct H as [A B];
      cbn [observe o_calls]; rewrite A, B; repeat split; discriminate.
  - unfold write_through. rewrite He. cbn [observe o_calls o_err]. rewrite He. repeat split; discriminate.
  - unfold flush_fragment. rewrite He, orb_true_r. cbn [observe o_calls o_err]. rewrite He. repeat split; discriminate.
  - unfold flush. rewrite He, orb_true_r. cbn [observe o_calls o_err]. rewrite He. repeat split; discriminate.
  - destruct (grow_same n w) as (H1 & H2 & _).
    destruct (grow n w) as [[pn|e1] w1]; cbn [fst snd observe o_calls] in *; rewrite H1, H2, He; repeat split; discriminate.
  - cbn [observe o_calls]. wsimpl. rewrite He. repeat split; discriminate.
  - cbn [observe o_calls]. wsimpl. rewrite He. repeat split; discriminate.
  - cbn [observe o_calls]. wsimpl. rewrite He. repeat split; discriminate.
Qed.

Lemma after_failure_sticky : forall ops w c, w_err w <> None -> no_reset ops = true -> c = dest_ncalls (w_dest w) ->
  after_failure (steps_of ops (fst (run_wops ops w))) true c = true.
Proof.
  induction ops as [|o rest IH]; intros w c He Hr Hc; [reflexivity|].
  cbn [no_reset forallb] in Hr. apply andb_true_iff in Hr. destruct Hr as [Hr1 Hr2].
  assert (Hr1': is_reset o = false) by (destruct (is_reset o); [discriminate|reflexivity]).
  destruct (w_err w) as [e|] eqn:Ee; [|congruence].
  rewrite run_wops_cons. pose proof (run_op_sticky o w e Ee Hr1') as H.
  destruct (run_op o w) as [[o1 w1] stop]. destruct H as (H1 & H2 & H3 & H4).
  assert (Hhead: (o_calls o1 =? c) && (match o with
          | WWrite _ | WWriteThrough _ | WFlushFragment | WFlush => match o_err o1 with Some _ => true | None => false end
          | _ => true end) = true).
  { rewrite H1, Hc, N.eqb_refl. cbn [andb]. destruct o; cbn [needs_err] in H4; try reflexivity;
      (destruct (o_err o1); [reflexivity|exfalso; apply H4; reflexivity]). }
  destruct stop.
  - cbn [fst]. unfold steps_of. cbn [combine]. rewrite combine_nil. cbn [map after_failure s_obs s_op fst snd].
    rewrite Hhead. reflexivity.
  - specialize (IH w1 c H3 Hr2 ltac:(rewrite H2; assumption)).
    destruct (run_wops rest w1) as [os w2]. cbn [fst] in *.
    unfold steps_of. cbn [combine map after_failure s_obs s_op fst snd]. fold (steps_of rest os).
    rewrite Hhead, IH. reflexivity.
Qed.

(* an operation that reports a destination error has recorded it *)
Lemma run_op_reports o w : op_small o -> is_reset o = false ->
  let '(o1, w1, stop) := run_op o w in
  o_err o1 = Some WDest -> w_err w1 <> None /\ stop = false.
Proof.
  intros Hs Hr. destruct o as [p|data sizes|p| | |n| |xs|st o|o]; cbn [run_op op_small] in *; try discriminate.
  - destruct (write p w) as [[pn|[n e]] w1] eqn:E; cbn [observe o_err]; [discriminate|]. intros ->.
    unfold write in E. destruct (write_loop_err _ _ _ _ _ _ _ E) as [H|H]; [discriminate|]. split; [congruence|reflexivity].
  - destruct (read_from _ w) as [[[pn|[n e]] w1] s1] eqn:E; cbn [observe o_err]; [discriminate|]. intros ->.
    unfold read_from in E. destruct (read_from_loop_err _ (mkSrc (chunk_by sizes data) TEOF) _ _ _ _ _ _ eq_refl E) as [H|H]; [discriminate|].
    split; [congruence|reflexivity].
  - destruct (write_through p w) as [[n e] w1] eqn:E. cbn [observe o_err]. intros ->.
    rewrite (write_through_err _ _ _ _ Hs E). split; [discriminate|reflexivity].
  - destruct (flush_fragment w) as [[pn|e] w1] eqn:E; cbn [observe o_err]; [discriminate|]. intros ->.
    rewrite (flush_fragment_err _ _ _ E). split; [discriminate|reflexivity].
  - destruct (flush w) as [[pn|e] w1] eqn:E; cbn [observe o_err]; [discriminate|]. intros ->.
    rewrite (flush_err _ _ _ E). split; [discriminate|reflexivity].
  - destruct (grow n w) as [[pn|e] w1] eqn:E; cbn [observe o_err]; [discriminate|]. intros ->.
    apply grow_err in E. discriminate.
Qed.

Lemma after_failure_holds : forall ops w, no_reset ops = true -> Forall op_small ops ->
  after_failure (steps_of ops (fst (run_wops ops w))) false 0 = true.
Proof.
  induction ops as [|o rest IH]; intros w Hr Hs; [reflexivity|].
  inversion Hs as [|? ? Hs1 Hs2]; subst.
  pose proof Hr as Hr0. cbn [no_reset forallb] in Hr. apply andb_true_iff in Hr. destruct Hr as [Hr1 Hr2].
  assert (Hr1': is_reset o = false) by (destruct (is_reset o); [discriminate|reflexivity]).
  rewrite run_wops_cons. pose proof (run_op_reports o w Hs1 Hr1') as H.
  pose proof (run_op_calls o w Hr1') as Hc.
  destruct (run_op o w) as [[o1 w1] stop]. cbn [fst snd] in Hc.
  destruct (o_err o1) as [[| | | | |]|] eqn:Ee.
  - destruct (H eq_refl) as [He ->].
    pose proof (after_failure_sticky rest w1 (o_calls o1) He Hr2 Hc) as Hst.
    destruct (run_wops rest w1) as [os w2]. cbn [fst] in *.
    unfold steps_of. cbn [combine map after_failure s_obs s_op fst snd]. rewrite Ee. exact Hst.
  - destruct stop; [cbn [fst]; unfold steps_of; cbn [combine]; rewrite combine_nil; cbn [map after_failure s_obs s_op fst snd]; rewrite Ee; reflexivity|].
    specialize (IH w1 Hr2 Hs2). destruct (run_wops rest w1) as [os w2]. cbn [fst] in *.
    unfold steps_of. cbn [combine map after_failure s_obs s_op fst snd]. rewrite Ee. exact IH.
  - destruct stop; [cbn [fst]; unfold steps_of; cbn [combine]; rewrite combine_nil; cbn [map after_failure s_obs s_op fst snd]; rewrite Ee; reflexivity|].
    specialize (IH w1 Hr2 Hs2). destruct (run_wops rest w1) as [os w2]. cbn [fst] in *.
    unfold steps_of. cbn [combine map after_failure s_obs s_op fst snd]. rewrite Ee. exact IH.
  - destruct stop; [cbn [fst]; unfold steps_of; cbn [combine]; rewrite combine_nil; cbn [map after_failure s_obs s_op fst snd]; rewrite Ee; reflexivity|].
    specialize (IH w1 Hr2 Hs2). destruct (run_wops rest w1) as [os w2]. cbn [fst] in *.
    unfold steps_of. cbn [combine map after_failure s_obs s_op fst snd]. rewrite Ee. exact IH.
  - destruct stop; [cbn [fst]; unfold steps_of; cbn [combine]; rewrite combine_nil; cbn [map after_failure s_obs s_op fst snd]; rewrite Ee; reflexivity|].
    specialize (IH w1 Hr2 Hs2). destruct (run_wops rest w1) as [os w2]. cbn [fst] in *.
    unfold steps_of. cbn [combine map after_failure s_obs s_op fst snd]. rewrite Ee. exact IH.
  - destruct stop; [cbn [fst]; unfold steps_of; cbn [combine]; rewrite combine_nil; cbn [map after_failure s_obs s_op fst snd]; rewrite Ee; reflexivity|].
    specialize (IH w1 Hr2 Hs2). destruct (run_wops rest w1) as [os w2]. cbn [fst] in *.
    unfold steps_of. cbn [combine map after_failure s_obs s_op fst snd]. rewrite Ee. exact IH.
  - destruct stop; [cbn [fst]; unfold steps_of; cbn [combine]; rewrite combine_nil; cbn [map after_failure s_obs s_op fst snd]; rewrite Ee; reflexivity|].
    specialize (IH w1 Hr2 Hs2). destruct (run_wops rest w1) as [os w2]. cbn [fst] in *.
    unfold steps_of. cbn [combine map after_failure s_obs s_op fst snd]. rewrite Ee. exact IH.
Qed.

(* ------------------------------------------------------------------ what was delivered is a prefix of a frame stream *)
Lemma frames_prefix_step f fuel rest : wf_pframe f ->
  frames_prefix_ok (S fuel) (frame_bytes f ++ rest) = frames_prefix_ok fuel rest.
Proof.
  intros Hf. pose proof Hf as (Hh & Hl & Hp & Hm). unfold frame_bytes.
  destruct (rfc_header_nonempty (pf_header f)) as (b0 & b1 & r & Er).
  rewrite <- !app_assoc.
  assert (Hne: exists x y, rfc_header (pf_header f) ++ pf_payload f ++ rest = x :: y) by (rewrite Er; eexists _, _; reflexivity).
  destruct Hne as (x & y & Hxy).
  cbn [frames_prefix_ok]. rewrite Hxy. rewrite <- Hxy.
  rewrite rfc_parse_header by assumption. cbn [norm_header h_len].
  rewrite Hl, N2Z.id. rewrite len_app.
  replace (len (pf_payload f) + len rest <? len (pf_payload f)) with false by lia.
  rewrite drop_app_ge by lia. rewrite N.sub_diag, drop_0. reflexivity.
Qed.

Lemma frames_prefix_wire fs : forall part fuel, Forall wf_pframe fs -> partial_ok part ->
  (length fs < fuel)%nat -> frames_prefix_ok fuel (wire fs ++ part) = true.
Proof.
  induction fs as [|f fs IH]; intros part fuel Hfs Hp Hfu.
  - cbn [wire map concat app]. destruct fuel as [|fuel]; [cbn in Hfu; lia|].
    destruct Hp as [->|(h & Hh & ->)]; [reflexivity|].
    destruct (rfc_header_nonempty h) as (b0 & b1 & r & Er).
    cbn [frames_prefix_ok]. rewrite Er. rewrite <- Er.
    rewrite <- (app_nil_r (rfc_header h)). rewrite rfc_parse_header by assumption.
    cbn [norm_header h_len]. destruct (len [] <? _); [reflexivity|]. rewrite drop_all by (rewrite len_nil; lia).
    destruct fuel; reflexivity.
  - inversion Hfs as [|? ? Hf Hfs']; subst. destruct fuel as [|fuel]; [cbn in Hfu; lia|].
    change (wire (f :: fs)) with (frame_bytes f ++ wire fs). rewrite <- app_assoc.
    rewrite frames_prefix_step by assumption. apply IH; try assumption. cbn [length] in Hfu. lia.
Qed.

Lemma op_wf_no_reset_all ops : Forall op_wf ops -> no_reset ops = true.
Proof.
  induction 1 as [|o r Ho Hr IH]; [reflexivity|]. cbn [no_reset forallb]. fold (no_reset r).
  rewrite IH, (op_wf_no_reset o Ho). reflexivity.
Qed.

(* C16 (write side): for EVERY failing write index and every history *)
Theorem c16w_monitor_holds ops w0 : Jinv (w_dest w0) w0 -> Forall op_wf ops -> Forall op_small ops ->
  c16w_monitor (steps_of ops (fst (run_wops ops w0))) (dest_log (w_dest (snd (run_wops ops w0)))) = true.
Proof.
  intros HJ Hwf Hsm. unfold c16w_monitor.
  rewrite (after_failure_holds ops w0 (op_wf_no_reset_all ops Hwf) Hsm). cbn [andb].
  pose proof (run_wops_J _ ops w0 HJ Hwf) as [_ (fs & part & H1 & H2 & H3 & _) _].
  unfold log_bytes in H2. rewrite H2. apply frames_prefix_wire; try assumption.
  rewrite app_length. pose proof (wire_length fs). lia.
Qed.

Corollary c16w_monitor_fresh ops w0 : w_op w0 < 16 -> w_buf w0 = [] -> Forall wf_key (w_masks w0) ->
  d_calls (w_dest w0) = [] -> Forall op_wf ops -> Forall op_small ops ->
  c16w_monitor (steps_of ops (fst (run_wops ops w0))) (dest_log (w_dest (snd (run_wops ops w0)))) = true.
Proof. intros Ho Hb Hm Hd. apply c16w_monitor_holds. apply fresh_Jinv; assumption. Qed.
