(* ReaderAux.v — generic facts used by the stream-level Reader proof (C04):
   list splitting, ws.State bits, UTF-8 viability = DFA liveness, event-list
   matching, well-formedness of the spec's wire encoding. *)
Require Import Bytes Stream Utf8Spec Check Frame Cipher Utf8Dfa Extracted ExtractedOk Reader
  BytesProofs StreamProofs CheckProofs FrameProofs CipherProofs Utf8Proofs.
From Coq Require Import ZifyBool ZifyN ZifyNat.
Open Scope N_scope.

(* ------------------------------------------------------------------ the property's quantifier *)
Definition wf_sframe (f : sframe) : Prop :=
  sf_rsv f < 8 /\ sf_op f < 16 /\ wf_bytes (sf_payload f) /\
  (Z.of_N (len (sf_payload f)) <= 9223372036854775807)%Z /\
  match sf_key f with Some k => length k = 4%nat /\ wf_bytes k | None => True end.

Definition wf_cfg (c : rcfg) : Prop := c_state c < 8.

(* ------------------------------------------------------------------ lists *)
Lemma len_length {A} (l : list A) : len l = N.of_nat (length l).
Proof. reflexivity. Qed.

Lemma len_0_nil {A} (l : list A) : len l = 0 -> l = [].
Proof. destruct l; [reflexivity|]. rewrite len_cons. lia. Qed.

Lemma len_pos {A} (l : list A) : l <> [] -> 0 < len l.
Proof. destruct l; [contradiction|]. rewrite len_cons. lia. Qed.

Lemma app_split_prefix {A} (a x b y : list A) : a ++ x = b ++ y -> len b <= len a ->
  b = take (len b) a /\ y = drop (len b) a ++ x.
Proof.
  intros E H. split.
  - apply (f_equal (take (len b))) in E. rewrite take_app_le in E by exact H.
    rewrite take_app_le in E by lia. rewrite (take_all (len b) b) in E by lia. symmetry. exact E.
  - apply (f_equal (drop (len b))) in E. rewrite drop_app_le in E by exact H.
    rewrite drop_app_ge in E by lia. rewrite N.sub_diag, drop_0 in E. symmetry. exact E.
Qed.

Lemma concat_rev_cons (d : list byte) racc :
  concat (rev_append (d :: racc) []) = concat (rev_append racc []) ++ d.
Proof.
  rewrite !rev_append_rev, !app_nil_r. cbn [rev]. rewrite concat_app. cbn [concat].
  rewrite app_nil_r. reflexivity.
Qed.

(* ------------------------------------------------------------------ one transport read *)
Lemma read1_len k s : len (fst (fst (read1 k s))) <= k.
Proof.
  unfold read1. destruct (chunks s) as [|c cs]; cbn [fst]; [rewrite len_nil; lia|].
  destruct (k <? len c) eqn:E; cbn [fst]; [rewrite len_take|]; lia.
Qed.

(* ------------------------------------------------------------------ masking, piecewise *)
Lemma len_mask_spec p key off : len (mask_spec p key off) = len p.
Proof. unfold len. rewrite mask_spec_length. reflexivity. Qed.

Lemma mask_spec_take n p key off : n <= len p ->
  take n (mask_spec p key off) = mask_spec (take n p) key off.
Proof.
  intros H. rewrite <- (take_drop n p) at 1. rewrite mask_spec_app.
  rewrite take_app_le by (rewrite len_mask_spec, len_take; lia).
  apply take_all. rewrite len_mask_spec, len_take. lia.
Qed.

Lemma mask_spec_drop n p key off : n <= len p ->
  drop n (mask_spec p key off) = mask_spec (drop n p) key (off + n).
Proof.
  intros H. rewrite <- (take_drop n p) at 1. rewrite mask_spec_app.
  rewrite drop_app_ge by (rewrite len_mask_spec, len_take; lia).
  rewrite len_mask_spec, len_take. replace (n - N.min n (len p)) with 0 by lia.
  rewrite drop_0. replace (N.min n (len p)) with n by lia. reflexivity.
Qed.

(* ------------------------------------------------------------------ ws.State bits *)
Lemma st_frag_set s b : st_fragmented (set_fragmented s b) = b.
Proof.
  unfold st_fragmented, set_fragmented. destruct b.
  - rewrite N.lor_spec. change (N.testbit 8 3) with true. apply orb_true_r.
  - rewrite N.land_spec. change (N.testbit 247 3) with false. apply andb_false_r.
Qed.

Lemma set_frag_twice s a b : s < 8 -> set_fragmented (set_fragmented s a) b = set_fragmented s b.
Proof.
  intros H.
  pose proof (lt_forall 8%nat (fun s => forallb (fun a => forallb (fun b =>
     set_fragmented (set_fragmented s a) b =? set_fragmented s b) [true; false]) [true; false]) eq_refl s H) as E.
  cbn [forallb] in E. destruct a, b; lia.
Qed.

Lemma set_frag_init s : s < 8 -> set_fragmented s false = s.
Proof.
  intros H. pose proof (lt_forall 8%nat (fun s => set_fragmented s false =? s) eq_refl s H) as E. apply N.eqb_eq in E. exact E.
Qed.

(* ------------------------------------------------------------------ UTF-8: viable = DFA not dead *)
Lemma completion_listed s : In (completion s) utf8_completions.
Proof.
  unfold utf8_completions.
  destruct s as [|p]; [simpl; tauto|].
  do 7 (destruct p as [p|p|]; try (simpl; tauto)).
Qed.

Lemma completions_wf : Forall wf_bytes utf8_completions.
Proof. unfold utf8_completions. repeat constructor; unfold wf_byte; lia. Qed.

Lemma utf8_viable_dfa l : wf_bytes l -> utf8_viable l = negb (u8_run 0 l =? 12).
Proof.
  intros Hl. unfold utf8_viable. destruct (u8_run 0 l =? 12) eqn:E; cbn [negb].
  - destruct (existsb _ _) eqn:X; [|reflexivity]. apply existsb_exists in X.
    destruct X as (ext & Hin & Hv).
    rewrite (dfa_reject_dead l ext Hl) in Hv; [discriminate| |lia].
    exact (proj1 (Forall_forall _ _) completions_wf ext Hin).
  - apply existsb_exists. set (s := u8_run 0 l) in *.
    assert (Hs: In s states) by (apply run_states; [exact Hl|simpl; tauto]).
    pose proof completion_ok as C. rewrite forallb_forall in C. specialize (C s Hs).
    apply orb_true_iff in C. destruct C as [C|C]; [lia|].
    apply andb_true_iff in C. destruct C as [C1 C2]. apply wf_bytesb_ok in C2.
    exists (completion s). split; [apply completion_listed|].
    rewrite <- dfa_correct by (apply wf_bytes_app; split; assumption).
    rewrite run_app. fold s. exact C1.
Qed.

Lemma dead_prefix_invalid a b : wf_bytes a -> wf_bytes b -> u8_run 0 a = 12 ->
  valid_utf8 (a ++ b) = false /\ utf8_viable (a ++ b) = false.
Proof.
  intros Ha Hb H. split; [apply dfa_reject_dead; assumption|].
  rewrite utf8_viable_dfa by (apply wf_bytes_app; split; assumption).
  rewrite run_app, H, run12 by exact Hb. reflexivity.
Qed.

(* ------------------------------------------------------------------ event lists *)
Lemma evs_match_app a : forall b x y, evs_match a b = true -> ev_matches x y = true ->
  evs_match (a ++ [x]) (b ++ [y]) = true.
Proof.
  induction a as [|u a IH]; intros [|v b] x y H1 H2; cbn [evs_match app] in *; try discriminate.
  - rewrite H2. reflexivity.
  - apply andb_true_iff in H1. destruct H1 as [H1 H3]. rewrite H1. cbn [andb]. apply IH; assumption.
Qed.

Lemma bytes_eqb_refl a : bytes_eqb a a = true.
Proof. apply bytes_eqb_eq. reflexivity. Qed.

Lemma ev_matches_same o p i c1 c2 : (c1 = c2 \/ (spec_control o = true /\ i = false)) ->
  ev_matches (mkEv o p i c1) (mkEv o p i c2) = true.
Proof.
  intros H. unfold ev_matches. cbn [ev_op ev_payload ev_inter ev_comp].
  rewrite N.eqb_refl, bytes_eqb_refl, eqb_reflx. cbn [andb].
  destruct H as [->|[-> ->]]; [rewrite eqb_reflx; reflexivity|]. cbn [negb andb]. apply orb_true_r.
Qed.

(* ------------------------------------------------------------------ the spec's wire bytes *)
Lemma sf_header_wf f : wf_sframe f -> wf_header (sf_header f).
Proof.
  intros (Hr & Ho & Hp & Hl & Hk). unfold wf_header, sf_header. cbn [h_rsv h_op h_len h_mask].
  repeat split; try assumption; try lia.
  - destruct (sf_key f) as [k|]; [apply Hk|reflexivity].
  - destruct (sf_key f) as [k|]; [apply Hk|]. unfold zero_mask. repeat constructor; unfold wf_byte; lia.
Qed.

Lemma sf_header_norm f : norm_header (sf_header f) = sf_header f.
Proof. unfold norm_header, sf_header. cbn [h_fin h_rsv h_op h_masked h_mask h_len]. destruct (sf_key f); reflexivity. Qed.

(* the payload bytes of frame f still on the wire when [off] payload bytes were consumed *)
Definition wpay (f : sframe) (off : N) (post : list byte) : list byte :=
  match sf_key f with Some k => mask_spec post k off | None => post end.

Lemma sf_wire_eq f : sf_wire f = rfc_header (sf_header f) ++ wpay f 0 (sf_payload f).
Proof. reflexivity. Qed.

Lemma wpay_wf f off post : wf_sframe f -> wf_bytes post -> wf_bytes (wpay f off post).
Proof.
  intros (_ & _ & _ & _ & Hk) Hp. unfold wpay. destruct (sf_key f) as [k|]; [|exact Hp].
  apply mask_spec_wf; [exact Hp|apply Hk].
Qed.

Lemma len_wpay f off post : len (wpay f off post) = len post.
Proof. unfold wpay. destruct (sf_key f); [apply len_mask_spec|reflexivity]. Qed.

Lemma wpay_take f off n post : n <= len post -> take n (wpay f off post) = wpay f off (take n post).
Proof. intros H. unfold wpay. destruct (sf_key f); [apply mask_spec_take, H|reflexivity]. Qed.
Lemma wpay_drop f off n post : n <= len post -> drop n (wpay f off post) = wpay f (off + n) (drop n post).
Proof. intros H. unfold wpay. destruct (sf_key f); [apply mask_spec_drop, H|reflexivity]. Qed.

Lemma sf_wire_wf f : wf_sframe f -> wf_bytes (sf_wire f).
Proof.
  intros H. rewrite sf_wire_eq. apply wf_bytes_app. split.
  - apply rfc_header_wf, sf_header_wf, H.
  - apply wpay_wf; [exact H|apply H].
Qed.

Lemma wire_wf fs : Forall wf_sframe fs -> wf_bytes (wire fs).
Proof.
  induction 1 as [|f fs Hf _ IH]; unfold wire in *; cbn [map concat]; [constructor|].
  apply wf_bytes_app. split; [apply sf_wire_wf, Hf|exact IH].
Qed.

Lemma wire_cons f fs : wire (f :: fs) = rfc_header (sf_header f) ++ wpay f 0 (sf_payload f) ++ wire fs.
Proof. unfold wire. cbn [map concat]. rewrite sf_wire_eq, <- app_assoc. reflexivity. Qed.

Lemma rfc_header_len2 h : (2 <= length (rfc_header h))%nat.
Proof. unfold rfc_header. destruct (rfc_len_form (h_len h)) as [l7 ext]. cbn [app length]. lia. Qed.

(* ------------------------------------------------------------------ end of the stream at a frame boundary *)
Lemma header_eof s : wf_src s -> flat s = [] -> tl s = TEOF ->
  exists s', reader_read_header s = (inl (HIo EEOF), s') /\ flat s' = [].
Proof.
  intros Hwf Hf Ht. unfold reader_read_header.
  pose proof (read_full_short 2 s Hwf ltac:(rewrite Hf, len_nil; lia)) as R.
  destruct (read_full 2 s) as [[b e] s1]. destruct R as (_ & Hf1 & -> & _).
  rewrite Ht, Hf, len_nil. cbn [N.eqb]. eexists. split; [reflexivity|exact Hf1].
Qed.
