(* Tie C obligations: the definitions TRANSLATED from the Go source on this run
   (gen/Translated.v, by `harness translate`) are, for ALL arguments in the range
   of their Go types, equal to the hand-written model functions the theorems of
   the development are about.

   The proofs do not look at the shape of the generated terms: everything is
   unfolded, wraps and comparisons are settled by lia from the range hypotheses,
   and what remains is decided on the (genuinely finite) domains opcode / state /
   flags by vm_compute, lifted to the quantified statement by forallb_forall. *)
From Coq Require Import NArith ZArith List Bool Lia ZifyBool ZifyN ZifyNat.
Require Import Bytes Utf8Spec Check Frame Writer Translated.
Import ListNotations.
Ltac Zify.zify_post_hook ::= Z.div_mod_to_equations.
Open Scope N_scope.

(* ------------------------------------------------------------------ finite sweeps *)
Definition rangeN (n : N) : list N := N.peano_rect (fun _ => list N) [] (fun k l => k :: l) n.

Lemma rangeN_in (n k : N) : k < n -> In k (rangeN n).
Proof.
  unfold rangeN. induction n as [|n IH] using N.peano_ind; intros H; [lia|].
  rewrite N.peano_rect_succ. destruct (N.eq_dec k n) as [->|Hne]; [left; reflexivity|].
  right. apply IH. lia.
Qed.

Lemma sweep1 (n : N) (f : N -> bool) :
  forallb f (rangeN n) = true -> forall a, a < n -> f a = true.
Proof. intros H a Ha. rewrite forallb_forall in H. apply H, rangeN_in, Ha. Qed.

Lemma sweep2 (n m : N) (f : N -> N -> bool) :
  forallb (fun a => forallb (f a) (rangeN m)) (rangeN n) = true ->
  forall a, a < n -> forall b, b < m -> f a b = true.
Proof.
  intros H a Ha b Hb. rewrite forallb_forall in H.
  exact (sweep1 m (f a) (H a (rangeN_in n a Ha)) b Hb).
Qed.

(* results compared by decidable equality *)
Scheme Equality for g_error.
Definition oerr_eqb (a b : option g_error) : bool :=
  match a, b with
  | None, None => true
  | Some x, Some y => g_error_beq x y
  | _, _ => false
  end.
Lemma oerr_eqb_eq a b : oerr_eqb a b = true -> a = b.
Proof.
  destruct a as [x|], b as [y|]; cbn; intros H; try discriminate; try reflexivity.
  f_equal. apply internal_g_error_dec_bl, H.
Qed.
Lemma bool_eqb_eq (a b : bool) : Bool.eqb a b = true -> a = b.
Proof. apply Bool.eqb_prop. Qed.
Lemma z_eqb_eq (a b : Z) : (a =? b)%Z = true -> a = b.
Proof. apply Z.eqb_eq. Qed.

Ltac to_eqb := first [ apply bool_eqb_eq | apply z_eqb_eq | apply oerr_eqb_eq ].
(* goal [forall a, a < n -> L a = R a] (the bound n a numeral) *)
Ltac by_sweep1 := intros ? ?; to_eqb;
  match goal with a : N, H : (?a' < ?n) |- _ => constr_eq a a'; revert a H; apply (sweep1 n) end;
  vm_compute; reflexivity.

(* ------------------------------------------------------------------ wraps *)
Lemma wrap_s_id k x lo hi :
  (- 2 ^ (k - 1))%Z = lo -> (2 ^ (k - 1))%Z = hi -> (0 <? k)%Z = true ->
  (lo <= x < hi)%Z -> wrap_s k x = x.
Proof.
  intros <- <- Hk H. unfold wrap_s.
  replace (2 ^ k)%Z with (2 * 2 ^ (k - 1))%Z by (rewrite <- Z.pow_succ_r by lia; f_equal; lia).
  rewrite Z.mod_small by lia. lia.
Qed.
Lemma wrap_u_id k x hi : (2 ^ k)%Z = hi -> (0 <= x < hi)%Z -> wrap_u k x = x.
Proof. intros <- H. unfold wrap_u. apply Z.mod_small, H. Qed.

(* remove every wrap whose argument is in range by linear arithmetic *)
Ltac unwrap :=
  repeat match goal with
  | |- context [wrap_s ?k ?x] =>
      let lo := eval vm_compute in (- 2 ^ (k - 1))%Z in
      let hi := eval vm_compute in (2 ^ (k - 1))%Z in
      rewrite (wrap_s_id k x lo hi eq_refl eq_refl eq_refl) by lia
  | |- context [wrap_u ?k ?x] =>
      let hi := eval vm_compute in (2 ^ k)%Z in
      rewrite (wrap_u_id k x hi eq_refl) by lia
  end.

(* settle every integer comparison that linear arithmetic decides *)
Ltac settle1 c :=
  first [ replace c with true by (symmetry; lia) | replace c with false by (symmetry; lia) ].
Ltac settle :=
  repeat match goal with
  | |- context [Z.eqb ?a ?b] => settle1 (Z.eqb a b)
  | |- context [Z.leb ?a ?b] => settle1 (Z.leb a b)
  | |- context [Z.ltb ?a ?b] => settle1 (Z.ltb a b)
  | |- context [N.eqb ?a ?b] => settle1 (N.eqb a b)
  | |- context [N.leb ?a ?b] => settle1 (N.leb a b)
  | |- context [N.ltb ?a ?b] => settle1 (N.ltb a b)
  end.

(* [x] does not occur in the goal any more *)
Ltac gone x :=
  lazymatch goal with
  | |- context [x] => fail 0 "the goal still depends on" x "(a comparison that the case split does not decide)"
  | |- _ => idtac
  end.

(* case analysis on every condition, then arithmetic *)
Ltac split_ifs :=
  repeat (match goal with
          | |- context [if ?c then _ else _] => let E := fresh "E" in destruct c eqn:E
          end; cbv beta iota).
Ltac arith := split_ifs; first [ reflexivity | lia | congruence ].

(* unfold the translated functions (all of them: hint db of the generated file)
   and the record projections of both sides *)
Ltac xunfold := autounfold with xlate; cbv beta iota zeta delta
  [g_Header_Fin g_Header_Rsv g_Header_OpCode g_Header_Masked g_Header_Length
   g_StatusCodeRange_Min g_StatusCodeRange_Max
   h_fin h_rsv h_op h_masked h_mask h_len].

(* ------------------------------------------------------------------ bit tests, linearly *)
(* x & m for a constant m, as a sum of the selected binary digits of x: turns
   the one-bit tests of the state into div/mod arithmetic that lia decides *)
Fixpoint land_c (m : positive) (a : Z) : Z :=
  match m with
  | xH => a mod 2
  | xO m' => 2 * land_c m' (a / 2)
  | xI m' => a mod 2 + 2 * land_c m' (a / 2)
  end%Z.

Lemma land_2 a b x y :
  Z.land (2 * a + Z.b2z x) (2 * b + Z.b2z y) = (2 * Z.land a b + Z.b2z (x && y))%Z.
Proof.
  apply Z.bits_inj'. intros n Hn. rewrite Z.land_spec.
  destruct (Z.eq_dec n 0) as [->|Hn0].
  - rewrite !Z.testbit_0_r. reflexivity.
  - replace n with (Z.succ (n - 1)) by lia. rewrite !Z.testbit_succ_r by lia.
    symmetry. apply Z.land_spec.
Qed.
Lemma split_low a : a = (2 * (a / 2) + Z.b2z (Z.odd a))%Z.
Proof. rewrite <- Z.div2_div. apply Z.div2_odd. Qed.
Lemma mod2_odd a : (a mod 2)%Z = Z.b2z (Z.odd a).
Proof. rewrite <- Z.bit0_odd. symmetry. apply Z.bit0_mod. Qed.

Lemma land_c_ok m : forall a, Z.land a (Zpos m) = land_c m a.
Proof.
  induction m as [m IH|m IH|]; intros a; cbn [land_c].
  - rewrite <- IH, mod2_odd. rewrite (split_low a) at 1.
    change (Z.pos m~1) with (2 * Z.pos m + Z.b2z true)%Z.
    rewrite land_2, andb_true_r. lia.
  - rewrite <- IH. rewrite (split_low a) at 1.
    change (Z.pos m~0) with (2 * Z.pos m + Z.b2z false)%Z.
    rewrite land_2, andb_false_r. cbn [Z.b2z]. lia.
  - rewrite mod2_odd. rewrite (split_low a) at 1.
    change 1%Z with (2 * 0 + Z.b2z true)%Z at 1.
    rewrite land_2, andb_true_r, Z.land_0_r. lia.
Qed.
Lemma land_c_ok' m a : Z.land (Zpos m) a = land_c m a.
Proof. rewrite Z.land_comm. apply land_c_ok. Qed.

Lemma testbit_lin s k : N.testbit s k = negb ((Z.of_N s / 2 ^ Z.of_N k) mod 2 =? 0)%Z.
Proof.
  rewrite <- Z.testbit_of_N.
  destruct (Z.testbit (Z.of_N s) (Z.of_N k)) eqn:E.
  - apply Z.testbit_true in E; [|lia]. rewrite E. reflexivity.
  - apply Z.testbit_false in E; [|lia]. rewrite E. reflexivity.
Qed.

Ltac linbits :=
  repeat match goal with
  | |- context [Z.land ?a (Zpos ?m)] => rewrite (land_c_ok m a); cbn [land_c]
  | |- context [Z.land (Zpos ?m) ?a] => rewrite (land_c_ok' m a); cbn [land_c]
  | |- context [N.testbit ?s ?k] =>
      rewrite (testbit_lin s k);
      let p := eval vm_compute in (2 ^ Z.of_N k)%Z in change (2 ^ Z.of_N k)%Z with p
  end.

(* ================================================================== frame.go *)
(* ---- OpCode: every byte value *)
Lemma xl_OpCode_IsControl : forall c, c < 256 -> g_OpCode_IsControl (Z.of_N c) = op_is_control c.
Proof. by_sweep1. Qed.
Lemma xl_OpCode_IsData : forall c, c < 256 -> g_OpCode_IsData (Z.of_N c) = op_is_data c.
Proof. by_sweep1. Qed.
Lemma xl_OpCode_IsReserved : forall c, c < 256 -> g_OpCode_IsReserved (Z.of_N c) = op_is_reserved c.
Proof. by_sweep1. Qed.

(* ---- StatusCode: every uint16 value *)
Lemma xl_StatusCode_In : forall c lo hi,
  g_StatusCode_In (Z.of_N c) (g_mk_StatusCodeRange (Z.of_N lo) (Z.of_N hi)) = in_range lo hi c.
Proof. intros. unfold in_range. xunfold. lia. Qed.
Lemma xl_StatusCode_Empty : forall c, c < 65536 -> g_StatusCode_Empty (Z.of_N c) = (c =? 0).
Proof. by_sweep1. Qed.
Lemma xl_StatusCode_IsNotUsed : forall c, c < 65536 -> g_StatusCode_IsNotUsed (Z.of_N c) = sc_not_used c.
Proof. by_sweep1. Qed.
Lemma xl_StatusCode_IsApplicationSpec : forall c, c < 65536 ->
  g_StatusCode_IsApplicationSpec (Z.of_N c) = sc_application_spec c.
Proof. by_sweep1. Qed.
Lemma xl_StatusCode_IsPrivateSpec : forall c, c < 65536 ->
  g_StatusCode_IsPrivateSpec (Z.of_N c) = sc_private_spec c.
Proof. by_sweep1. Qed.
Lemma xl_StatusCode_IsProtocolSpec : forall c, c < 65536 ->
  g_StatusCode_IsProtocolSpec (Z.of_N c) = sc_protocol_spec c.
Proof. by_sweep1. Qed.
Lemma xl_StatusCode_IsProtocolDefined : forall c, c < 65536 ->
  g_StatusCode_IsProtocolDefined (Z.of_N c) = sc_protocol_defined c.
Proof. by_sweep1. Qed.
Lemma xl_StatusCode_IsProtocolReserved : forall c, c < 65536 ->
  g_StatusCode_IsProtocolReserved (Z.of_N c) = sc_protocol_reserved c.
Proof. by_sweep1. Qed.

(* ---- Header.Rsv1..3, Rsv: the rsv byte *)
Definition hdr_of (h : header) : g_Header :=
  g_mk_Header (h_fin h) (Z.of_N (h_rsv h)) (Z.of_N (h_op h)) (h_masked h) (h_len h).

Lemma xl_Header_Rsv_bits : forall r, r < 256 -> forall fin op masked len,
  let h := g_mk_Header fin (Z.of_N r) op masked len in
  g_Header_Rsv1 h = N.testbit r 2 /\ g_Header_Rsv2 h = N.testbit r 1 /\ g_Header_Rsv3 h = N.testbit r 0.
Proof.
  intros r Hr fin op masked len h. subst h.
  assert (G : forall r, r < 256 ->
     Bool.eqb (g_Header_Rsv1 (g_mk_Header false (Z.of_N r) 0 false 0)) (N.testbit r 2)
     && Bool.eqb (g_Header_Rsv2 (g_mk_Header false (Z.of_N r) 0 false 0)) (N.testbit r 1)
     && Bool.eqb (g_Header_Rsv3 (g_mk_Header false (Z.of_N r) 0 false 0)) (N.testbit r 0) = true).
  { apply (sweep1 256). vm_compute. reflexivity. }
  specialize (G r Hr). apply andb_prop in G. destruct G as [G G3]. apply andb_prop in G. destruct G as [G1 G2].
  apply Bool.eqb_prop in G1, G2, G3. repeat split; assumption.
Qed.

Definition b2z (b : bool) : Z := if b then 1%Z else 0%Z.
Lemma xl_Rsv : forall r1 r2 r3, g_Rsv r1 r2 r3 = (4 * b2z r1 + 2 * b2z r2 + b2z r3)%Z.
Proof. intros [] [] []; vm_compute; reflexivity. Qed.

(* ================================================================== check.go *)
(* ---- State: every pair of uint8 values *)
Lemma xl_State_Is : forall s, s < 256 -> forall v, v < 256 ->
  g_State_Is (Z.of_N s) (Z.of_N v) = negb (N.land s v =? 0).
Proof. intros s Hs v Hv. to_eqb. revert s Hs v Hv. apply (sweep2 256 256). vm_compute. reflexivity. Qed.
Lemma xl_State_Set : forall s, s < 256 -> forall v, v < 256 ->
  g_State_Set (Z.of_N s) (Z.of_N v) = Z.of_N (N.lor s v).
Proof. intros s Hs v Hv. to_eqb. revert s Hs v Hv. apply (sweep2 256 256). vm_compute. reflexivity. Qed.
Lemma xl_State_Clear : forall s, s < 256 -> forall v, v < 256 ->
  g_State_Clear (Z.of_N s) (Z.of_N v) = Z.of_N (N.ldiff s v).
Proof. intros s Hs v Hv. to_eqb. revert s Hs v Hv. apply (sweep2 256 256). vm_compute. reflexivity. Qed.
Lemma xl_State_ServerSide : forall s, s < 256 -> g_State_ServerSide (Z.of_N s) = st_server s.
Proof. by_sweep1. Qed.
Lemma xl_State_ClientSide : forall s, s < 256 -> g_State_ClientSide (Z.of_N s) = st_client s.
Proof. by_sweep1. Qed.
Lemma xl_State_Extended : forall s, s < 256 -> g_State_Extended (Z.of_N s) = st_extended s.
Proof. by_sweep1. Qed.
Lemma xl_State_Fragmented : forall s, s < 256 -> g_State_Fragmented (Z.of_N s) = st_fragmented s.
Proof. by_sweep1. Qed.

(* ---- CheckHeader.  The Go error variable that stands for each rule of the model: *)
Definition rule_err (r : rule) : g_error :=
  match r with
  | ReservedOp => E_ErrProtocolOpCodeReserved
  | ControlTooLong => E_ErrProtocolControlPayloadOverflow
  | ControlNotFinal => E_ErrProtocolControlNotFinal
  | RsvWithoutExt => E_ErrProtocolNonZeroRsv
  | MaskRequired => E_ErrProtocolMaskRequired
  | MaskUnexpected => E_ErrProtocolMaskUnexpected
  | ContinuationExpected => E_ErrProtocolContinuationExpected
  | ContinuationUnexpected => E_ErrProtocolContinuationUnexpected
  end.

(* all headers: Fin, Masked any; Rsv, OpCode any byte; Length any int64; any state byte.
   Length and Rsv enter only through comparisons (settled by lia in the four cases
   length <= / > 125, rsv = / <> 0); opcode x state x flags is swept completely. *)
Lemma xl_CheckHeader : forall h s, h_rsv h < 256 -> h_op h < 256 -> s < 256 ->
  (- 2 ^ 63 <= h_len h < 2 ^ 63)%Z ->
  g_CheckHeader (hdr_of h) (Z.of_N s) = option_map rule_err (check_header h s).
Proof.
  intros [fin rsv op masked mask len] s Hr Ho Hs Hl. unfold hdr_of, check_header, max_control_payload.
  cbn [h_fin h_rsv h_op h_masked h_mask h_len] in *. xunfold.
  destruct (Z.ltb_spec 125 len) as [Hlen|Hlen];
    (destruct (N.eqb_spec rsv 0) as [->|Hrsv]; settle;
     (* what is left must not mention length or rsv any more (fails here, cheaply, otherwise) *)
     [ gone len | gone len; gone rsv ];
     destruct fin, masked; to_eqb; revert op Ho s Hs; apply (sweep2 256 256); vm_compute; reflexivity).
Qed.

(* ---- CheckCloseFrameData: every uint16 code; the reason only through utf8.ValidString *)
Definition close_err_err (e : close_err) : g_error :=
  match e with
  | NotInUse => E_ErrProtocolStatusCodeNotInUse
  | AppLevel => E_ErrProtocolStatusCodeApplicationLevel
  | NoMeaning => E_ErrProtocolStatusCodeNoMeaning
  | Unknown => E_ErrProtocolStatusCodeUnknown
  | BadUtf8 => E_ErrProtocolInvalidUTF8
  end.

Lemma xl_CheckCloseFrameData_gen : forall (T : Type) (valid : T -> bool) c reason, c < 65536 ->
  g_CheckCloseFrameData valid (Z.of_N c) reason = option_map close_err_err (check_close_gen c (valid reason)).
Proof.
  intros T valid c reason Hc. xunfold. generalize (valid reason). intros b. clear reason.
  destruct b; to_eqb; revert c Hc; apply (sweep1 65536); vm_compute; reflexivity.
Qed.
Lemma xl_CheckCloseFrameData : forall c reason, c < 65536 ->
  g_CheckCloseFrameData valid_utf8 (Z.of_N c) reason = option_map close_err_err (check_close c reason).
Proof. intros. unfold check_close. apply xl_CheckCloseFrameData_gen. assumption. Qed.

(* ================================================================== write.go *)
Lemma xl_HeaderSize : forall h, (- 2 ^ 63 <= h_len h < 2 ^ 63)%Z ->
  g_HeaderSize (hdr_of h) = header_size h.
Proof.
  intros [fin rsv op masked mask len] Hl. unfold hdr_of, header_size.
  cbn [h_fin h_rsv h_op h_masked h_mask h_len] in *. xunfold. unwrap. arith.
Qed.

(* ================================================================== wsutil/writer.go *)
(* n is an int that holds a length: 0 <= n < 2^63 *)
Lemma xl_wsutil_headerSize : forall s n, s < 256 -> n < 2 ^ 63 ->
  g_wsutil_headerSize (Z.of_N s) (Z.of_N n) = Z.of_N (w_header_size s n).
Proof.
  intros s n Hs Hn. unfold w_header_size, mask_len, client_side, st_client. xunfold. unwrap. linbits. arith.
Qed.

Lemma xl_wsutil_reserve : forall s n, s < 256 -> n < 2 ^ 63 ->
  g_wsutil_reserve (Z.of_N s) (Z.of_N n) = Z.of_N (reserve s n).
Proof.
  intros s n Hs Hn. unfold reserve, mask_len, client_side, st_client. xunfold. unwrap. linbits. arith.
Qed.

(* ================================================================== small helpers *)
Lemma xl_min : forall a b, g_min a b = Z.min a b.
Proof. intros. xunfold. arith. Qed.
Lemma xl_wsflate_min : forall a b, g_wsflate_min a b = Z.min a b.
Proof. intros. xunfold. arith. Qed.
Lemma xl_nonZero : forall a b, g_nonZero a b = if (a =? 0)%Z then b else a.
Proof. intros. xunfold. arith. Qed.
Lemma xl_wsflate_isValidBits : forall x, g_wsflate_isValidBits x = ((8 <=? x) && (x <=? 15))%Z.
Proof. intros. xunfold. arith. Qed.
Lemma xl_wsflate_WindowBits_Defined : forall b, b < 256 ->
  g_wsflate_WindowBits_Defined (Z.of_N b) = negb (b =? 0).
Proof. by_sweep1. Qed.
Lemma xl_wsflate_WindowBits_Bytes : forall b, b < 256 ->
  g_wsflate_WindowBits_Bytes (Z.of_N b) =
  if b <? 63 then (2 ^ Z.of_N b)%Z else if b =? 63 then (- 2 ^ 63)%Z else 0%Z.
Proof. by_sweep1. Qed.

(* ================================================================== wsutil/writer.go: ceilPowerOfTwo *)
(* n |= n>>1; n |= n>>2; ... ; n++ on a 64-bit int.  Invariant of the smearing steps:
   bit i of x is set iff one of the bits i .. i+D-1 of the argument is set; a step with
   shift k <= D extends D to D+k (so any gap-free shift sequence is accepted, not only
   1,2,4,8,16,32).  For 0 < n < 2^62 the final D must exceed log2 n. *)
Local Open Scope Z_scope.

Definition smear_inv (a D x : Z) : Prop :=
  forall i, 0 <= i -> (Z.testbit x i = true <-> exists d, 0 <= d < D /\ Z.testbit a (i + d) = true).

Lemma smear_init a : smear_inv a 1 a.
Proof.
  intros i Hi. split.
  - intros H. exists 0. split; [lia|]. rewrite Z.add_0_r. exact H.
  - intros [d [Hd H]]. replace (i + d) with i in H by lia. exact H.
Qed.

Lemma smear_step a D x k : 0 <= k <= D -> smear_inv a D x ->
  smear_inv a (D + k) (Z.lor x (Z.shiftr x k)).
Proof.
  intros Hk HI i Hi. rewrite Z.lor_spec, Z.shiftr_spec by lia. rewrite orb_true_iff.
  rewrite (HI i Hi), (HI (i + k)) by lia. split.
  - intros [[d [Hd H]]|[d [Hd H]]].
    + exists d. split; [lia|exact H].
    + exists (k + d). split; [lia|]. replace (i + (k + d)) with (i + k + d) by lia. exact H.
  - intros [d [Hd H]]. destruct (Z.lt_ge_cases d D) as [Hlt|Hge].
    + left. exists d. split; [lia|exact H].
    + right. exists (d - k). split; [lia|]. replace (i + k + (d - k)) with (i + d) by lia. exact H.
Qed.

Lemma smear_final a D x : smear_inv a D x -> 0 < a -> Z.log2 a < D -> 0 <= x ->
  x = Z.ones (Z.log2 a + 1).
Proof.
  intros HI Ha HD Hx. apply Z.bits_inj'. intros i Hi.
  pose proof (Z.log2_nonneg a) as Hk.
  destruct (Z.lt_ge_cases i (Z.log2 a + 1)) as [Hlo|Hhi].
  - rewrite Z.ones_spec_low by lia. apply (HI i Hi).
    exists (Z.log2 a - i). split; [lia|]. replace (i + (Z.log2 a - i)) with (Z.log2 a) by lia.
    apply Z.bit_log2, Ha.
  - rewrite Z.ones_spec_high by lia.
    destruct (Z.testbit x i) eqn:E; [|reflexivity].
    apply (HI i Hi) in E. destruct E as [d [Hd E]].
    rewrite Z.bits_above_log2 in E by lia. discriminate.
Qed.

Lemma smear_nonneg x k : 0 <= x -> 0 <= Z.lor x (Z.shiftr x k).
Proof. intros H. apply Z.lor_nonneg. split; [exact H|]. apply Z.shiftr_nonneg, H. Qed.

Lemma N2Z_log2 n : Z.of_N (N.log2 n) = Z.log2 (Z.of_N n).
Proof. destruct n as [|[p|p|]]; reflexivity. Qed.

Lemma xl_wsutil_ceilPowerOfTwo : forall n, (n < 2 ^ 62)%N ->
  g_wsutil_ceilPowerOfTwo (Z.of_N n) = Z.of_N (ceil_pow2 n).
Proof.
  intros n Hn. unfold g_wsutil_ceilPowerOfTwo, ceil_pow2.
  destruct (N.eqb_spec n 0) as [->|Hn0]; [vm_compute; reflexivity|].
  set (a := Z.of_N n).
  assert (Ha : 0 < a < 2 ^ 62) by lia.
  assert (Hlog : 0 <= Z.log2 a < 62).
  { split; [apply Z.log2_nonneg|]. apply Z.log2_lt_pow2; lia. }
  pose proof (smear_init a) as HI.
  assert (Hnn : 0 <= a) by lia.
  repeat match goal with
  | HI : smear_inv a ?D ?x, Hnn : 0 <= ?x |- context [Z.lor ?x (Z.shiftr ?x ?k)] =>
      let y' := fresh "x" in
      let HI' := fresh "HI" in
      let Hnn' := fresh "Hnn" in
      set (y' := Z.lor x (Z.shiftr x k));
      assert (HI' : smear_inv a (D + k) y') by (subst y'; apply smear_step; [lia|exact HI]);
      assert (Hnn' : 0 <= y') by (subst y'; apply smear_nonneg; exact Hnn);
      clearbody y'; clear HI Hnn
  end.
  cbv zeta.
  match goal with HI : smear_inv a ?D ?x, Hnn : 0 <= ?x |- _ =>
    rewrite (smear_final a D x HI) by lia end.
  rewrite Z.ones_equiv.
  assert (Hp : 2 ^ (Z.log2 a + 1) <= 2 ^ 62) by (apply Z.pow_le_mono_r; lia).
  assert (Hp0 : 0 < 2 ^ (Z.log2 a + 1)) by (apply Z.pow_pos_nonneg; lia).
  unwrap.
  rewrite N2Z.inj_pow, N2Z.inj_add, N2Z_log2. fold a. lia.
Qed.
