(* HsAgreementProofs.v — proofs for C11: chunking independence of both peers, round trip of
   token lists through the httphead scanner, agreement of dialer and upgrader. *)
Require Import Bytes HsBase64 HsSha1 HsBufio HsBufioProofs HsHttpHead HsHttp HsUpgrader HsUpgraderProofs
        HsDialer HsDialerProofs.
From Coq Require Import ZifyBool ZifyN ZifyNat Btauto.
From Coq Require String.
Import String.StringSyntax.
Local Open Scope string_scope.
Local Open Scope list_scope.
Open Scope N_scope.

(* ================= 1. chunking independence *)
Theorem upgrader_chunking_independent : forall stext cfg B1 B2 r1 r2,
  1 <= B1 -> 1 <= B2 -> flat r1 = flat r2 -> r_tail r1 = r_tail r2 ->
  upgrader stext cfg B1 r1 = upgrader stext cfg B2 r2.
Proof.
  intros stext cfg B1 B2 r1 r2 H1 H2 Hf Ht.
  rewrite (upgrader_flat stext cfg B1 r1 H1), (upgrader_flat stext cfg B2 r2 H2), Hf, Ht. reflexivity.
Qed.

Theorem dialer_chunking_independent : forall cfg url_host uri nonce B1 B2 r1 r2,
  1 <= B1 -> 1 <= B2 -> flat r1 = flat r2 -> r_tail r1 = r_tail r2 ->
  let a := dialer_upgrade cfg url_host uri nonce B1 r1 in
  let b := dialer_upgrade cfg url_host uri nonce B2 r2 in
  d_err a = d_err b /\ d_hs a = d_hs b /\ d_request a = d_request b
  /\ (d_err a = None -> flat (d_reader a) = flat (d_reader b)).
Proof.
  intros cfg url_host uri nonce B1 B2 r1 r2 H1 H2 Hf Ht. cbn zeta.
  pose proof (dialer_flat cfg url_host uri nonce B1 r1 H1) as F1.
  pose proof (dialer_flat cfg url_host uri nonce B2 r2 H2) as F2.
  cbn zeta in F1, F2. rewrite Hf, Ht in F1.
  destruct (dialer_upgrade_lines cfg nonce (fst (raw_lines (flat r2))) (snd (raw_lines (flat r2))) (r_tail r2))
    as [[hs e] unread] eqn:Hl.
  destruct F1 as [A1 [A2 [A3 A4]]]. destruct F2 as [B1' [B2' [B3 B4]]].
  rewrite A1, A2, A3, B1', B2', B3. repeat split.
  intros He. rewrite He in Hl. clear A2 B2'.
  destruct (raw_lines (flat r2)) as [ls rem]. cbn [fst snd] in *.
  destruct (proj1 (dialer_lines_success cfg nonce ls rem (r_tail r2) hs unread) Hl)
    as [l [ls' [sl [hh [rest [es [_ [_ [_ [_ [_ [_ Hu]]]]]]]]]]]].
  subst unread. destruct A4 as [A4 _]. destruct B4 as [B4 _]. rewrite A4, B4. reflexivity.
Qed.

(* the sizes the pool hands out never fall below bufio's minimum, so B >= 1 always holds *)
Lemma pool_buf_size_min : forall req dflt, 16 <= pool_buf_size req dflt.
Proof. intros. unfold pool_buf_size. lia. Qed.

(* ================= 2. token lists survive WriteString(join ", ") + ScanTokens *)
Definition is_tok (t : list byte) : Prop := t <> [] /\ forallb oct_token t = true.

Lemma oct_token_not_space : forall c, oct_token c = true -> oct_space c = false /\ (c =? 13) = false.
Proof.
  intros c H. unfold oct_token, oct_space, oct_sep in *.
  split; destruct (c =? 32) eqn:E1; destruct (c =? 13) eqn:E2; try reflexivity;
    try (apply N.eqb_eq in E1; subst; discriminate); try (apply N.eqb_eq in E2; subst; discriminate).
Qed.

Lemma skip_space_token : forall c r, oct_token c = true -> skip_space (c :: r) = c :: r.
Proof.
  intros c r H. destruct (oct_token_not_space c H) as [H1 H2]. cbn [skip_space].
  destruct r as [|b [|d r']]; rewrite ?H1, ?H2; reflexivity.
Qed.

Lemma skip_space_sp : forall r, skip_space (32 :: r) = skip_space r.
Proof. intros r. cbn [skip_space]. destruct r as [|b [|d r']]; reflexivity. Qed.

Lemma skip_space_comma : forall r, skip_space (44 :: r) = 44 :: r.
Proof. intros r. cbn [skip_space]. destruct r as [|b [|d r']]; reflexivity. Qed.

Lemma span_token_app : forall t rest,
  forallb oct_token t = true -> (match rest with [] => true | c :: _ => negb (oct_token c) end) = true ->
  span oct_token (t ++ rest) = (t, rest).
Proof.
  induction t as [|c t IH]; intros rest Ht Hr; cbn [app span].
  - destruct rest as [|c r]; [reflexivity|]. cbn [span]. destruct (oct_token c); [discriminate|reflexivity].
  - cbn [forallb] in Ht. apply andb_prop in Ht. destruct Ht as [Hc Ht]. rewrite Hc.
    rewrite (IH rest Ht Hr). reflexivity.
Qed.

Lemma next_item_token : forall t rest, is_tok t ->
  (match rest with [] => true | c :: _ => negb (oct_token c) end) = true ->
  next_item (t ++ rest) = Some (IToken t, rest).
Proof.
  intros t rest [Hne Ht] Hr. destruct t as [|c t]; [contradiction|].
  cbn [forallb] in Ht. pose proof Ht as Ht'. apply andb_prop in Ht. destruct Ht as [Hc Ht].
  unfold next_item. cbn [app]. rewrite (skip_space_token c (t ++ rest) Hc).
  assert (Hs : oct_sep c = false).
  { unfold oct_token in Hc. destruct (oct_sep c); [rewrite andb_false_r in Hc; discriminate|reflexivity]. }
  assert (H34 : (c =? 34) = false) by (unfold oct_sep in Hs; destruct (c =? 34); [rewrite ?orb_true_r in Hs; cbn in Hs; try discriminate|reflexivity]; repeat (rewrite orb_true_r in Hs || rewrite orb_true_l in Hs); discriminate).
  assert (H40 : (c =? 40) = false) by (unfold oct_sep in Hs; destruct (c =? 40); [cbn in Hs; discriminate|reflexivity]).
  assert (H41 : (c =? 41) = false) by (unfold oct_sep in Hs; destruct (c =? 41); [repeat (rewrite orb_true_r in Hs || rewrite orb_true_l in Hs); discriminate|reflexivity]).
  assert (H92 : (c =? 92) = false) by (unfold oct_sep in Hs; destruct (c =? 92); [repeat (rewrite orb_true_r in Hs || rewrite orb_true_l in Hs); discriminate|reflexivity]).
  rewrite H34, H40, H92, H41, Hs, Hc. cbn [orb].
  change (c :: t ++ rest) with ((c :: t) ++ rest). rewrite (span_token_app (c :: t) rest Ht' Hr). reflexivity.
Qed.

Lemma next_item_comma : forall r, next_item (44 :: r) = Some (ISep 44, r).
Proof. intros r. unfold next_item. rewrite skip_space_comma. reflexivity. Qed.

Lemma next_item_sp : forall r, next_item (32 :: r) = next_item r.
Proof. intros r. unfold next_item. rewrite skip_space_sp. reflexivity. Qed.

Fixpoint items_of (ps : list (list byte)) : list item :=
  match ps with
  | [] => []
  | [p] => [IToken p]
  | p :: r => IToken p :: ISep 44 :: items_of r
  end.

Lemma lex_fuel_join : forall ps f, Forall is_tok ps ->
  (length (join_comma_space ps) < f)%nat -> lex_fuel f (join_comma_space ps) = items_of ps.
Proof.
  induction ps as [|p ps IH]; intros f Hps Hf.
  - destruct f; [cbn in Hf; lia|]. reflexivity.
  - inversion Hps as [|? ? Hp Hps']; subst.
    destruct ps as [|q ps'].
    + cbn [join_comma_space items_of] in *. destruct f; [lia|]. cbn [lex_fuel].
      rewrite <- (app_nil_r p) at 1. rewrite (next_item_token p [] Hp eq_refl).
      destruct f; [destruct Hp as [Hne _]; destruct p; [contradiction|cbn in Hf; lia]|].
      cbn [lex_fuel]. reflexivity.
    + change (join_comma_space (p :: q :: ps')) with (p ++ [44; 32] ++ join_comma_space (q :: ps')) in *.
      change (items_of (p :: q :: ps')) with (IToken p :: ISep 44 :: items_of (q :: ps')).
      rewrite !app_length in Hf. cbn [length] in Hf.
      destruct f; [lia|]. cbn [lex_fuel].
      rewrite (next_item_token p ([44; 32] ++ join_comma_space (q :: ps')) Hp eq_refl).
      destruct f; [lia|]. cbn [lex_fuel app].
      rewrite next_item_comma.
      destruct f; [lia|].
      assert (Hl : lex_fuel (S f) (32 :: join_comma_space (q :: ps')) = lex_fuel (S f) (join_comma_space (q :: ps'))).
      { cbn [lex_fuel]. rewrite next_item_sp. reflexivity. }
      rewrite Hl. f_equal. f_equal. apply IH; [exact Hps'|]. unfold byte in *. cbn [length] in Hf. lia.
Qed.

Lemma scan_collect_items : forall ps acc ok, ps <> [] ->
  scan_tokens_loop _ collect_it (items_of ps) acc ok = (acc ++ ps, true).
Proof.
  induction ps as [|p ps IH]; intros acc ok Hne; [contradiction|].
  destruct ps as [|q ps'].
  - cbn. reflexivity.
  - change (items_of (p :: q :: ps')) with (IToken p :: ISep 44 :: items_of (q :: ps')).
    cbn [scan_tokens_loop collect_it]. rewrite N.eqb_refl.
    rewrite (IH (acc ++ [p]) true ltac:(discriminate)). rewrite <- app_assoc. reflexivity.
Qed.

Theorem token_list_roundtrip : forall ps, Forall is_tok ps -> ps <> [] ->
  token_list (join_comma_space ps) = (ps, true).
Proof.
  intros ps Hps Hne. unfold token_list, scan_tokens, lex.
  rewrite (lex_fuel_join ps _ Hps (Nat.lt_succ_diag_r _)).
  exact (scan_collect_items ps [] false Hne).
Qed.

Lemma bytes_eqb_refl : forall a, bytes_eqb a a = true.
Proof. intros a. apply bytes_eqb_eq. reflexivity. Qed.

(* what the server selects is one of the subprotocols the client offered, so the dialer accepts it *)
Theorem protocol_agreement : forall ps check, Forall is_tok ps -> ps <> [] ->
  select_protocol (join_comma_space ps) check = (first_accepted check ps, true)
  /\ (first_accepted check ps <> [] -> existsb (bytes_eqb (first_accepted check ps)) ps = true).
Proof.
  intros ps check Hps Hne.
  pose proof (token_list_roundtrip ps Hps Hne) as R.
  destruct (select_protocol_wf check (join_comma_space ps)) as [E _]; [rewrite R; reflexivity|].
  rewrite R in E. cbn [fst] in E. split; [exact E|].
  intros Hp. unfold first_accepted in *. destruct (filter check ps) as [|t ts] eqn:Ef; [contradiction|].
  assert (Hin : In t ps).
  { assert (H : In t (filter check ps)) by (rewrite Ef; left; reflexivity). apply filter_In in H. tauto. }
  apply existsb_exists. exists t. split; [exact Hin|apply bytes_eqb_refl].
Qed.

(* ================= 3. byte-level agreement: the request the dialer writes is accepted by the
   upgrader, whose response is accepted by the dialer, with the same subprotocol (configurations
   without extensions and extra headers; subprotocols are HTTP tokens) *)
Lemma split_nl_line : forall l rest, no_byte 10 l = true ->
  split_nl (l ++ crlf ++ rest) = Some (l ++ crlf, rest).
Proof.
  induction l as [|c l IH]; intros rest H.
  - reflexivity.
  - cbn [no_byte forallb] in H. apply andb_prop in H. destruct H as [Hc Hl].
    cbn [app split_nl]. destruct (c =? 10); [discriminate|].
    rewrite (IH rest Hl). reflexivity.
Qed.

Lemma raw_lines_line : forall l rest, no_byte 10 l = true ->
  raw_lines (l ++ crlf ++ rest) = ((l ++ crlf) :: fst (raw_lines rest), snd (raw_lines rest)).
Proof. intros l rest H. apply raw_lines_some. apply split_nl_line. exact H. Qed.

Lemma cut_eol_crlf : forall l, cut_eol (l ++ crlf) = l.
Proof.
  intros l. unfold cut_eol, crlf. rewrite rev_app_distr. cbn [rev app]. apply rev_involutive.
Qed.

Lemma split_byte_intro : forall c x y, no_byte c x = true -> split_byte c (x ++ c :: y) = Some (x, y).
Proof.
  intros c. induction x as [|b x IH]; intros y H; cbn [app split_byte].
  - rewrite N.eqb_refl. reflexivity.
  - cbn [no_byte forallb] in H. apply andb_prop in H. destruct H as [Hb Hx].
    destruct (b =? c); [discriminate|]. rewrite (IH y Hx). reflexivity.
Qed.

Definition clean (v : list byte) : Prop :=
  match v with [] => True | c :: _ => is_blank c = false end
  /\ match rev v with [] => True | c :: _ => is_blank c = false end.

Lemma btrim_clean : forall v, clean v -> btrim v = v.
Proof.
  intros v [H1 H2]. unfold btrim.
  assert (E1 : drop_blank v = v) by (destruct v as [|c v]; [reflexivity|cbn [drop_blank]; rewrite H1; reflexivity]).
  rewrite E1.
  assert (E2 : drop_blank (rev v) = rev v)
    by (destruct (rev v) as [|c r]; [reflexivity|cbn [drop_blank]; rewrite H2; reflexivity]).
  rewrite E2. apply rev_involutive.
Qed.

Lemma btrim_sp : forall v, btrim (32 :: v) = btrim v.
Proof. intros v. unfold btrim. reflexivity. Qed.

Lemma tok_char_not_blank : forall c, oct_token c = true -> is_blank c = false.
Proof.
  intros c H. unfold oct_token in H. unfold is_blank.
  destruct (c =? 32) eqn:E1; [apply N.eqb_eq in E1; subst; discriminate|].
  destruct (c =? 9) eqn:E2; [apply N.eqb_eq in E2; subst; discriminate|]. reflexivity.
Qed.

Lemma tok_clean : forall t, is_tok t -> clean t.
Proof.
  intros t [Hne Ht]. rewrite forallb_forall in Ht. split.
  - destruct t as [|c t]; [exact I|]. apply tok_char_not_blank. apply Ht. left. reflexivity.
  - destruct (rev t) as [|c r] eqn:E; [exact I|]. apply tok_char_not_blank. apply Ht.
    apply in_rev. rewrite E. left. reflexivity.
Qed.

Lemma tok_no_nl : forall t, is_tok t -> no_byte 10 t = true.
Proof.
  intros t [_ Ht]. unfold no_byte. rewrite forallb_forall in *. intros c Hc. specialize (Ht c Hc).
  unfold oct_token in Ht. destruct (c =? 10) eqn:E; [apply N.eqb_eq in E; subst; discriminate|reflexivity].
Qed.

Lemma first_accepted_tok : forall check ps, Forall is_tok ps ->
  first_accepted check ps <> [] -> is_tok (first_accepted check ps).
Proof.
  intros check ps Hps Hne. unfold first_accepted in *.
  destruct (filter check ps) as [|t ts] eqn:Ef; [contradiction|].
  assert (H : In t (filter check ps)) by (rewrite Ef; left; reflexivity). apply filter_In in H.
  rewrite Forall_forall in Hps. apply Hps. tauto.
Qed.

(* the accept value: 28 bytes, none of them blank *)
Lemma b64_char_not_blank : forall v, is_blank (b64_char v) = false.
Proof.
  intros v. unfold b64_char, is_blank.
  destruct (v <? 26) eqn:E1; [lia|]. destruct (v <? 52) eqn:E2; [lia|].
  destruct (v <? 62) eqn:E3; [lia|]. destruct (v =? 62); reflexivity.
Qed.

Lemma accept_props : forall nonce,
  len (accept_of_key nonce) = 28 /\ clean (accept_of_key nonce) /\ no_byte 10 (accept_of_key nonce) = true.
Proof.
  intros nonce. unfold accept_of_key, sha1.
  set (h := sha1_blocks _ _ _). unfold be_bytes. cbn [app].
  cbn [base64]. unfold len, clean. cbn [length rev app].
  rewrite !b64_char_not_blank. split; [reflexivity|]. split; [split; reflexivity|].
  unfold no_byte. cbn [forallb].
  assert (G : forall v, negb (b64_char v =? 10) = true).
  { intros v. unfold b64_char. destruct (v <? 26) eqn:E1; [lia|]. destruct (v <? 52) eqn:E2; [lia|].
    destruct (v <? 62) eqn:E3; [lia|]. destruct (v =? 62); reflexivity. }
  rewrite !G. reflexivity.
Qed.

(* ---- messages as lists of CRLF-terminated lines ---- *)
Definition hline (name v : list byte) : list byte := name ++ 58 :: 32 :: v.
Definition crlf_lines (ls : list (list byte)) : list byte := concat (map (fun l => l ++ crlf) ls).

Lemma raw_lines_crlf_lines : forall ls rest,
  Forall (fun l => no_byte 10 l = true) ls ->
  raw_lines (crlf_lines ls ++ rest)
  = (map (fun l => l ++ crlf) ls ++ fst (raw_lines rest), snd (raw_lines rest)).
Proof.
  induction ls as [|l ls IH]; intros rest H.
  - unfold crlf_lines. cbn [map concat app]. destruct (raw_lines rest); reflexivity.
  - inversion H as [|? ? Hl Hls]; subst. unfold crlf_lines in *. cbn [map concat].
    rewrite <- !app_assoc. rewrite (raw_lines_line l _ Hl). rewrite (IH rest Hls). reflexivity.
Qed.

Lemma header_line_parse : forall name v, no_byte 58 name = true ->
  http_parse_header_line (hline name v) = Some (canonicalize (btrim name), btrim v).
Proof.
  intros name v H. unfold http_parse_header_line, hline. rewrite split_byte_intro by exact H.
  rewrite btrim_sp. reflexivity.
Qed.

Lemma take_headers_hlines : forall kvs more,
  Forall (fun kv => no_byte 58 (fst kv) = true /\ fst kv <> []) kvs ->
  take_headers (map (fun l => l ++ crlf) (map (fun kv => hline (fst kv) (snd kv)) kvs ++ [[]]) ++ more)
  = Some (map (fun kv => (canonicalize (btrim (fst kv)), btrim (snd kv))) kvs, more).
Proof.
  induction kvs as [|[k v] kvs IH]; intros more H.
  - reflexivity.
  - inversion H as [|? ? [Hk Hne] Hkvs]; subst. cbn [map app fst snd] in *. cbn [take_headers].
    rewrite cut_eol_crlf. pose proof (header_line_parse k v Hk) as P.
    remember (hline k v) as L eqn:HL. destruct L as [|b L].
    { destruct k; [contradiction|discriminate]. }
    rewrite P. rewrite (IH more Hkvs). reflexivity.
Qed.

Lemma take_resp_headers_eq : forall ls, take_resp_headers ls = take_headers ls.
Proof.
  induction ls as [|l ls IH]; [reflexivity|]. cbn [take_resp_headers take_headers]. rewrite IH. reflexivity.
Qed.

Lemma parse_get_line : forall uri, no_byte 32 uri = true ->
  http_parse_request_line ascii_to_int (bs "GET " ++ uri ++ bs " HTTP/1.1")
  = Some (mkReqLine (bs "GET") uri 1 1).
Proof.
  intros uri H. unfold http_parse_request_line, bsplit3.
  change (bs "GET " ++ uri ++ bs " HTTP/1.1") with (bs "GET" ++ 32 :: (uri ++ 32 :: bs "HTTP/1.1")).
  rewrite split_byte_intro by reflexivity.
  rewrite split_byte_intro by exact H. reflexivity.
Qed.

(* the configurations of this theorem *)
Definition dcfg0 (ps : list (list byte)) : dcfg := mkDcfg ps [] [] [] (fun _ _ => false).
Definition ucfg0 (sel : option (list byte -> bool)) : ucfg :=
  mkUcfg [] sel None None (fun _ => None) (fun _ => None) (fun _ _ => None) None.
Definition agreed_protocol (sel : option (list byte -> bool)) (ps : list (list byte)) : list byte :=
  match sel, ps with
  | Some check, _ :: _ => first_accepted check ps
  | _, _ => []
  end.

Definition req_headers (host nonce : list byte) (ps : list (list byte)) : list (list byte * list byte) :=
  [(bs "Host", host); (bs "Upgrade", bs "websocket"); (bs "Connection", bs "Upgrade");
   (bs "Sec-WebSocket-Version", bs "13"); (bs "Sec-WebSocket-Key", nonce)]
  ++ match ps with [] => [] | _ => [(bs "Sec-WebSocket-Protocol", join_comma_space ps)] end.

Lemma request_as_lines : forall ps host uri nonce,
  write_upgrade_request (dcfg0 ps) host uri nonce
  = crlf_lines ((bs "GET " ++ uri ++ bs " HTTP/1.1")
                :: map (fun kv => hline (fst kv) (snd kv)) (req_headers host nonce ps) ++ [[]]).
Proof.
  intros ps host uri nonce. unfold write_upgrade_request, crlf_lines, req_headers, hline, dcfg0.
  cbn [dc_host dc_protocols dc_extensions dc_header].
  destruct ps as [|p ps']; cbn [map concat app fst snd]; rewrite <- ?app_assoc; cbn [app];
    repeat (f_equal; rewrite <- ?app_assoc; cbn [app]); reflexivity.
Qed.

Lemma hline_no_nl : forall name v, no_byte 10 name = true -> no_byte 10 v = true -> no_byte 10 (hline name v) = true.
Proof.
  intros name v H1 H2. unfold hline. rewrite no_byte_app, H1. cbn [no_byte forallb andb negb].
  change (58 =? 10) with false. change (32 =? 10) with false. cbn [negb andb]. exact H2.
Qed.

Definition req_ok (host uri nonce : list byte) (ps : list (list byte)) : Prop :=
  Forall is_tok ps /\ len nonce = 24 /\ no_byte 10 nonce = true /\ clean nonce
  /\ no_byte 10 host = true /\ clean host /\ no_byte 32 uri = true /\ no_byte 10 uri = true.

Lemma join_no_nl : forall ps, Forall is_tok ps -> no_byte 10 (join_comma_space ps) = true.
Proof.
  induction ps as [|p ps IH]; intros H; [reflexivity|]. inversion H as [|? ? Hp Hps]; subst.
  destruct ps as [|q ps']; [apply tok_no_nl; exact Hp|].
  change (join_comma_space (p :: q :: ps')) with (p ++ [44; 32] ++ join_comma_space (q :: ps')).
  rewrite !no_byte_app, (tok_no_nl p Hp), (IH Hps). reflexivity.
Qed.

Lemma join_clean : forall ps, Forall is_tok ps -> ps <> [] -> clean (join_comma_space ps).
Proof.
  intros ps H Hne. split.
  - destruct ps as [|p ps]; [contradiction|]. inversion H as [|? ? Hp _]; subst.
    destruct Hp as [Hpn Hpt]. destruct p as [|c p]; [contradiction|].
    assert (Hc : oct_token c = true) by (cbn [forallb] in Hpt; apply andb_prop in Hpt; tauto).
    destruct ps; cbn [join_comma_space app]; apply tok_char_not_blank; exact Hc.
  - induction ps as [|p ps IH]; [contradiction|]. inversion H as [|? ? Hp Hps]; subst.
    destruct ps as [|q ps'].
    + cbn [join_comma_space]. apply (tok_clean p Hp).
    + change (join_comma_space (p :: q :: ps')) with (p ++ [44; 32] ++ join_comma_space (q :: ps')).
      rewrite !rev_app_distr.
      specialize (IH Hps ltac:(discriminate)).
      assert (Hj : join_comma_space (q :: ps') <> []).
      { inversion Hps as [|? ? [Hq _] _]; subst. destruct q; [contradiction|]. destruct ps'; discriminate. }
      remember (join_comma_space (q :: ps')) as J eqn:HJ. clear HJ. unfold byte in *.
      destruct (rev J) as [|c r] eqn:E.
      * exfalso. apply Hj. apply (f_equal (@rev N)) in E. rewrite rev_involutive in E. exact E.
      * cbn [app]. exact IH.
Qed.

(* the request headers as the upgrader parses them *)
Definition parsed_req_headers (host nonce : list byte) (ps : list (list byte)) : list (list byte * list byte) :=
  [(h_host, host); (h_upgrade, bs "websocket"); (h_connection, bs "Upgrade");
   (h_sec_version_c, bs "13"); (h_sec_key_c, nonce)]
  ++ match ps with [] => [] | _ => [(h_sec_protocol_c, join_comma_space ps)] end.

Lemma parsed_req_headers_eq : forall host nonce ps, clean host -> clean nonce -> Forall is_tok ps ->
  map (fun kv => (canonicalize (btrim (fst kv)), btrim (snd kv))) (req_headers host nonce ps)
  = parsed_req_headers host nonce ps.
Proof.
  intros host nonce ps Hh Hn Hps. unfold req_headers, parsed_req_headers. rewrite map_app. cbn [map fst snd].
  rewrite (btrim_clean host Hh), (btrim_clean nonce Hn).
  destruct ps as [|p ps']; [reflexivity|]. cbn [map fst snd].
  rewrite (btrim_clean _ (join_clean (p :: ps') Hps ltac:(discriminate))). reflexivity.
Qed.

(* the upgrader accepts the dialer's request and selects the first accepted offered subprotocol *)
Theorem upgrader_accepts_dialer_request : forall stext sel ps host uri nonce B r,
  1 <= B -> req_ok host uri nonce ps ->
  flat r = write_upgrade_request (dcfg0 ps) host uri nonce ->
  upgrader stext (ucfg0 sel) B r
  = mkUres (mkHs (agreed_protocol sel ps) []) None
      (write_response_upgrade nonce (mkHs (agreed_protocol sel ps) []) []).
Proof.
  intros stext sel ps host uri nonce B r HB [Hps [Hlen [Hnnl [Hnc [Hhnl [Hhc [Hu32 Hu10]]]]]]] Hflat.
  rewrite (upgrader_flat stext (ucfg0 sel) B r HB). rewrite Hflat, request_as_lines.
  rewrite <- (app_nil_r (crlf_lines _)).
  assert (Hnl : Forall (fun l => no_byte 10 l = true)
                  ((bs "GET " ++ uri ++ bs " HTTP/1.1")
                   :: map (fun kv => hline (fst kv) (snd kv)) (req_headers host nonce ps) ++ [[]])).
  { constructor; [rewrite !no_byte_app, Hu10; reflexivity|].
    apply Forall_app. split; [|repeat constructor].
    unfold req_headers. rewrite map_app. apply Forall_app. split.
    - cbn [map fst snd].
      constructor; [apply hline_no_nl; [reflexivity|exact Hhnl]|].
      constructor; [apply hline_no_nl; reflexivity|].
      constructor; [apply hline_no_nl; reflexivity|].
      constructor; [apply hline_no_nl; reflexivity|].
      constructor; [apply hline_no_nl; [reflexivity|exact Hnnl]|]. constructor.
    - destruct ps as [|p ps']; [constructor|]. cbn [map fst snd]. constructor; [|constructor].
      apply hline_no_nl; [reflexivity|apply join_no_nl; exact Hps]. }
  rewrite (raw_lines_crlf_lines _ [] Hnl). cbn [raw_lines raw_lines_acc fst snd rev map]. rewrite app_nil_r.
  cbn [map].
  assert (Hkv : Forall (fun kv => no_byte 58 (fst kv) = true /\ fst kv <> []) (req_headers host nonce ps)).
  { unfold req_headers. apply Forall_app. split.
    - repeat constructor; discriminate.
    - destruct ps; repeat constructor; discriminate. }
  pose proof (take_headers_hlines (req_headers host nonce ps) [] Hkv) as Hth. rewrite app_nil_r in Hth.
  rewrite (parsed_req_headers_eq host nonce ps Hhc Hnc Hps) in Hth.
  set (p := agreed_protocol sel ps).
  assert (Hres := upgrader_lines_complete stext (ucfg0 sel)
            ((bs "GET " ++ uri ++ bs " HTTP/1.1") ++ crlf)
            (map (fun l => l ++ crlf) (map (fun kv => hline (fst kv) (snd kv)) (req_headers host nonce ps) ++ [[]]))
            [] (r_tail r) (mkReqLine (bs "GET") uri 1 1) (parsed_req_headers host nonce ps) [] p []).
  rewrite cut_eol_crlf in Hres. specialize (Hres (parse_get_line uri Hu32) Hth).
  assert (Hc : compliant (mkPreq (mkReqLine (bs "GET") uri 1 1) (parsed_req_headers host nonce ps))
               && callbacks_accept (ucfg0 sel) (mkPreq (mkReqLine (bs "GET") uri 1 1) (parsed_req_headers host nonce ps))
               = true).
  { unfold parsed_req_headers. destruct ps as [|q ps'].
    - cbv -[len]. unfold byte in *. rewrite Hlen. reflexivity.
    - cbv -[len]. unfold byte in *. rewrite Hlen. reflexivity. }
  assert (Hvp : values_of (is_kind KSecProtocol) (parsed_req_headers host nonce ps)
                = match ps with [] => [] | _ => [join_comma_space ps] end).
  { unfold parsed_req_headers. destruct ps as [|q ps']; vm_compute; reflexivity. }
  assert (Hvx : values_of (is_kind KSecExtensions) (parsed_req_headers host nonce ps) = []).
  { unfold parsed_req_headers. destruct ps as [|q ps']; vm_compute; reflexivity. }
  assert (Hvk : values_of (is_kind KSecKey) (parsed_req_headers host nonce ps) = [nonce]).
  { unfold parsed_req_headers. destruct ps as [|q ps']; vm_compute; reflexivity. }
  assert (Hp : proto_run (ucfg0 sel) [] (parsed_req_headers host nonce ps) = Some p).
  { rewrite proto_run_spec, Hvp. unfold p, agreed_protocol, ucfg0. cbn [uc_protocol].
    destruct sel as [check|]; [|destruct ps; reflexivity].
    destruct ps as [|q ps']; [reflexivity|]. cbn [select_protocol_spec].
    destruct (protocol_agreement (q :: ps') check Hps ltac:(discriminate)) as [E _]. rewrite E. cbn [negb].
    destruct (first_accepted check (q :: ps')); reflexivity. }
  assert (He : exts_run (ucfg0 sel) [] (parsed_req_headers host nonce ps) = inl []).
  { rewrite exts_run_spec, Hvx. reflexivity. }
  specialize (Hres Hc Hp He). rewrite Hres.
  rewrite nonce_of_spec, Hvk. reflexivity.
Qed.

(* ---- the dialer accepts the upgrader's response ---- *)
Definition resp_headers (nonce p : list byte) : list (list byte * list byte) :=
  [(bs "Upgrade", bs "websocket"); (bs "Connection", bs "Upgrade");
   (bs "Sec-WebSocket-Accept", accept_of_key nonce)]
  ++ match p with [] => [] | _ => [(bs "Sec-WebSocket-Protocol", p)] end.
Definition parsed_resp_headers (nonce p : list byte) : list (list byte * list byte) :=
  [(h_upgrade, bs "websocket"); (h_connection, bs "Upgrade"); (h_sec_accept_c, accept_of_key nonce)]
  ++ match p with [] => [] | _ => [(h_sec_protocol_c, p)] end.

Lemma response_as_lines : forall nonce p,
  write_response_upgrade nonce (mkHs p []) []
  = crlf_lines (bs "HTTP/1.1 101 Switching Protocols"
                :: map (fun kv => hline (fst kv) (snd kv)) (resp_headers nonce p) ++ [[]]).
Proof.
  intros nonce p. unfold write_response_upgrade, text_head_upgrade, crlf_lines, resp_headers, hline.
  cbn [hs_protocol hs_exts].
  destruct p as [|c p']; cbn [map concat app fst snd]; rewrite <- ?app_assoc; cbn [app];
    repeat (f_equal; rewrite <- ?app_assoc; cbn [app]); reflexivity.
Qed.

Theorem dialer_accepts_upgrader_response : forall sel ps host uri nonce B r trailing,
  1 <= B -> req_ok host uri nonce ps ->
  flat r = write_response_upgrade nonce (mkHs (agreed_protocol sel ps) []) [] ++ trailing ->
  let d := dialer_upgrade (dcfg0 ps) host uri nonce B r in
  d_err d = None /\ d_hs d = mkHs (agreed_protocol sel ps) [] /\ flat (d_reader d) = trailing.
Proof.
  intros sel ps host uri nonce B r trailing HB [Hps [Hlen [Hnnl [Hnc _]]]] Hflat. cbn zeta.
  set (p := agreed_protocol sel ps) in *.
  destruct (accept_props nonce) as [Hal [Hac Hanl]].
  (* p is empty or one of the offered tokens *)
  assert (Hpp : p = [] \/ (is_tok p /\ existsb (bytes_eqb p) ps = true)).
  { unfold p, agreed_protocol. destruct sel as [check|]; [|left; reflexivity].
    destruct ps as [|q ps']; [left; reflexivity|].
    destruct (first_accepted check (q :: ps')) as [|c t] eqn:E; [left; reflexivity|]. right.
    rewrite <- E. split.
    - apply first_accepted_tok; [exact Hps|rewrite E; discriminate].
    - destruct (protocol_agreement (q :: ps') check Hps ltac:(discriminate)) as [_ G]. apply G. rewrite E. discriminate. }
  assert (Hpnl : no_byte 10 p = true) by (destruct Hpp as [->|[Ht _]]; [reflexivity|apply tok_no_nl; exact Ht]).
  assert (Hpc : clean p) by (destruct Hpp as [->|[Ht _]]; [split; exact I|apply tok_clean; exact Ht]).
  assert (Hnl : Forall (fun l => no_byte 10 l = true)
                  (bs "HTTP/1.1 101 Switching Protocols"
                   :: map (fun kv => hline (fst kv) (snd kv)) (resp_headers nonce p) ++ [[]])).
  { constructor; [reflexivity|]. apply Forall_app. split; [|repeat constructor].
    unfold resp_headers. rewrite map_app. apply Forall_app. split.
    - cbn [map fst snd].
      constructor; [apply hline_no_nl; reflexivity|].
      constructor; [apply hline_no_nl; reflexivity|].
      constructor; [apply hline_no_nl; [reflexivity|exact Hanl]|]. constructor.
    - destruct p as [|c p']; [constructor|]. cbn [map fst snd]. constructor; [|constructor].
      apply hline_no_nl; [reflexivity|exact Hpnl]. }
  assert (Hkv : Forall (fun kv => no_byte 58 (fst kv) = true /\ fst kv <> []) (resp_headers nonce p)).
  { unfold resp_headers. apply Forall_app. split.
    - repeat constructor; discriminate.
    - destruct p; repeat constructor; discriminate. }
  assert (Hparsed : map (fun kv => (canonicalize (btrim (fst kv)), btrim (snd kv))) (resp_headers nonce p)
                    = parsed_resp_headers nonce p).
  { unfold resp_headers, parsed_resp_headers. rewrite map_app. cbn [map fst snd].
    rewrite (btrim_clean _ Hac). destruct p as [|c p']; [reflexivity|]. cbn [map fst snd].
    rewrite (btrim_clean _ Hpc). reflexivity. }
  (* the response parses *)
  assert (Hparse : parse_response (flat r)
                   = Some (mkPresp (mkRespLine 1 1 101 (bs "Switching Protocols")) (parsed_resp_headers nonce p),
                           trailing)).
  { unfold parse_response. rewrite Hflat, response_as_lines.
    rewrite (raw_lines_crlf_lines _ trailing Hnl). cbn [map].
    destruct (raw_lines trailing) as [tl rem] eqn:Ht. cbn [fst snd app].
    rewrite cut_eol_crlf.
    assert (Hsl : http_parse_response_line ascii_to_int (bs "HTTP/1.1 101 Switching Protocols")
                  = Some (mkRespLine 1 1 101 (bs "Switching Protocols"))) by (vm_compute; reflexivity).
    rewrite Hsl. rewrite take_resp_headers_eq.
    rewrite (take_headers_hlines (resp_headers nonce p) tl Hkv). rewrite Hparsed.
    rewrite <- (raw_lines_concat (length trailing) trailing tl rem (le_n _) Ht). reflexivity. }
  assert (Hvu : dvalues_of KUpgrade (parsed_resp_headers nonce p) = [bs "websocket"])
    by (unfold parsed_resp_headers; destruct p; vm_compute; reflexivity).
  assert (Hvc : dvalues_of KConnection (parsed_resp_headers nonce p) = [bs "Upgrade"])
    by (unfold parsed_resp_headers; destruct p; vm_compute; reflexivity).
  assert (Hva : dvalues_of KSecAccept (parsed_resp_headers nonce p) = [accept_of_key nonce]).
  { unfold parsed_resp_headers, dvalues_of. destruct p as [|c p'].
    - cbv -[accept_of_key]. reflexivity.
    - cbv -[accept_of_key]. reflexivity. }
  assert (Hvp : dvalues_of KSecProtocol (parsed_resp_headers nonce p) = match p with [] => [] | _ => [p] end).
  { unfold parsed_resp_headers, dvalues_of. destruct p as [|c p']; cbv -[accept_of_key]; reflexivity. }
  assert (Hvx : dvalues_of KSecExtensions (parsed_resp_headers nonce p) = []).
  { unfold parsed_resp_headers, dvalues_of. destruct p as [|c p']; cbv -[accept_of_key]; reflexivity. }
  assert (Hcb : forallb (fun kv => match classify (fst kv) with
                                   | KHost | KSecVersion | KSecKey | KOther =>
                                       negb (dc_on_header (dcfg0 ps) (fst kv) (snd kv))
                                   | _ => true end) (parsed_resp_headers nonce p) = true).
  { unfold parsed_resp_headers. destruct p as [|c p']; cbv -[accept_of_key]; reflexivity. }
  assert (Hacc : response_accepted (dcfg0 ps) nonce
                   (mkPresp (mkRespLine 1 1 101 (bs "Switching Protocols")) (parsed_resp_headers nonce p)) = true).
  { unfold response_accepted. cbn [pr_line pr_headers sl_major sl_minor sl_status].
    rewrite Hvu, Hvc, Hva, Hvp, Hcb. cbn [dall_and_some forallb].
    assert (Hca : check_accept (accept_of_key nonce) nonce = true).
    { unfold check_accept. rewrite Hal, bytes_eqb_refl. reflexivity. }
    rewrite Hca.
    assert (E1 : equal_fold_word (bs "websocket") (bs "websocket") = true) by reflexivity.
    assert (E2 : equal_fold_word (bs "Upgrade") (bs "upgrade") = true) by reflexivity.
    rewrite E1, E2. cbn [dc_protocols dcfg0].
    destruct Hpp as [Hp0|[_ Hin]].
    - rewrite Hp0. reflexivity.
    - destruct p; [reflexivity|]. cbn [forallb]. rewrite Hin. reflexivity. }
  assert (Hext : response_extensions (dcfg0 ps)
                   (mkPresp (mkRespLine 1 1 101 (bs "Switching Protocols")) (parsed_resp_headers nonce p)) = inl []).
  { unfold response_extensions. cbn [pr_headers]. rewrite Hvx. reflexivity. }
  destruct (dialer_success_result (dcfg0 ps) host uri nonce B r _ trailing [] HB Hparse Hacc Hext)
    as [G1 [G2 [_ [G4 _]]]].
  split; [exact G1|]. split; [|exact G4]. rewrite G2. unfold response_protocol. cbn [pr_headers].
  rewrite Hvp. destruct p; reflexivity.
Qed.

(* both peers, composed: the same subprotocol on both sides, post-handshake bytes intact *)
Theorem agreement_tokens : forall stext sel ps host uri nonce B1 B2 r1 r2 trailing,
  1 <= B1 -> 1 <= B2 -> req_ok host uri nonce ps ->
  flat r1 = d_request (dialer_upgrade (dcfg0 ps) host uri nonce B2 r2) ->
  flat r2 = u_out (upgrader stext (ucfg0 sel) B1 r1) ++ trailing ->
  let u := upgrader stext (ucfg0 sel) B1 r1 in
  let d := dialer_upgrade (dcfg0 ps) host uri nonce B2 r2 in
  u_err u = None /\ d_err d = None /\ d_hs d = u_hs u /\ flat (d_reader d) = trailing.
Proof.
  intros stext sel ps host uri nonce B1 B2 r1 r2 trailing H1 H2 Hok Hf1 Hf2. cbn zeta.
  assert (Hreq : d_request (dialer_upgrade (dcfg0 ps) host uri nonce B2 r2)
                 = write_upgrade_request (dcfg0 ps) host uri nonce).
  { pose proof (dialer_flat (dcfg0 ps) host uri nonce B2 r2 H2) as F. cbn zeta in F.
    destruct (dialer_upgrade_lines _ _ _ _ _) as [[a b] c]. tauto. }
  rewrite Hreq in Hf1.
  pose proof (upgrader_accepts_dialer_request stext sel ps host uri nonce B1 r1 H1 Hok Hf1) as U.
  rewrite U in *. cbn [u_out u_err u_hs] in *.
  destruct (dialer_accepts_upgrader_response sel ps host uri nonce B2 r2 trailing H2 Hok Hf2) as [D1 [D2 D3]].
  auto.
Qed.

(* ================= 4. "or both fail": an error response of the upgrader is refused by the dialer *)
Lemma digits_no_byte : forall c l, Forall is_digit l -> (c < 48 \/ 57 < c) -> no_byte c l = true.
Proof.
  intros c l H Hc. unfold no_byte. rewrite forallb_forall. intros x Hx.
  rewrite Forall_forall in H. specialize (H x Hx). unfold is_digit in H.
  destruct (x =? c) eqn:E; [apply N.eqb_eq in E; subst; lia|reflexivity].
Qed.

Lemma dec_value_101 : forall n, itoa n = [49; 48; 49] -> n = 101.
Proof.
  intros n H. destruct (itoa_spec n) as [_ [_ Hv]]. rewrite H in Hv. vm_compute in Hv. congruence.
Qed.

Theorem error_response_refused_by_dialer : forall stext code hdr body trailing cfg url_host uri nonce B r,
  1 <= B -> code <> 101 -> no_byte 10 (stext code) = true ->
  flat r = error_response stext code hdr body ++ trailing ->
  d_err (dialer_upgrade cfg url_host uri nonce B r) <> None.
Proof.
  intros stext code hdr body trailing cfg url_host uri nonce B r HB Hcode Hst Hflat Hnone.
  apply (dialer_success_iff cfg url_host uri nonce B r HB) in Hnone.
  destruct Hnone as [p [rest [es [Hp [Hacc _]]]]].
  destruct (itoa_spec code) as [Hd [_ _]].
  set (l0 := bs "HTTP/1.1" ++ 32 :: itoa code ++ 32 :: stext code).
  assert (Hl0 : no_byte 10 l0 = true).
  { unfold l0. rewrite no_byte_app. cbn [no_byte forallb]. fold (no_byte 10 (itoa code ++ 32 :: stext code)).
    rewrite no_byte_app. rewrite (digits_no_byte 10 (itoa code) Hd ltac:(lia)). cbn [no_byte forallb].
    fold (no_byte 10 (stext code)). rewrite Hst. reflexivity. }
  assert (Hshape : flat r = l0 ++ crlf ++ (bs "Content-Type: text/plain; charset=utf-8" ++ crlf ++ hdr
                      ++ bs "Content-Length: " ++ itoa (len body) ++ crlf ++ crlf ++ body) ++ trailing).
  { rewrite Hflat. unfold error_response, l0.
    change (bs "HTTP/1.1 ") with (bs "HTTP/1.1" ++ [32]).
    repeat (rewrite <- app_assoc; cbn [app]). try reflexivity.
    all: repeat f_equal. }
  unfold parse_response in Hp. rewrite Hshape in Hp. rewrite (raw_lines_line l0 _ Hl0) in Hp.
  rewrite cut_eol_crlf in Hp.
  destruct (http_parse_response_line ascii_to_int l0) as [sl|] eqn:Hsl; [|discriminate].
  destruct (take_resp_headers _) as [[hs rest']|]; [|discriminate]. inversion Hp; subst p rest.
  unfold response_accepted in Hacc. cbn [pr_line] in Hacc.
  assert (H101 : sl_status sl = 101%Z).
  { destruct (sl_status sl =? 101)%Z eqn:E; [lia|].
    rewrite !andb_false_r in Hacc. cbn in Hacc. rewrite ?andb_false_r in Hacc. 
    repeat (rewrite andb_false_l in Hacc || rewrite andb_false_r in Hacc). discriminate. }
  pose proof (status_literally_101 l0 sl Hsl H101) as Htok.
  unfold l0, bsplit3 in Htok.
  rewrite split_byte_intro in Htok by reflexivity.
  rewrite split_byte_intro in Htok by (apply digits_no_byte; [exact Hd|lia]).
  cbn [fst snd] in Htok. apply Hcode. apply dec_value_101. exact Htok.
Qed.

Theorem rejection_makes_dialer_fail : forall stext ucfg B1 r1 rj cfg url_host uri nonce B2 r2 trailing,
  1 <= B1 -> 1 <= B2 ->
  u_err (upgrader stext ucfg B1 r1) = Some (ERej rj) ->
  status_of rj <> 101 -> no_byte 10 (stext (status_of rj)) = true ->
  flat r2 = u_out (upgrader stext ucfg B1 r1) ++ trailing ->
  d_err (dialer_upgrade cfg url_host uri nonce B2 r2) <> None.
Proof.
  intros stext ucfg B1 r1 rj cfg url_host uri nonce B2 r2 trailing H1 H2 Hu Hs Ht Hf.
  pose proof (upgrader_failure stext ucfg B1 r1 (ERej rj) H1 Hu) as [Hout _].
  rewrite Hout in Hf.
  exact (error_response_refused_by_dialer stext (status_of rj) _ _ trailing cfg url_host uri nonce B2 r2 H2 Hs Ht Hf).
Qed.

(* ================= 5. debug wrappers (partial: net/http's parsers are the observed k and n) *)
Require Import HsDebug.

Lemma prefetch_flat : forall k r, flat (snd (prefetch k r)) = flat r /\ r_tail (snd (prefetch k r)) = r_tail r.
Proof.
  intros k r. unfold prefetch, flat. cbn [snd r_pending r_chunks r_tail concat]. split; [|reflexivity].
  rewrite <- concat_app, firstn_skipn. reflexivity.
Qed.

Theorem debug_upgrader_transparent : forall stext cfg B k r, 1 <= B ->
  du_res (debug_upgrader stext cfg B k r) = upgrader stext cfg B r
  /\ du_on_response (debug_upgrader stext cfg B k r) = u_out (upgrader stext cfg B r)
  /\ (r_pending r = [] -> (length (r_chunks r) <= k)%nat -> du_on_request (debug_upgrader stext cfg B k r) = flat r).
Proof.
  intros stext cfg B k r HB. unfold debug_upgrader.
  destruct (prefetch_flat k r) as [Hf Ht]. destruct (prefetch k r) as [pre r'] eqn:E. cbn [snd] in *.
  cbn [du_res du_on_response du_on_request].
  rewrite (upgrader_chunking_independent stext cfg B B r' r HB HB Hf Ht).
  repeat split. intros Hp Hk. unfold prefetch in E. inversion E. unfold flat. rewrite Hp.
  rewrite firstn_all2 by exact Hk. reflexivity.
Qed.

Theorem debug_dialer_transparent : forall cfg url_host uri nonce B k n r, 1 <= B ->
  let w := debug_dialer cfg url_host uri nonce B k n r in
  let d := dialer_upgrade cfg url_host uri nonce B r in
  dd_err w = d_err d /\ dd_hs w = d_hs d /\ dd_on_request w = d_request d
  /\ (r_pending r = [] -> (n <= length (concat (firstn k (r_chunks r))))%nat ->
      dd_on_response w = firstn n (flat r)
      /\ (d_err d = None -> n = (length (flat r) - length (flat (d_reader d)))%nat ->
          dd_leftover w = flat (d_reader d))).
Proof.
  intros cfg url_host uri nonce B k n r HB. cbn zeta. unfold debug_dialer.
  destruct (prefetch_flat k r) as [Hf Ht]. destruct (prefetch k r) as [pre r'] eqn:E. cbn [snd] in *.
  cbn [dd_err dd_hs dd_on_request dd_on_response dd_leftover].
  destruct (dialer_chunking_independent cfg url_host uri nonce B B r' r HB HB Hf Ht) as [A1 [A2 [A3 A4]]].
  cbn zeta in A1, A2, A3, A4. rewrite A1, A2, A3. repeat split.
  - unfold prefetch in E. inversion E; subst pre. unfold flat. rewrite H. cbn [app].
    rewrite <- (firstn_skipn k (r_chunks r)) at 2. rewrite concat_app. rewrite firstn_app.
    replace (n - length (concat (firstn k (r_chunks r))))%nat with 0%nat by lia.
    cbn [firstn]. rewrite app_nil_r. reflexivity.
  - intros He Hn. unfold prefetch in E. inversion E; subst pre.
    set (pre := concat (firstn k (r_chunks r))) in *.
    assert (Hall : flat r = pre ++ concat (skipn k (r_chunks r))).
    { unfold flat, pre. rewrite H. cbn [app]. rewrite <- concat_app, firstn_skipn. reflexivity. }
    (* the reader that remains holds a suffix of the stream *)
    pose proof (dialer_flat cfg url_host uri nonce B r HB) as F. cbn zeta in F.
    destruct (dialer_upgrade_lines cfg nonce (fst (raw_lines (flat r))) (snd (raw_lines (flat r))) (r_tail r))
      as [[hs e] unread] eqn:Hl.
    destruct F as [_ [Fe [_ Fu]]]. rewrite He in Fe. subst e.
    destruct (raw_lines (flat r)) as [ls rem] eqn:Hr. cbn [fst snd] in *.
    destruct (proj1 (dialer_lines_success cfg nonce ls rem (r_tail r) hs unread) Hl)
      as [l [ls' [sl [hh [rest [es [Els [_ [Hth [_ [_ [_ Hu]]]]]]]]]]]].
    subst unread. destruct Fu as [Fu _].
    (* flat r = consumed ++ flat (d_reader d) *)
    assert (Hsuf : exists consumed, flat r = consumed ++ flat (d_reader (dialer_upgrade cfg url_host uri nonce B r))).
    { rewrite Fu. pose proof (raw_lines_concat (length (flat r)) (flat r) ls rem (le_n _) Hr) as Hc.
      subst ls. cbn [concat] in Hc.
      assert (Hth' : exists used, concat ls' = used ++ concat rest).
      { clear -Hth. revert hh rest Hth. induction ls' as [|x ls' IH]; intros hh rest Hth; cbn [take_resp_headers] in Hth; [discriminate|].
        destruct (cut_eol x) as [|c line].
        - inversion Hth; subst. exists x. reflexivity.
        - destruct (http_parse_header_line (c :: line)); [|discriminate].
          destruct (take_resp_headers ls') as [[h2 r2]|] eqn:E2; [|discriminate]. inversion Hth; subst.
          destruct (IH h2 rest eq_refl) as [used Hused]. exists (x ++ used). cbn [concat]. rewrite Hused, app_assoc. reflexivity. }
      destruct Hth' as [used Hused]. exists (l ++ used). rewrite Hc, Hused, <- !app_assoc. reflexivity. }
    destruct Hsuf as [consumed Hsuf].
    assert (Hlen : n = length consumed).
    { rewrite Hn. rewrite Hsuf at 1. rewrite app_length. lia. }
    assert (Hsk : skipn n (flat r) = flat (d_reader (dialer_upgrade cfg url_host uri nonce B r))).
    { rewrite Hsuf at 1. rewrite Hlen. rewrite skipn_app, skipn_all, Nat.sub_diag. reflexivity. }
    rewrite <- Hsk. rewrite Hall. rewrite skipn_app.
    replace (n - length pre)%nat with 0%nat by lia. reflexivity.
Qed.
