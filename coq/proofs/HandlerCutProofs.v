(* HandlerCutProofs.v — C16/C08: a control handler whose source ends before the
   announced payload length never answers: no pong with a shortened payload, no
   close reply; the caller gets the I/O error. No hypothesis on the bytes, the
   keys or the mask oracle. *)
Require Import Bytes Stream Utf8Spec Check Frame Cipher Extracted Writer Handler
  BytesProofs StreamProofs FrameProofs CipherProofs CheckProofs WriterProofs WriterInv WriterFrameProofs
  WriterHistProofs ControlWriterProofs HandlerProofs.
From Coq Require Import ZifyBool ZifyN ZifyNat.
Open Scope N_scope.

(* ------------------------------------------------------------------ Cipher keeps the length (any bytes, any key) *)
Lemma le_bytes_length w : forall v, length (le_bytes w v) = w.
Proof. induction w as [|w IH]; intros v; cbn [le_bytes length]; [reflexivity|]. rewrite IH. reflexivity. Qed.

Lemma byte_loop_length p key off : length (byte_loop p key off) = length p.
Proof. rewrite byte_loop_is_spec. apply mask_spec_length. Qed.

Lemma word_loop_length k : forall p key, length (word_loop k p key) = (16 * k)%nat.
Proof.
  induction k as [|k IH]; intros p key; cbn [word_loop]; [reflexivity|].
  rewrite app_length, IH. unfold word16. rewrite app_length, !le_bytes_length. lia.
Qed.

Lemma cipher_length p key off : length (cipher p key off) = length p.
Proof.
  unfold cipher. destruct (len p <? 8) eqn:E; [apply byte_loop_length|].
  assert (Hm: off mod 4 < 4) by (apply N.mod_lt; lia).
  destruct (remain_aligns (off mod 4) Hm) as [_ Hln].
  set (ln := nthb remain (off mod 4)) in *.
  rewrite !app_length, !byte_loop_length, word_loop_length.
  unfold take, drop. rewrite firstn_length, skipn_length.
  rewrite N.shiftr_div_pow2. change (2 ^ 4) with 16.
  unfold len in *. set (L := length p) in *.
  pose proof (N.div_mod (N.of_nat L - ln) 16 ltac:(lia)) as Hdm.
  pose proof (N.mod_lt (N.of_nat L - ln) 16 ltac:(lia)) as Hlt.
  set (rn := (N.of_nat L - ln) mod 16) in *.
  set (q := (N.of_nat L - ln) / 16) in *.
  assert (Hq: (N.of_nat L - ln - rn) / 16 = q).
  { replace (N.of_nat L - ln - rn) with (q * 16) by lia. apply N.div_mul. lia. }
  rewrite Hq. lia.
Qed.

Lemma cipher_len p key off : len (cipher p key off) = len p.
Proof. unfold len. rewrite cipher_length. reflexivity. Qed.

(* ------------------------------------------------------------------ the cut source *)
Definition hcut_err (avail : list byte) (t : tail) : rerr :=
  match t with TFail => EFail | TEOF => if len avail =? 0 then EEOF else EUnexpected end.

Lemma read_source_cut n avail t unmask key : len avail < n ->
  exists data, read_source n avail t unmask key = (data, Some (hcut_err avail t)) /\ len data = len avail.
Proof.
  intros Hlt. unfold read_source. destruct (whole_wf avail t) as [Hwf Hfl].
  pose proof (read_full_short n (whole avail t) Hwf) as H. rewrite Hfl in H. specialize (H Hlt).
  destruct (read_full n (whole avail t)) as [[b e] s']. destruct H as (-> & _ & -> & _).
  eexists. split; [reflexivity|]. destruct unmask; [apply cipher_len|reflexivity].
Qed.

(* ------------------------------------------------------------------ the pong writer only buffers *)
Lemma write_fits p w : w_err w = None -> len (w_buf w) + len p <= w_buflen w ->
  write p w = (inr (len p, None), set_buf w (w_buf w ++ p) true).
Proof.
  intros He Hl. unfold write. rewrite write_loop_S.
  assert (Hc: wl_cond p (set_buf w (w_buf w) true) = false).
  { unfold wl_cond, w_available, w_n. wsimpl. rewrite He.
    replace (w_buflen w - len (w_buf w) <? len p) with false by lia. reflexivity. }
  rewrite Hc. wsimpl. rewrite He. reflexivity.
Qed.

(* the control writer of the handler while it copies a payload that stays below the limit *)
Definition CI (n : N) (c : cwriter) : Prop :=
  c_limit c = n /\ w_buflen (c_w c) = n /\ c_n c = len (w_buf (c_w c)) /\ w_err (c_w c) = None /\
  w_dest (c_w c) = mkDest [] None.

Lemma handler_ctl_raw state op n masks : 0 < n -> n <= 125 ->
  exists c0, new_control_writer_buffer (mkDest [] None) state op (n + w_header_size state n) masks = inr c0 /\
    CI n c0 /\ w_buf (c_w c0) = [].
Proof.
  intros Hn0 Hn. unfold new_control_writer_buffer.
  assert (Hhs: w_header_size state n = 2 + mask_len state /\ w_header_size state 125 = 2 + mask_len state).
  { unfold w_header_size. replace (n <? 126) with true by lia. split; reflexivity. }
  destruct Hhs as [Hh1 Hh2]. rewrite Hh1, Hh2.
  replace (N.min (n + (2 + mask_len state)) (125 + (2 + mask_len state))) with (n + (2 + mask_len state)) by lia.
  set (rawlen := n + (2 + mask_len state)).
  assert (Hres: reserve state rawlen = mask_len state + 2).
  { unfold reserve. replace (rawlen <=? 125 + mask_len state + 2) with true by (subst rawlen; lia). reflexivity. }
  unfold new_writer_buffer. rewrite Hres.
  replace (rawlen <=? mask_len state + 2) with false by (subst rawlen; lia).
  eexists. split; [reflexivity|]. unfold CI. cbn [c_limit c_w c_n]. wsimpl.
  repeat split; subst rawlen; lia.
Qed.

Lemma copy_cut n : forall pieces c, CI n c -> len (w_buf (c_w c)) + len (concat pieces) <= n ->
  exists c', fold_left copy_step pieces (Some c, true) = (Some c', true) /\ CI n c'.
Proof.
  induction pieces as [|p r IH]; intros c Hc Hfit.
  - exists c. split; [reflexivity|assumption].
  - cbn [concat] in Hfit. rewrite len_app in Hfit. destruct Hc as (H1 & H2 & H3 & H4 & H5).
    cbn [fold_left copy_step]. unfold control_write.
    replace (c_limit c <? c_n c + len p) with false by lia.
    rewrite write_fits by (try assumption; lia).
    apply IH.
    + unfold CI. cbn [c_limit c_w c_n]. wsimpl. rewrite len_app. repeat split; try assumption; lia.
    + cbn [c_w]. wsimpl. rewrite len_app. lia.
Qed.

(* ------------------------------------------------------------------ C16 / C08 *)
Theorem handle_cut_payload state unmask h avail t copy_sizes masks res d' :
  (h_op h = 8 \/ h_op h = 9 \/ h_op h = 10) ->
  0 < Z.to_N (h_len h) -> Z.to_N (h_len h) <= 125 -> len avail < Z.to_N (h_len h) ->
  handle state unmask h avail t copy_sizes masks (mkDest [] None) = (res, d') ->
  res = HIoErr (hcut_err avail t) /\ dest_log d' = [].
Proof.
  intros Hop Hn0 Hn Hlt. set (n := Z.to_N (h_len h)) in *.
  destruct Hop as [Hop|[Hop|Hop]].
  - (* close: the error, no reply *)
    destruct (read_source_cut n avail t unmask (h_mask h) Hlt) as (data & Hrs & _).
    unfold handle. fold n. rewrite Hop. cbn [N.eqb Pos.eqb]. replace (n =? 0) with false by lia.
    rewrite Hrs. intros H. injection H as <- <-. split; reflexivity.
  - (* ping: the partial payload is buffered by the pong writer and never flushed *)
    destruct (read_source_cut n avail t unmask (h_mask h) Hlt) as (data & Hrs & Hdl).
    rewrite handle_copy_step by (try assumption; fold n; lia). fold n.
    destruct (handler_ctl_raw state 10 n masks Hn0 Hn) as (c0 & Hc0 & Hci & Hb0).
    rewrite Hc0, Hrs.
    destruct (copy_cut n (chunk_by copy_sizes data) c0 Hci) as (c1 & Hf & Hc1).
    { rewrite chunk_by_flat, Hb0, len_nil. lia. }
    rewrite Hf. intros H. injection H as <- <-.
    destruct Hc1 as (_ & _ & _ & _ & ->). split; reflexivity.
  - (* pong *)
    destruct (read_source_cut n avail t false (h_mask h) Hlt) as (data & Hrs & _).
    unfold handle. fold n. rewrite Hop. cbn [N.eqb Pos.eqb]. replace (n =? 0) with false by lia.
    rewrite Hrs. intros H. injection H as <- <-. split; reflexivity.
Qed.

(* the reply side of the same fact *)
Corollary handle_cut_no_reply state unmask h avail t copy_sizes masks :
  (h_op h = 8 \/ h_op h = 9 \/ h_op h = 10) ->
  0 < Z.to_N (h_len h) -> Z.to_N (h_len h) <= 125 -> len avail < Z.to_N (h_len h) ->
  dest_log (snd (handle state unmask h avail t copy_sizes masks (mkDest [] None))) = [] /\
  exists e, fst (handle state unmask h avail t copy_sizes masks (mkDest [] None)) = HIoErr e.
Proof.
  intros Hop H0 H125 Hlt.
  destruct (handle state unmask h avail t copy_sizes masks (mkDest [] None)) as [res d'] eqn:E.
  destruct (handle_cut_payload _ _ _ _ _ _ _ _ _ Hop H0 H125 Hlt E) as [Hr Hd]. cbn [fst snd].
  split; [exact Hd|eexists; exact Hr].
Qed.
