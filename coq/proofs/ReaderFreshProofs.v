(* ReaderFreshProofs.v — C18, reader clause: a Reader that has delivered (Read
   returned io.EOF) or discarded (Discard returned nil) a message is AT REST —
   every per-message field has its initial value — and a Reader at rest behaves,
   under every sequence of calls, as the Reader a constructor would build over the
   same source, configuration and MessageState.  The fields in which the two
   records differ (the cipher reader's key and position left over from the last
   frame, what OnIntermediate has logged so far) are never read before they are
   overwritten.  Stream level: on a valid stream, after the first message was read
   or discarded the source holds exactly the frames that follow it. *)
Require Import Bytes Stream Utf8Spec Check Frame Cipher Utf8Dfa Extracted ExtractedOk Reader ReaderStream ReaderStreamC13
  BytesProofs StreamProofs CheckProofs FrameProofs CipherProofs Utf8Proofs ReaderLocalProofs
  ReaderAux ReaderInv ReaderProofs ReaderMoreProofs ReaderTotalProofs ReaderStreamC05 ReaderStreamC07
  ReaderStreamC13Proofs.
From Coq Require Import ZifyBool ZifyN ZifyNat.
Open Scope N_scope.

(* ================================================================== 1. at rest after io.EOF / after Discard *)
Lemma at_rest_reset r : st_fragmented (r_state r) = false -> at_rest (reset r).
Proof. intros H. split; [reflexivity|exact H]. Qed.

Lemma rat_eof_at_rest data r d r' : rat_eof data r = ((d, Some (RIo EEOF)), r') -> at_rest r'.
Proof.
  unfold rat_eof. destruct (negb (r_rawN r =? 0)); [discriminate|].
  destruct (st_fragmented (r_state r)) eqn:Hf; [discriminate|].
  destruct (_ && _); [discriminate|]. intros H. injection H as _ <-. apply at_rest_reset, Hf.
Qed.

Lemma frame_read_not_eof_keeps k r d e r' : frame_read k r = ((d, Some e), r') -> e <> RIo EEOF ->
  forall x, e = RIo x -> x <> EEOF.
Proof. intros _ Hne x -> ->. apply Hne. reflexivity. Qed.

Lemma rgo_at_rest k r d r' : rgo k r = ((d, Some (RIo EEOF)), r') -> at_rest r'.
Proof.
  unfold rgo. destruct (frame_read k r) as [[data e] r2].
  destruct e as [e|].
  - destruct e as [[| |]| | | | | | | |]; try discriminate. apply rat_eof_at_rest.
  - destruct (negb (r_rawN r2 =? 0)); [discriminate|]. apply rat_eof_at_rest.
Qed.

(* inside a message NextFrame never reports a clean io.EOF *)
Lemma next_frame_frag_not_eof r h e r' : st_fragmented (r_state r) = true ->
  next_frame r = ((h, Some e), r') -> e <> RIo EEOF.
Proof.
  intros Hf. unfold next_frame, cb_read_all, raw_drain. rewrite Hf. cbv zeta.
  destruct (reader_read_header (r_src r)) as [[e0|hdr] s1].
  { intros H. injection H as _ <- _. destruct e0 as [[| |]| |]; discriminate. }
  destruct (if r_skip r then None else check_header hdr (r_state r)); [intros H; injection H as _ <- _; discriminate|].
  destruct ((0 <? r_max r)%Z && (r_max r <? h_len hdr)%Z); [intros H; injection H as _ <- _; discriminate|].
  destruct (if r_ext r then _ else _) as [[hdr' comp']|]; [|intros H; injection H as _ <- _; discriminate].
  cbn [andb]. destruct (op_is_control (h_op hdr')); [|discriminate].
  destruct (r_cb r); rsimpl.
  - destruct (read_full _ _) as [[b0 e0] s2]. destruct e0 as [[| |]|]; cbn [option_map];
      intros H; first [discriminate H|injection H as _ <- _; discriminate].
  - destruct (read_full _ _) as [[b0 e0] s2].
    destruct e0 as [[| |]|]; try (intros H; first [discriminate H|injection H as _ <- _; discriminate]).
    rsimpl. destruct (read_full _ _) as [[b1 e1] s3]. destruct e1 as [[| |]|]; cbn [option_map];
      intros H; first [discriminate H|injection H as _ <- _; discriminate].
Qed.

(* Read returned io.EOF: whatever the Reader's state and configuration were *)
Theorem read_eof_at_rest : forall k r d r', reader_read k r = ((d, Some (RIo EEOF)), r') -> at_rest r'.
Proof.
  intros k r d r'. rewrite reader_read_eq. destruct (r_frame r); [apply rgo_at_rest|].
  destruct (st_fragmented (r_state r)) eqn:Hf; cbn [negb]; [|discriminate].
  destruct (next_frame r) as [[h e] r1] eqn:Hnf. destruct e as [e|].
  - intros H. injection H as _ -> _. exfalso. exact (next_frame_frag_not_eof r h _ r1 Hf Hnf eq_refl).
  - destruct (r_frame r1); [apply rgo_at_rest|discriminate].
Qed.

Theorem read_to_eof_at_rest : forall fuel bufs all r racc p r',
  read_to_eof fuel bufs all r racc = ((p, RIo EEOF), r') -> at_rest r'.
Proof.
  induction fuel as [|fuel IH]; intros bufs all r racc p r'; cbn [read_to_eof]; [discriminate|].
  destruct (next_buf bufs all) as [k bufs']. destruct (reader_read k r) as [[d e] r1] eqn:Hr.
  destruct e as [e|].
  - intros H. injection H as _ -> <-. exact (read_eof_at_rest k r d r1 Hr).
  - apply IH.
Qed.

(* Discard returned nil *)
Theorem discard_at_rest : forall fuel r r', discard fuel r = (None, r') -> at_rest r'.
Proof.
  induction fuel as [|fuel IH]; intros r r'; cbn [discard]; [discriminate|].
  destruct (raw_drain r) as [e r1]. destruct e as [e|]; [discriminate|].
  destruct (st_fragmented (r_state r1)) eqn:Hf; cbn [negb].
  - destruct (next_frame r1) as [[h e2] r2]. destruct e2 as [e2|]; [discriminate|]. apply IH.
  - intros H. injection H as <-. apply at_rest_reset, Hf.
Qed.

(* ================================================================== 2. the fields that are never read before they are overwritten *)
(* [r] and [r'] agree in everything but: the MessageState flag and the log
   (related as [b] says), and — while no frame is open — the cipher reader *)
Definition simw (r r' : reader) : Prop :=
  r_src r = r_src r' /\ r_state r = r_state r' /\ r_skip r = r_skip r' /\ r_check_utf8 r = r_check_utf8 r' /\
  r_max r = r_max r' /\ r_ext r = r_ext r' /\ r_cb r = r_cb r' /\ r_opcode r = r_opcode r' /\
  r_frame r = r_frame r' /\ r_rawN r = r_rawN r' /\ r_u8wrap r = r_u8wrap r' /\ r_u8state r = r_u8state r' /\
  r_u8acc r = r_u8acc r' /\
  (r_frame r = true -> r_masked r = r_masked r' /\ (r_masked r = true -> r_key r = r_key r' /\ r_cpos r = r_cpos r')).
(* [b = true]: same flag, and [r] has logged [pre] before what [r'] has logged;
   [b = false]: nothing is said about flag and log *)
Definition simf (b : bool) (pre : list event) (r r' : reader) : Prop :=
  simw r r' /\ (b = true -> r_compressed r = r_compressed r' /\ r_log r = pre ++ r_log r').

Ltac sim_open H :=
  match type of H with simf _ _ ?r ?r' =>
    destruct r as [s st sk ch mx ex cm cb op fr rn mk ky cp uw us ua lg];
    destruct r' as [s' st' sk' ch' mx' ex' cm' cb' op' fr' rn' mk' ky' cp' uw' us' ua' lg'];
    unfold simf, simw in H; rsimpl;
    destruct H as ((? & ? & ? & ? & ? & ? & ? & ? & ? & ? & ? & ? & ? & Hcip) & Hfl); subst
  end.

Lemma unset_bits_cases h :
  (forall c, unset_bits h c = None) \/ (exists h' f, forall c, unset_bits h c = Some (h', f)) \/
  (forall c, unset_bits h c = Some (h, c)).
Proof.
  unfold unset_bits. destruct (op_is_data (h_op h) && negb (h_op h =? 0)); [right; left; eauto|].
  destruct (negb (N.land (h_rsv h) 4 =? 0)); [left|right; right]; reflexivity.
Qed.

Lemma ext_step_sim (ex : bool) hdr cm cm' :
  ((if ex then unset_bits hdr cm else Some (hdr, cm)) = None /\
   (if ex then unset_bits hdr cm' else Some (hdr, cm')) = None) \/
  (exists hdr' f f', (if ex then unset_bits hdr cm else Some (hdr, cm)) = Some (hdr', f) /\
     (if ex then unset_bits hdr cm' else Some (hdr, cm')) = Some (hdr', f') /\ (cm = cm' -> f = f')).
Proof.
  destruct ex.
  - destruct (unset_bits_cases hdr) as [H|[(h' & f & H)|H]].
    + left. split; apply H.
    + right. exists h', f, f. rewrite !H. repeat split.
    + right. exists hdr, cm, cm'. rewrite !H. repeat split. intros E; exact E.
  - right. exists hdr, cm, cm'. repeat split. intros E; exact E.
Qed.

Ltac simw_eqs := repeat match goal with |- (_ = _) /\ _ => split; [reflexivity|] end.
(* close a goal [fst x = fst y /\ simf b pre (snd x) (snd y)] on explicit records: [tc] proves the
   cipher clause, [tf] the flag-and-log clause *)
Ltac sim_close tc tf :=
  cbn [fst snd]; (split; [reflexivity|]); unfold simf, simw; rsimpl; split; [simw_eqs; tc|tf].

Lemma next_frame_sim b pre r r' : simf b pre r r' ->
  fst (next_frame r) = fst (next_frame r') /\ simf b pre (snd (next_frame r)) (snd (next_frame r')).
Proof.
  intros H. sim_open H. unfold next_frame, cb_read_all, raw_drain. rsimpl. cbv zeta.
  destruct (reader_read_header _) as [[e0|hdr] s1].
  { sim_close ltac:(exact Hcip) ltac:(exact Hfl). }
  destruct (if sk' then None else check_header hdr st').
  { sim_close ltac:(exact Hcip) ltac:(exact Hfl). }
  destruct ((0 <? mx')%Z && (mx' <? h_len hdr)%Z).
  { sim_close ltac:(exact Hcip) ltac:(exact Hfl). }
  assert (Hciph: forall (fr0 : bool) (k0 k0' : list byte) (c0 c0' : N),
            fr0 = true -> h_masked hdr = h_masked hdr /\
            (h_masked hdr = true -> (if h_masked hdr then h_mask hdr else k0) = (if h_masked hdr then h_mask hdr else k0') /\
                                    (if h_masked hdr then 0 else c0) = (if h_masked hdr then 0 else c0'))).
  { intros fr0 k0 k0' c0 c0' _. split; [reflexivity|]. intros ->. split; reflexivity. }
  destruct (ext_step_sim ex' hdr cm cm') as [[E1 E2]|(hdr' & f & f' & E1 & E2 & Ef)]; rewrite E1, E2.
  { sim_close ltac:(apply Hciph) ltac:(exact Hfl). }
  assert (Hfl': b = true -> f = f' /\ lg = pre ++ lg').
  { intros Hb. destruct (Hfl Hb) as [Ec El]. split; [apply Ef, Ec|exact El]. }
  destruct (st_fragmented st' && op_is_control (h_op hdr')).
  2: { sim_close ltac:(apply Hciph) ltac:(exact Hfl'). }
  destruct cb'; rsimpl.
  - destruct (read_full _ _) as [[b0 e0] s2].
    destruct e0 as [[| |]|]; cbn [option_map]; sim_close ltac:(apply Hciph) ltac:(exact Hfl').
  - destruct (read_full _ _) as [[b0 e0] s2].
    assert (Hdata: (if h_masked hdr then cipher b0 (if h_masked hdr then h_mask hdr else ky) 0 else b0) =
                   (if h_masked hdr then cipher b0 (if h_masked hdr then h_mask hdr else ky') 0 else b0))
      by (destruct (h_masked hdr); reflexivity).
    destruct e0 as [[| |]|]; try (sim_close ltac:(apply Hciph) ltac:(exact Hfl')).
    rsimpl. destruct (read_full _ _) as [[b1 e1] s3].
    destruct e1 as [[| |]|]; cbn [option_map];
      sim_close ltac:(apply Hciph)
                ltac:(intros Hb; destruct (Hfl' Hb) as [-> ->]; rewrite Hdata; (split; [reflexivity|apply app_assoc_reverse])).
Qed.

Lemma sim_fields b pre r r' : simf b pre r r' ->
  r_src r = r_src r' /\ r_state r = r_state r' /\ r_frame r = r_frame r' /\ r_rawN r = r_rawN r'.
Proof. intros ((H1 & H2 & _ & _ & _ & _ & _ & _ & H9 & H10 & _) & _). repeat split; assumption. Qed.

Lemma sim_flag_log pre r r' : simf true pre r r' -> r_compressed r = r_compressed r' /\ r_log r = pre ++ r_log r'.
Proof. intros (_ & H). exact (H eq_refl). Qed.

Lemma simf_reset b pre r r' : simf b pre r r' -> simf b pre (reset r) (reset r').
Proof.
  intros H. sim_open H. unfold simf, simw, reset; rsimpl. split; [simw_eqs; intros X; discriminate X|exact Hfl].
Qed.

Lemma simf_log_event pre r r' ev : simf true pre r r' -> simf true pre (log_event r ev) (log_event r' ev).
Proof.
  intros H. sim_open H. unfold simf, simw, log_event; rsimpl. split; [simw_eqs; exact Hcip|].
  intros Hb. destruct (Hfl Hb) as [-> ->]. split; [reflexivity|apply app_assoc_reverse].
Qed.

Lemma frame_read_sim b pre k r r' : simf b pre r r' -> r_frame r = true ->
  fst (frame_read k r) = fst (frame_read k r') /\ simf b pre (snd (frame_read k r)) (snd (frame_read k r')).
Proof.
  intros H Hfr. sim_open H. rsimpl. subst. destruct (Hcip eq_refl) as [-> Hk]. clear Hcip.
  destruct mk'; [destruct (Hk eq_refl) as [-> ->]|]; clear Hk;
    unfold frame_read, raw_read; rsimpl;
    (destruct (rn' =? 0); [|destruct (read1 _ _) as [[b0 e0] s1]]); cbv beta iota zeta; rsimpl;
    (destruct uw'; [destruct (u8_scan _ _ _ _) as [[stt acc] rej]; destruct rej|]);
    sim_close ltac:(intros _; split; [reflexivity|]; intros X; first [discriminate X|split; reflexivity]) ltac:(exact Hfl).
Qed.

Lemma rat_eof_sim b pre d r r' : simf b pre r r' ->
  fst (rat_eof d r) = fst (rat_eof d r') /\ simf b pre (snd (rat_eof d r)) (snd (rat_eof d r')).
Proof.
  intros H. sim_open H. unfold rat_eof. rsimpl.
  destruct (negb (rn' =? 0)); [sim_close ltac:(exact Hcip) ltac:(exact Hfl)|].
  destruct (st_fragmented st'); [sim_close ltac:(intros X; discriminate X) ltac:(exact Hfl)|].
  destruct (ch' && negb (us' =? utf8_accept)); [sim_close ltac:(exact Hcip) ltac:(exact Hfl)|].
  sim_close ltac:(intros X; discriminate X) ltac:(exact Hfl).
Qed.

Lemma rgo_sim b pre k r r' : simf b pre r r' -> r_frame r = true ->
  fst (rgo k r) = fst (rgo k r') /\ simf b pre (snd (rgo k r)) (snd (rgo k r')).
Proof.
  intros H Hfr. unfold rgo. destruct (frame_read_sim b pre k r r' H Hfr) as [E S].
  destruct (frame_read k r) as [[data e] r2]. destruct (frame_read k r') as [[data' e'] r2'].
  cbn [fst snd] in E, S. injection E as <- <-.
  pose proof (rat_eof_sim b pre data r2 r2' S) as A.
  destruct (sim_fields _ _ _ _ S) as (_ & _ & _ & Hrn).
  destruct e as [e|].
  - destruct e as [[| |]| | | | | | | |]; cbn [fst snd]; try (split; [reflexivity|exact S]). exact A.
  - rewrite Hrn. destruct (negb (r_rawN r2' =? 0)); [split; [reflexivity|exact S]|exact A].
Qed.

Lemma reader_read_sim b pre k r r' : simf b pre r r' ->
  fst (reader_read k r) = fst (reader_read k r') /\ simf b pre (snd (reader_read k r)) (snd (reader_read k r')).
Proof.
  intros H. rewrite !reader_read_eq. destruct (sim_fields _ _ _ _ H) as (_ & Hst & Hfr & _).
  rewrite Hst. destruct (r_frame r) eqn:Efr; rewrite <- Hfr.
  - apply rgo_sim; assumption.
  - destruct (negb (st_fragmented (r_state r'))); [split; [reflexivity|exact H]|].
    destruct (next_frame_sim b pre r r' H) as [E S].
    destruct (next_frame r) as [[h e] r1]. destruct (next_frame r') as [[h' e'] r1'].
    cbn [fst snd] in E, S. injection E as <- <-.
    destruct e as [e|]; [split; [reflexivity|exact S]|].
    destruct (sim_fields _ _ _ _ S) as (_ & _ & Hfr1 & _).
    destruct (r_frame r1) eqn:Efr1; rewrite <- Hfr1.
    + apply rgo_sim; assumption.
    + split; [reflexivity|exact S].
Qed.

Lemma raw_drain_sim b pre r r' : simf b pre r r' ->
  fst (raw_drain r) = fst (raw_drain r') /\ simf b pre (snd (raw_drain r)) (snd (raw_drain r')).
Proof.
  intros H. sim_open H. unfold raw_drain. rsimpl. destruct (read_full _ _) as [[b0 e0] s1].
  destruct e0 as [[| |]|]; sim_close ltac:(exact Hcip) ltac:(exact Hfl).
Qed.

Lemma discard_sim b pre : forall fuel r r', simf b pre r r' ->
  fst (discard fuel r) = fst (discard fuel r') /\ simf b pre (snd (discard fuel r)) (snd (discard fuel r')).
Proof.
  induction fuel as [|fuel IH]; intros r r' H; cbn [discard]; [split; [reflexivity|exact H]|].
  destruct (raw_drain_sim b pre r r' H) as [E S].
  destruct (raw_drain r) as [e r1]. destruct (raw_drain r') as [e' r1']. cbn [fst snd] in E, S. subst e'.
  destruct e as [e|]; [cbn [fst snd]; split; [reflexivity|apply simf_reset, S]|].
  destruct (sim_fields _ _ _ _ S) as (_ & Hst & _). rewrite Hst.
  destruct (negb (st_fragmented (r_state r1'))); [cbn [fst snd]; split; [reflexivity|apply simf_reset, S]|].
  destruct (next_frame_sim b pre r1 r1' S) as [E2 S2].
  destruct (next_frame r1) as [[h e2] r2]. destruct (next_frame r1') as [[h' e2'] r2'].
  cbn [fst snd] in E2, S2. injection E2 as <- <-.
  destruct e2 as [e2|]; [cbn [fst snd]; split; [reflexivity|apply simf_reset, S2]|].
  apply IH, S2.
Qed.

Lemma read_to_eof_sim b pre : forall fuel bufs all r r' racc, simf b pre r r' ->
  fst (read_to_eof fuel bufs all r racc) = fst (read_to_eof fuel bufs all r' racc) /\
  simf b pre (snd (read_to_eof fuel bufs all r racc)) (snd (read_to_eof fuel bufs all r' racc)).
Proof.
  induction fuel as [|fuel IH]; intros bufs all r r' racc H; cbn [read_to_eof]; [split; [reflexivity|exact H]|].
  destruct (next_buf bufs all) as [k bufs'].
  destruct (reader_read_sim b pre k r r' H) as [E S].
  destruct (reader_read k r) as [[d e] r1]. destruct (reader_read k r') as [[d' e'] r1'].
  cbn [fst snd] in E, S. injection E as <- <-.
  destruct e as [e|]; [split; [reflexivity|exact S]|]. apply IH, S.
Qed.

(* the NextFrame / read-to-EOF loop: same messages, same leftover, same final error;
   the log of [r] is [pre] followed by the log of [r'] *)
Lemma drive_sim bufs pre : forall fuel r r', simf true pre r r' ->
  drive fuel bufs r = with_events_before pre (drive fuel bufs r').
Proof.
  induction fuel as [|fuel IH]; intros r r' H; cbn [drive].
  { unfold with_events_before. cbn [dr_events dr_partial dr_err]. destruct (sim_flag_log _ _ _ H) as [_ ->]. reflexivity. }
  destruct (next_frame_sim true pre r r' H) as [E S].
  destruct (next_frame r) as [[h e] r1]. destruct (next_frame r') as [[h' e'] r1'].
  cbn [fst snd] in E, S. injection E as <- <-.
  destruct e as [e|].
  { unfold with_events_before. cbn [dr_events dr_partial dr_err]. destruct (sim_flag_log _ _ _ S) as [_ ->]. reflexivity. }
  destruct (read_to_eof_sim true pre (Datatypes.S fuel) bufs bufs r1 r1' [] S) as [E2 S2].
  destruct (read_to_eof (Datatypes.S fuel) bufs bufs r1 []) as [[p e2] r2].
  destruct (read_to_eof (Datatypes.S fuel) bufs bufs r1' []) as [[p' e2'] r2'].
  cbn [fst snd] in E2, S2. injection E2 as <- <-.
  destruct (sim_flag_log _ _ _ S2) as [Ec El].
  destruct e2 as [[| |]| | | | | | | |];
    try (unfold with_events_before; cbn [dr_events dr_partial dr_err]; rewrite El; reflexivity).
  change (drive fuel bufs (log_event r2 (mkEv (h_op h) p false (r_compressed r2))) =
          with_events_before pre (drive fuel bufs (log_event r2' (mkEv (h_op h) p false (r_compressed r2'))))).
  rewrite Ec. apply IH, simf_log_event, S2.
Qed.

(* any interleaving of NextFrame / Read / Discard calls: same results *)
Lemma run_script_sim b pre : forall ops r r', simf b pre r r' ->
  fst (run_script ops r) = fst (run_script ops r') /\
  simf b pre (snd (run_script ops r)) (snd (run_script ops r')).
Proof.
  induction ops as [|op ops IH]; intros r r' H; cbn [run_script]; [split; [reflexivity|exact H]|].
  assert (Hstep: exists o r1 r1',
     match op with
     | OpNext => let '((h, e), r1) := next_frame r in (OutNext h e, r1)
     | OpRead k => let '((d, e), r1) := reader_read (if k =? 0 then 1 else k) r in (OutRead d e, r1)
     | OpDiscard => let '(e, r1) := discard (Datatypes.S (length (flat (r_src r)))) r in (OutDiscard e, r1)
     end = (o, r1) /\
     match op with
     | OpNext => let '((h, e), r1) := next_frame r' in (OutNext h e, r1)
     | OpRead k => let '((d, e), r1) := reader_read (if k =? 0 then 1 else k) r' in (OutRead d e, r1)
     | OpDiscard => let '(e, r1) := discard (Datatypes.S (length (flat (r_src r')))) r' in (OutDiscard e, r1)
     end = (o, r1') /\ simf b pre r1 r1').
  { destruct op as [|k|].
    - destruct (next_frame_sim b pre r r' H) as [E S].
      destruct (next_frame r) as [[h e] r1]. destruct (next_frame r') as [[h' e'] r1'].
      cbn [fst snd] in E, S. injection E as <- <-. do 3 eexists. split; [reflexivity|]. split; [reflexivity|exact S].
    - destruct (reader_read_sim b pre (if k =? 0 then 1 else k) r r' H) as [E S].
      destruct (reader_read _ r) as [[d e] r1]. destruct (reader_read _ r') as [[d' e'] r1'].
      cbn [fst snd] in E, S. injection E as <- <-. do 3 eexists. split; [reflexivity|]. split; [reflexivity|exact S].
    - destruct (sim_fields _ _ _ _ H) as (Hsrc & _). rewrite Hsrc.
      destruct (discard_sim b pre (Datatypes.S (length (flat (r_src r')))) r r' H) as [E S].
      destruct (discard _ r) as [e r1]. destruct (discard _ r') as [e' r1'].
      cbn [fst snd] in E, S. subst e'. do 3 eexists. split; [reflexivity|]. split; [reflexivity|exact S]. }
  destruct Hstep as (o & r1 & r1' & -> & -> & S).
  destruct (IH r1 r1' S) as [E2 S2].
  destruct (run_script ops r1) as [os r2]. destruct (run_script ops r1') as [os' r2'].
  cbn [fst snd] in *. subst os'. split; [reflexivity|exact S2].
Qed.

(* ------------------------------------------------------------------ a Reader at rest is a new Reader *)
Lemma at_rest_fields r : at_rest r ->
  r_opcode r = 0 /\ r_frame r = false /\ r_rawN r = 0 /\ r_u8wrap r = false /\ r_u8state r = 0 /\ r_u8acc r = 0.
Proof.
  intros [H _]. destruct r. unfold reset in H. rsimpl. injection H. intros. subst. repeat split; reflexivity.
Qed.

Lemma at_rest_sim_ms r : at_rest r -> simf true (r_log r) r (fresh_of r).
Proof.
  intros H. destruct (at_rest_fields r H) as (H1 & H2 & H3 & H4 & H5 & H6).
  unfold simf, simw, fresh_of, new_reader_ms. rsimpl. split.
  - repeat split; try assumption; try reflexivity; rewrite H2 in *; discriminate.
  - intros _. split; [reflexivity|symmetry; apply app_nil_r].
Qed.

Lemma at_rest_sim_new r : at_rest r ->
  simf false [] r (new_reader (r_src r) (r_state r) (r_skip r) (r_check_utf8 r) (r_max r) (r_ext r) (r_cb r)).
Proof.
  intros H. destruct (at_rest_fields r H) as (H1 & H2 & H3 & H4 & H5 & H6).
  unfold simf, simw, new_reader. rsimpl. split.
  - repeat split; try assumption; try reflexivity; rewrite H2 in *; discriminate.
  - intros X. discriminate X.
Qed.

(* C18, reader clause, state level: EVERY Reader at rest, whatever its configuration *)
Theorem at_rest_drive_as_new : forall r, at_rest r -> forall fuel bufs,
  drive fuel bufs r = with_events_before (r_log r) (drive fuel bufs (fresh_of r)).
Proof. intros r H fuel bufs. apply drive_sim, at_rest_sim_ms, H. Qed.

Theorem at_rest_script_as_new_ms : forall r, at_rest r -> forall ops,
  fst (run_script ops r) = fst (run_script ops (fresh_of r)) /\
  flag_and_log (snd (run_script ops r)) =
    (fst (flag_and_log (snd (run_script ops (fresh_of r)))), r_log r ++ snd (flag_and_log (snd (run_script ops (fresh_of r))))).
Proof.
  intros r H ops. destruct (run_script_sim true (r_log r) ops r (fresh_of r) (at_rest_sim_ms r H)) as [E S].
  split; [exact E|]. destruct (sim_flag_log _ _ _ S) as [Ec El]. unfold flag_and_log. cbn [fst snd].
  rewrite Ec, El. reflexivity.
Qed.

Theorem at_rest_script_as_new : forall r, at_rest r -> forall ops,
  fst (run_script ops r) =
  fst (run_script ops (new_reader (r_src r) (r_state r) (r_skip r) (r_check_utf8 r) (r_max r) (r_ext r) (r_cb r))).
Proof. intros r H ops. apply (run_script_sim false [] ops r _ (at_rest_sim_new r H)). Qed.

(* ================================================================== 3. stream level: where the source stands afterwards *)
(* the frames that follow the message the Reader is in *)
Definition st_rest (st : mst) (rest : list sframe) : list sframe :=
  match st with
  | MMid _ f _ _ => if sf_fin f then rest else after_msg rest
  | MBet _ => after_msg rest
  end.

Lemma fin_of_state c m f pre post lg rest r kk x r' openm lg' rest' :
  Mid c m f pre post lg rest r -> rgo kk r = (x, r') -> Bnd c openm lg' rest' r' ->
  sf_fin f = negb (is_some openm).
Proof.
  intros HM Hr HB. pose proof (rgo_state kk r) as S. rewrite Hr in S. cbn [snd] in S.
  rewrite (b_state _ _ _ _ _ HB), (m_state _ _ _ _ _ _ _ _ HM) in S.
  apply (f_equal st_fragmented) in S. rewrite !st_frag_set in S.
  destruct (sf_fin f), (is_some openm); cbn [negb] in *; congruence.
Qed.

(* [read_stepS] of ReaderMoreProofs.v, saying also WHICH frames remain *)
Lemma read_stepP c st lg rest r kk : wf_cfg c -> minv c st lg rest r -> 0 < kk ->
  (exists d r' st' mid rest', reader_read kk r = ((d, None), r') /\ minv c st' (lg ++ mid) rest' r' /\
      m_op (mmsg st') = m_op (mmsg st) /\ m_comp (mmsg st') = m_comp (mmsg st) /\
      (mu r' < mu r)%nat /\ all_inter mid /\ st_rest st' rest' = st_rest st rest /\
      (forall m0, st' = MBet m0 -> r_rawN r' = 0) /\
      forall k evs, exists k', mspec c k st evs rest = mspec c k' st' (evs ++ mid) rest') \/
  (exists d r', reader_read kk r = ((d, Some (RIo EEOF)), r') /\ Bnd c None lg (st_rest st rest) r' /\
      (r_compressed r' = m_comp (mmsg st) \/ spec_control (m_op (mmsg st)) = true) /\
      (length (flat (r_src r')) <= length (flat (r_src r)))%nat) \/
  (exists d err r', reader_read kk r = ((d, Some err), r') /\ err <> RIo EEOF /\
      forall k evs, sr_out (mspec c k st evs rest) <> OClean).
Proof.
  intros Hc Hinv Hk. destruct st as [m f pre post|m]; cbn [minv mspec mdeliv mmsg st_rest] in *.
  - (* inside a frame *)
    rewrite reader_read_eq, (m_frame _ _ _ _ _ _ _ _ Hinv).
    pose proof (m_src _ _ _ _ _ _ _ _ Hinv) as (Hw & _).
    destruct (rgo_step c m f pre post lg rest r kk Hc Hinv Hk)
      as [(d & post' & r' & Hr & Hdp & HM & Hmu)|[(r' & Hr & HB & Hmu & Hsp)|[(r' & Hr & HB & Hcp & Hle & Hsp)|(d & r' & Hr & Hlg & Hsp)]]].
    + left. exists d, r', (MMid m f (pre ++ d) post'), [], rest. cbn [minv mspec mmsg st_rest]. rewrite app_nil_r.
      split; [exact Hr|]. split; [exact HM|]. split; [reflexivity|]. split; [reflexivity|].
      split; [exact Hmu|]. split; [constructor|]. split; [reflexivity|]. split; [intros m0 X; discriminate X|].
      intros k evs. exists k. rewrite app_nil_r. reflexivity.
    + left. exists post, r', (MBet (msg_after m f)), [], rest. cbn [minv mspec mmsg st_rest]. rewrite app_nil_r.
      pose proof (fin_of_state _ _ _ _ _ _ _ _ _ _ _ _ _ _ Hinv Hr HB) as Hfin. cbn [is_some negb] in Hfin.
      split; [exact Hr|]. split; [exact HB|]. split; [reflexivity|]. split; [reflexivity|].
      split; [exact Hmu|]. split; [constructor|]. split; [rewrite Hfin; reflexivity|]. split.
      { intros m0 _. pose proof (b_msg _ _ _ _ _ HB) as (Hfr' & _).
        exact (rgo_rawN kk r post r' Hw Hk (m_frame _ _ _ _ _ _ _ _ Hinv) Hr Hfr'). }
      intros k evs. exists (S k). rewrite app_nil_r. apply Hsp.
    + right; left. exists post, r'.
      pose proof (fin_of_state _ _ _ _ _ _ _ _ _ _ _ _ _ _ Hinv Hr HB) as Hfin. cbn [is_some negb] in Hfin.
      rewrite Hfin. split; [exact Hr|]. split; [exact HB|]. split; [exact Hcp|exact Hle].
    + right; right. exists d, RInvalidUtf8, r'. split; [exact Hr|]. split; [discriminate|].
      intros k evs. rewrite Hsp. discriminate.
  - (* between two fragments: the next header first *)
    pose proof (b_msg _ _ _ _ _ Hinv) as (Hfr & _). cbn [is_some] in *.
    rewrite reader_read_eq, Hfr, (b_state _ _ _ _ _ Hinv), st_frag_set. cbn [negb is_some].
    destruct rest as [|f rest].
    + destruct (next_frame_eof c (Some m) lg r Hinv) as (h & r' & Hnf & Hlg). rewrite Hnf. cbn [is_some].
      right; right. exists [], (RIo EUnexpected), r'. split; [reflexivity|]. split; [discriminate|].
      intros k evs. rewrite spec_run_nil. discriminate.
    + pose proof (next_frame_facts c (Some m) lg f rest r Hc Hinv) as F.
      destruct (next_frame_spec c (Some m) lg f rest r Hc Hinv) as (h & e & r1 & Hnf & H). rewrite Hnf in F |- *.
      cbn [is_some andb] in F.
      destruct e as [err|].
      * destruct H as (Hlg & Hsp). right; right. exists [], err, r1. split; [reflexivity|].
        split.
        { intros ->. destruct (Hsp 0%nat []) as (out & _ & Hem & _ & Hnc).
          destruct out; cbn [err_matches] in Hem; try discriminate. apply Hnc; reflexivity. }
        intros k evs. destruct (Hsp k evs) as (out & -> & _ & _ & Hnc). exact Hnc.
      * destruct (check_header (sf_header f) (set_fragmented (c_state c) true)) as [rl0|] eqn:Hck;
          [discriminate F|]. destruct F as [_ F]. specialize (F eq_refl).
        destruct H as (Hlen & [(m0 & Hm0 & Hfr1 & HB & Hsp)|(Hop & HM & Hsp)]).
        -- (* control frame in between *)
           rewrite Hfr1 in F |- *.
           assert (Hctl: spec_control (sf_op f) = true)
             by (destruct (spec_control (sf_op f)); [reflexivity|discriminate F]).
           injection Hm0 as <-. left.
           exists [], r1, (MBet m), [mkEv (sf_op f) (sf_payload f) true (m_comp m)], rest.
           cbn [minv mspec mmsg st_rest after_msg]. rewrite Hctl.
           split; [reflexivity|]. split; [exact HB|]. split; [reflexivity|]. split; [reflexivity|]. split.
           { unfold mu. rewrite Hfr, Hfr1. clear -Hlen. lia. }
           split; [repeat constructor|]. split; [reflexivity|].
           split; [intros m0 _; exact (next_frame_ctl_rawN _ _ _ Hnf Hfr1)|].
           intros k evs. exists (S k). apply Hsp.
        -- (* next fragment: its first Read happens in the same call *)
           cbn [msg_of] in *. rewrite (m_frame _ _ _ _ _ _ _ _ HM) in F |- *.
           assert (Hctl: spec_control (sf_op f) = false)
             by (destruct (spec_control (sf_op f)); [discriminate F|reflexivity]).
           pose proof (m_pay _ _ _ _ _ _ _ _ HM) as Hpay. cbn [app] in Hpay.
           pose proof (m_src _ _ _ _ _ _ _ _ HM) as (Hw1 & _).
           assert (Hmu1: (mu r1 < mu r)%nat).
           { unfold mu. rewrite Hfr, (m_frame _ _ _ _ _ _ _ _ HM). clear -Hlen. lia. }
           cbn [after_msg]. rewrite Hctl.
           destruct (rgo_step c m f [] (sf_payload f) lg rest r1 kk Hc HM Hk)
             as [(d & post' & r' & Hr & Hdp & HM' & Hmu)|[(r' & Hr & HB & Hmu & Hsp')|[(r' & Hr & HB & Hcp & Hle & Hsp')|(d & r' & Hr & Hlg & Hsp')]]].
           ++ left. exists d, r', (MMid m f ([] ++ d) post'), [], rest. cbn [minv mspec mmsg st_rest]. rewrite app_nil_r.
              split; [exact Hr|]. split; [exact HM'|]. split; [reflexivity|].
              split; [reflexivity|]. split; [clear -Hmu Hmu1; lia|]. split; [constructor|].
              split; [reflexivity|]. split; [intros m0 X; discriminate X|].
              intros k evs. exists k. rewrite app_nil_r. apply Hsp.
           ++ left. exists (sf_payload f), r', (MBet (msg_after m f)), [], rest. cbn [minv mspec mmsg st_rest].
              rewrite app_nil_r.
              pose proof (fin_of_state _ _ _ _ _ _ _ _ _ _ _ _ _ _ HM Hr HB) as Hfin. cbn [is_some negb] in Hfin.
              split; [exact Hr|]. split; [exact HB|]. split; [reflexivity|].
              split; [reflexivity|]. split; [clear -Hmu Hmu1; lia|]. split; [constructor|].
              split; [rewrite Hfin; reflexivity|]. split.
              { intros m0 _. pose proof (b_msg _ _ _ _ _ HB) as (Hfr' & _).
                exact (rgo_rawN kk r1 _ r' Hw1 Hk (m_frame _ _ _ _ _ _ _ _ HM) Hr Hfr'). }
              intros k evs. exists (S k). rewrite app_nil_r, Hsp. apply Hsp'.
           ++ right; left. exists (sf_payload f), r'.
              pose proof (fin_of_state _ _ _ _ _ _ _ _ _ _ _ _ _ _ HM Hr HB) as Hfin. cbn [is_some negb] in Hfin.
              rewrite Hfin. split; [exact Hr|]. split; [exact HB|]. split; [exact Hcp|].
              unfold mu in Hmu1. rewrite Hfr, (m_frame _ _ _ _ _ _ _ _ HM) in Hmu1. clear -Hle Hmu1. lia.
           ++ right; right. exists d, RInvalidUtf8, r'. split; [exact Hr|]. split; [discriminate|].
              intros k evs. rewrite Hsp, Hsp'. discriminate.
Qed.

(* reading the current message to io.EOF on a stream the spec accepts *)
Lemma read_to_eofP c : wf_cfg c -> forall fuel st lg rest r bufs all racc k evs,
  minv c st lg rest r -> (mu r < fuel)%nat -> sr_out (mspec c k st evs rest) = OClean ->
  exists p r2 mid, read_to_eof fuel bufs all r racc = ((p, RIo EEOF), r2) /\
    Bnd c None (lg ++ mid) (st_rest st rest) r2 /\ all_inter mid /\
    (r_compressed r2 = m_comp (mmsg st) \/ spec_control (m_op (mmsg st)) = true).
Proof.
  intros Hc. induction fuel as [|fuel IH]; intros st lg rest r bufs all racc k evs Hinv Hmu Hclean; [lia|].
  cbn [read_to_eof]. pose proof (next_buf_pos bufs all) as Hkk.
  destruct (next_buf bufs all) as [kk bufs']. cbn [fst] in Hkk.
  destruct (read_stepP c st lg rest r kk Hc Hinv Hkk)
    as [(d & r' & st' & mid & rest' & Hr & Hinv' & Hopq & Hcmq & Hmu' & Hmid & Hpos & _ & Hsp)
       |[(d & r' & Hr & HB & Hcp & Hle)|(d & err & r' & Hr & Hne & Hsp)]]; rewrite Hr.
  - destruct (Hsp k evs) as (k1 & Heq1). rewrite Heq1 in Hclean.
    destruct (IH st' (lg ++ mid) rest' r' bufs' all (d :: racc) k1 (evs ++ mid) Hinv' ltac:(lia) Hclean)
      as (p & r2 & mid2 & Hrte & HB & Hmid2 & Hcp).
    exists p, r2, (mid ++ mid2). rewrite app_assoc, <- Hpos, <- Hopq, <- Hcmq.
    split; [exact Hrte|]. split; [exact HB|]. split; [apply Forall_app; split; assumption|exact Hcp].
  - do 2 eexists. exists []. rewrite app_nil_r. split; [reflexivity|]. split; [exact HB|]. split; [constructor|exact Hcp].
  - exfalso. apply (Hsp k evs). exact Hclean.
Qed.

(* what a successful Discard leaves (discard_spec of ReaderMoreProofs.v with the
   remaining frames made explicit) *)
Definition dresP (c : rcfg) (X : option rerror * reader) (lg : list event) (target : list sframe)
           (cm isctl : bool) : Prop :=
  exists mid r', X = (None, r') /\ Bnd c None (lg ++ mid) target r' /\ all_inter mid /\
    (r_compressed r' = cm \/ isctl = true).

Lemma discardP c : wf_cfg c -> forall fuel st lg rest rn fr s0 k evs,
  minv c st lg rest rn -> (forall m, st = MBet m -> r_rawN rn = 0) ->
  (length (flat (r_src rn)) < fuel)%nat ->
  sr_out (mspec c k st evs rest) = OClean ->
  dresP c (discard fuel (with_fix rn fr s0)) lg (st_rest st rest) (m_comp (mmsg st)) (spec_control (m_op (mmsg st))).
Proof.
  intros Hc. induction fuel as [|fuel IH]; intros st lg rest rn fr s0 k evs Hinv Hraw Hfuel Hclean; [lia|].
  (* after the drain, between two fragments *)
  assert (C: forall m lg rest r1n fr st k evs, Bnd c (Some m) lg rest r1n ->
     (length (flat (r_src r1n)) < S fuel)%nat -> sr_out (spec_run c k (Some m) evs rest) = OClean ->
     dresP c (let '((_, e2), r2) := next_frame (with_fix r1n fr st) in
              match e2 with Some e2 => (Some e2, reset r2) | None => discard fuel r2 end)
           lg (after_msg rest) (m_comp m) (spec_control (m_op m))).
  { clear - Hc IH. intros m lg rest r1n fr st k evs HB Hf Hclean.
    destruct (next_frame_fix r1n fr st) as [fr' E]. rewrite E. clear E.
    destruct rest as [|f rest].
    - exfalso. rewrite spec_run_nil in Hclean. discriminate Hclean.
    - pose proof (next_frame_facts c (Some m) lg f rest r1n Hc HB) as F.
      destruct (next_frame_spec c (Some m) lg f rest r1n Hc HB) as (h & e & r2 & Hnf & H). rewrite Hnf in F |- *.
      cbn [fst snd is_some andb] in *.
      destruct e as [err|].
      + exfalso. destruct H as (_ & Hsp). destruct (Hsp k evs) as (out & Heq & _ & _ & Hnc).
        rewrite Heq in Hclean. apply Hnc, Hclean.
      + destruct (check_header (sf_header f) (set_fragmented (c_state c) true)) as [rl0|] eqn:Hck;
          [discriminate F|]. destruct F as [_ F]. specialize (F eq_refl).
        destruct H as (Hlen & [(m0 & Hm0 & Hfr1 & HB2 & Hsp)|(Hop & HM & Hsp)]).
        * injection Hm0 as <-. rewrite Hsp in Hclean.
          rewrite Hfr1 in F.
          assert (Hctl: spec_control (sf_op f) = true)
            by (destruct (spec_control (sf_op f)); [reflexivity|discriminate F]).
          pose proof (next_frame_ctl_rawN _ _ _ Hnf Hfr1) as Hr0.
          destruct (IH (MBet m) _ rest r2 fr' st (S k) _ HB2 ltac:(intros; exact Hr0) ltac:(lia) Hclean)
            as (mid & r' & Hd & HB' & Hmid & Hcp).
          exists ([mkEv (sf_op f) (sf_payload f) true (m_comp m)] ++ mid), r'.
          cbn [after_msg]. rewrite Hctl.
          split; [exact Hd|]. rewrite app_assoc. split; [exact HB'|].
          split; [constructor; [reflexivity|exact Hmid]|exact Hcp].
        * cbn [msg_of] in *. rewrite Hsp in Hclean. rewrite (m_frame _ _ _ _ _ _ _ _ HM) in F.
          assert (Hctl: spec_control (sf_op f) = false)
            by (destruct (spec_control (sf_op f)); [discriminate F|reflexivity]).
          destruct (IH (MMid m f [] (sf_payload f)) lg rest r2 fr' st k evs HM ltac:(intros; discriminate) ltac:(lia) Hclean)
            as (mid & r' & Hd & HB' & Hmid & Hcp).
          exists mid, r'. cbn [after_msg]. rewrite Hctl. cbn [st_rest mmsg] in *.
          split; [exact Hd|]. split; [exact HB'|]. split; [exact Hmid|exact Hcp]. }
  cbn [discard]. rewrite raw_drain_fix.
  destruct st as [m f pre post|m]; cbn [minv mspec st_rest mmsg] in *.
  - (* inside a frame: drain it *)
    pose proof Hinv as [Hcfg (Hw & Ht & Hfl) Hwf Hf Hpay Hwacc Hlog Hst Hfr Hopc Hcompr Hnoext Hctlfin HrawN Hmk Hkey Hwrap Hu8].
    destruct (drain_ok rn (wpay f (len pre) post) (wire rest) Hw Hfl ltac:(rewrite HrawN, len_wpay; reflexivity))
      as (r1 & Hdr & Hw1 & Ht1 & Hf1 & Hr1 & Hsame).
    rewrite Hdr. cbn [fst snd].
    destruct Hsame as (S1 & S2 & S3 & S4 & S5 & S6 & S7 & S8 & S9 & S10 & S11).
    assert (Hlen1: (length (flat (r_src r1)) <= length (flat (r_src rn)))%nat).
    { rewrite Hf1, Hfl, app_length. clear. lia. }
    assert (Hcfg1: cfg_ok c r1).
    { unfold cfg_ok in *. rewrite S2, S3, S4, S5, S7. exact Hcfg. }
    change (r_state (with_fix r1 fr s0)) with (r_state r1). rewrite S1, Hst, st_frag_set, negb_involutive.
    destruct m as [[o a] cm]. cbn [m_op m_acc m_comp fst snd] in *.
    unfold spec_data in Hclean.
    destruct (wrap_of c o && negb (if sf_fin f then valid_utf8 (a ++ sf_payload f) else utf8_viable (a ++ sf_payload f))) eqn:Hu;
      [discriminate Hclean|].
    destruct (sf_fin f) eqn:Hfin.
    + (* last fragment *)
      exists [], (reset r1).
      split; [reflexivity|]. rewrite app_nil_r. split.
      { constructor; rsimpl; cbn [is_some].
        - exact Hcfg1.
        - unfold src_ok; rsimpl. repeat split; [exact Hw1|congruence|exact Hf1].
        - exact Hwf.
        - congruence.
        - rewrite S1, Hst. reflexivity.
        - rewrite S6. exact Hnoext.
        - reflexivity. }
      split; [constructor|]. rsimpl. rewrite S6. exact Hcompr.
    + (* more fragments follow *)
      set (m' := (o, a ++ sf_payload f, cm)).
      set (stg := if wrap_of c o then u8_run 0 (a ++ sf_payload f) else 0).
      assert (Hwfacc': wf_bytes (a ++ sf_payload f)) by (apply wf_bytes_app; split; [exact Hwacc|apply Hf]).
      assert (Hnctl: spec_control o = false).
      { destruct (spec_control o); [|reflexivity]. specialize (Hctlfin eq_refl). discriminate. }
      assert (HB1: Bnd c (Some m') lg rest (with_fix r1 false stg)).
      { constructor; fsimpl; cbn [is_some m_op m_acc m_comp fst snd].
        - exact Hcfg1.
        - unfold src_ok; fsimpl. repeat split; [exact Hw1|congruence|exact Hf1].
        - exact Hwf.
        - congruence.
        - rewrite S1, Hst. reflexivity.
        - rewrite S6. exact Hnoext.
        - unfold m'. cbn [m_op m_acc m_comp fst snd]. split; [reflexivity|]. split; [congruence|]. split.
          { rewrite S6. destruct Hcompr as [Hx|Hx]; [exact Hx|congruence]. }
          split; [|split; assumption].
          unfold u8_ok; fsimpl. split; [reflexivity|]. unfold stg. destruct (wrap_of c o) eqn:Hwr.
          + cbn [andb] in Hu. rewrite utf8_viable_dfa in Hu by exact Hwfacc'. split.
            * intros E. rewrite E in Hu. discriminate Hu.
            * apply run_states; [exact Hwfacc'|simpl; tauto].
          + split; [discriminate|simpl; tauto]. }
      change (with_fix r1 fr s0) with (with_fix (with_fix r1 false stg) fr s0).
      assert (Hfu1: (length (flat (r_src (with_fix r1 false stg))) < S fuel)%nat) by (fsimpl; clear -Hlen1 Hfuel; lia).
      destruct (C m' lg rest (with_fix r1 false stg) fr s0 (S k) evs HB1 Hfu1 Hclean)
        as (mid & r' & Hd & HB' & Hmid & Hcp).
      exists mid, r'. split; [exact Hd|]. split; [exact HB'|]. split; [exact Hmid|exact Hcp].
  - (* between two fragments: nothing to drain *)
    specialize (Hraw m eq_refl).
    pose proof Hinv as [Hcfg (Hw & Ht & Hfl) Hwf Hlog Hst Hcz Hmsg].
    destruct (drain_ok rn [] (wire rest) Hw Hfl Hraw) as (r1 & Hdr & Hw1 & Ht1 & Hf1 & Hr1 & Hsame).
    rewrite Hdr. cbn [fst snd].
    destruct Hsame as (S1 & S2 & S3 & S4 & S5 & S6 & S7 & S8 & S9 & S10 & S11).
    assert (HB1: Bnd c (Some m) lg rest r1).
    { constructor.
      - unfold cfg_ok in *. rewrite S2, S3, S4, S5, S7. exact Hcfg.
      - unfold src_ok. repeat split; [exact Hw1|congruence|exact Hf1].
      - exact Hwf.
      - congruence.
      - congruence.
      - rewrite S6. exact Hcz.
      - unfold u8_ok in *. rewrite S9, S8, S6, S10. exact Hmsg. }
    change (r_state (with_fix r1 fr s0)) with (r_state r1). rewrite S1, Hst, st_frag_set. cbn [is_some negb].
    assert (Hfu1: (length (flat (r_src r1)) < S fuel)%nat) by (rewrite Hf1; rewrite Hfl in Hfuel; exact Hfuel).
    exact (C m lg rest r1 fr s0 k evs HB1 Hfu1 Hclean).
Qed.

(* ------------------------------------------------------------------ a Reader at a message boundary of a known stream *)
Lemma bnd_as_new c lg rest r2 : wf_cfg c -> Bnd c None lg rest r2 -> at_rest r2 ->
  reads_on_as_new c rest (r_compressed r2) r2.
Proof.
  intros Hc [(Hskip & Hchk & Hmax & Hext & Hcb) (Hw & Ht & Hfl) _ _ Hst _ _] Hrest.
  cbn [is_some] in Hst. rewrite (set_frag_init _ Hc) in Hst.
  assert (Hfresh: fresh_of r2 = new_reader_ms (r_src r2) (c_state c) false (c_check_utf8 c) (c_max c) (c_ext c)
                                   CbReadAll (r_compressed r2)).
  { unfold fresh_of. rewrite Hst, Hskip, Hchk, Hmax, Hext, Hcb. reflexivity. }
  unfold reads_on_as_new. cbv zeta.
  split; [exact Hw|]. split; [exact Ht|]. split; [exact Hfl|]. split; [exact Hrest|]. split; [reflexivity|].
  split; [exact Hfresh|]. split.
  - intros fuel bufs. rewrite <- Hfresh. apply at_rest_drive_as_new, Hrest.
  - intros ops. rewrite (at_rest_script_as_new r2 Hrest ops), Hst, Hskip, Hchk, Hmax, Hext, Hcb. reflexivity.
Qed.

Lemma discard_at_boundary c lg rest r n : Bnd c None lg rest r -> at_rest r ->
  exists r', discard (S n) r = (None, r') /\ Bnd c None lg rest r' /\ r_compressed r' = r_compressed r.
Proof.
  intros [Hcfg (Hw & Ht & Hfl) Hwf Hlog Hst Hnoext Hmsg] Hrest.
  destruct (at_rest_fields r Hrest) as (_ & _ & Hr0 & _).
  cbn [discard].
  destruct (drain_ok r [] (wire rest) Hw Hfl Hr0) as (r1 & Hdr & Hw1 & Ht1 & Hf1 & Hr1 & Hsame).
  rewrite Hdr. destruct Hsame as (S1 & S2 & S3 & S4 & S5 & S6 & S7 & S8 & S9 & S10 & S11).
  rewrite S1, Hst, st_frag_set. cbn [is_some negb].
  exists (reset r1). split; [reflexivity|]. split; [|rsimpl; exact S6].
  constructor; rsimpl; cbn [is_some].
  - unfold cfg_ok in *. rsimpl. rewrite S2, S3, S4, S5, S7. exact Hcfg.
  - unfold src_ok; rsimpl. repeat split; [exact Hw1|congruence|exact Hf1].
  - exact Hwf.
  - congruence.
  - rewrite S1, Hst. reflexivity.
  - rewrite S6. exact Hnoext.
  - reflexivity.
Qed.

(* NextFrame on the first frame of an accepted stream that starts with a data frame *)
Lemma first_step c f ftl s : wf_cfg c -> Forall wf_sframe (f :: ftl) ->
  sr_out (spec_run c 0 None [] (f :: ftl)) = OClean ->
  wf_src s -> tl s = TEOF -> flat s = wire (f :: ftl) ->
  let r0 := new_reader s (c_state c) false (c_check_utf8 c) (c_max c) (c_ext c) CbReadAll in
  let st := MMid (msg_of c None f) f [] (sf_payload f) in
  exists h r1, next_frame r0 = ((h, None), r1) /\ minv c st [] ftl r1 /\
    sr_out (mspec c 0 st [] ftl) = OClean /\
    (length (flat (r_src r1)) + 2 <= length (wire (f :: ftl)))%nat.
Proof.
  intros Hc Hfs Hclean Hw Ht Hfl r0 st.
  pose proof (new_reader_bnd c (f :: ftl) s Hc Hfs Hw Ht Hfl) as HB. fold r0 in HB.
  destruct (next_frame_spec c None [] f ftl r0 Hc HB) as (h & e & r1 & Hnf & H).
  destruct e as [err|].
  { exfalso. destruct H as (_ & Hsp). destruct (Hsp 0%nat []) as (out & Heq & _ & _ & Hnc).
    rewrite Heq in Hclean. apply Hnc, Hclean. }
  destruct H as (Hlen & [(m0 & Hm0 & _)|(Hop & HM & Hsp)]); [discriminate|].
  exists h, r1. split; [exact Hnf|]. split; [exact HM|]. split.
  - cbn [mspec st]. rewrite <- Hsp. exact Hclean.
  - change (flat (r_src r0)) with (flat s) in Hlen. rewrite Hfl in Hlen. exact Hlen.
Qed.

(* (a) the message read to io.EOF *)
Lemma after_read c f ftl s bufs all fuel : wf_cfg c -> Forall wf_sframe (f :: ftl) ->
  sr_out (spec_run c 0 None [] (f :: ftl)) = OClean -> spec_control (sf_op f) = false ->
  wf_src s -> tl s = TEOF -> flat s = wire (f :: ftl) -> (length (wire (f :: ftl)) <= fuel)%nat ->
  let r0 := new_reader s (c_state c) false (c_check_utf8 c) (c_max c) (c_ext c) CbReadAll in
  exists h r1 p r2, next_frame r0 = ((h, None), r1) /\ read_to_eof fuel bufs all r1 [] = ((p, RIo EEOF), r2) /\
    reads_on_as_new c (after_first (f :: ftl)) (c_ext c && rsv1 f) r2.
Proof.
  intros Hc Hfs Hclean Hnctl Hw Ht Hfl Hfuel r0.
  destruct (first_step c f ftl s Hc Hfs Hclean Hw Ht Hfl) as (h & r1 & Hnf & HM & Hcl & Hlen).
  assert (Hmu: (mu r1 < fuel)%nat).
  { unfold mu. cbn [minv] in HM. rewrite (m_frame _ _ _ _ _ _ _ _ HM). clear -Hlen Hfuel. lia. }
  destruct (read_to_eofP c Hc fuel _ [] ftl r1 bufs all [] 0%nat [] HM Hmu Hcl) as (p & r2 & mid & Hrte & HB & _ & Hcp).
  exists h, r1, p, r2. split; [exact Hnf|]. split; [exact Hrte|].
  cbn [mmsg msg_of m_op m_comp fst snd] in Hcp. destruct Hcp as [Hcp|Hcp]; [|congruence].
  rewrite <- Hcp. exact (bnd_as_new c _ _ r2 Hc HB (read_to_eof_at_rest _ _ _ _ _ _ _ Hrte)).
Qed.

(* (b) some Reads, then Discard *)
Definition PInv (c : rcfg) (target : list sframe) (cm : bool) (r : reader) : Prop :=
  (exists st lg rest k evs, minv c st lg rest r /\ (forall m, st = MBet m -> r_rawN r = 0) /\
      st_rest st rest = target /\ sr_out (mspec c k st evs rest) = OClean /\
      spec_control (m_op (mmsg st)) = false /\ m_comp (mmsg st) = cm) \/
  (exists lg, Bnd c None lg target r /\ at_rest r /\ r_compressed r = cm).

Lemma reads_then_discard c target cm : wf_cfg c -> forall ks r, PInv c target cm r ->
  exists outs r2, run_script (map OpRead ks ++ [OpDiscard]) r = (outs ++ [OutDiscard None], r2) /\
    length outs = length ks /\ exists lg, Bnd c None lg target r2 /\ at_rest r2 /\ r_compressed r2 = cm.
Proof.
  intros Hc. induction ks as [|k0 ks IH]; intros r HP.
  - cbn [map app run_script].
    destruct HP as [(st & lg & rest & k & evs & Hinv & Hraw & Hpos & Hcl & Hnctl & Hcm)|(lg & HB & Hrest & Hcm)].
    + pose proof (discardP c Hc (S (length (flat (r_src r)))) st lg rest r (r_frame r) (r_u8state r) k evs
                    Hinv Hraw ltac:(lia) Hcl) as D.
      rewrite with_fix_id in D. destruct D as (mid & r' & Hd & HB & _ & Hcp).
      rewrite Hd. exists [], r'. split; [reflexivity|]. split; [reflexivity|].
      exists (lg ++ mid). rewrite <- Hpos. split; [exact HB|]. split; [exact (discard_at_rest _ _ _ Hd)|].
      destruct Hcp as [Hcp|Hcp]; [congruence|congruence].
    + destruct (discard_at_boundary c lg target r (length (flat (r_src r))) HB Hrest) as (r' & Hd & HB' & Hc').
      rewrite Hd. exists [], r'. split; [reflexivity|]. split; [reflexivity|].
      exists lg. split; [exact HB'|]. split; [exact (discard_at_rest _ _ _ Hd)|congruence].
  - cbn [map app run_script].
    assert (Hkk: 0 < (if k0 =? 0 then 1 else k0)) by (destruct (k0 =? 0) eqn:E; lia).
    set (kk := if k0 =? 0 then 1 else k0) in *.
    assert (Hstep: exists d e r1, reader_read kk r = ((d, e), r1) /\ PInv c target cm r1).
    { destruct HP as [(st & lg & rest & k & evs & Hinv & Hraw & Hpos & Hcl & Hnctl & Hcm)|(lg & HB & Hrest & Hcm)].
      - destruct (read_stepP c st lg rest r kk Hc Hinv Hkk)
          as [(d & r' & st' & mid & rest' & Hr & Hinv' & Hopq & Hcmq & _ & _ & Hpos' & Hraw' & Hsp)
             |[(d & r' & Hr & HB & Hcp & _)|(d & err & r' & Hr & _ & Hsp)]].
        + exists d, None, r'. split; [exact Hr|]. left. destruct (Hsp k evs) as (k' & Heq).
          exists st', (lg ++ mid), rest', k', (evs ++ mid).
          split; [exact Hinv'|]. split; [exact Hraw'|]. split; [congruence|]. split; [rewrite <- Heq; exact Hcl|].
          split; congruence.
        + exists d, (Some (RIo EEOF)), r'. split; [exact Hr|]. right. exists lg. rewrite <- Hpos.
          split; [exact HB|]. split; [exact (read_eof_at_rest _ _ _ _ Hr)|].
          destruct Hcp as [Hcp|Hcp]; congruence.
        + exfalso. apply (Hsp k evs), Hcl.
      - exists [], (Some RNoFrameAdvance), r. split; [|right; exists lg; split; [exact HB|split; [exact Hrest|exact Hcm]]].
        destruct (at_rest_fields r Hrest) as (_ & Hfr & _). destruct Hrest as [_ Hnf].
        rewrite reader_read_eq, Hfr, Hnf. reflexivity. }
    destruct Hstep as (d & e & r1 & Hr & HP1). rewrite Hr.
    destruct (IH r1 HP1) as (outs & r2 & Hrun & Hlen & Hres). rewrite Hrun.
    exists (OutRead d e :: outs), r2. split; [reflexivity|]. split; [cbn [length]; rewrite Hlen; reflexivity|exact Hres].
Qed.

Lemma after_discard c f ftl s ks : wf_cfg c -> Forall wf_sframe (f :: ftl) ->
  sr_out (spec_run c 0 None [] (f :: ftl)) = OClean -> spec_control (sf_op f) = false ->
  wf_src s -> tl s = TEOF -> flat s = wire (f :: ftl) ->
  let r0 := new_reader s (c_state c) false (c_check_utf8 c) (c_max c) (c_ext c) CbReadAll in
  exists h outs r2, run_script (OpNext :: map OpRead ks ++ [OpDiscard]) r0 =
                      (OutNext h None :: outs ++ [OutDiscard None], r2) /\ length outs = length ks /\
    reads_on_as_new c (after_first (f :: ftl)) (c_ext c && rsv1 f) r2.
Proof.
  intros Hc Hfs Hclean Hnctl Hw Ht Hfl r0.
  destruct (first_step c f ftl s Hc Hfs Hclean Hw Ht Hfl) as (h & r1 & Hnf & HM & Hcl & Hlen). fold r0 in Hnf.
  assert (HP: PInv c (after_first (f :: ftl)) (c_ext c && rsv1 f) r1).
  { left. exists (MMid (msg_of c None f) f [] (sf_payload f)), [], ftl, 0%nat, [].
    split; [exact HM|]. split; [intros m X; discriminate X|]. split; [reflexivity|]. split; [exact Hcl|].
    split; [exact Hnctl|reflexivity]. }
  destruct (reads_then_discard c _ _ Hc ks r1 HP) as (outs & r2 & Hrun & Hlen' & lg & HB & Hrest & Hcm).
  exists h, outs, r2. split.
  - change (OpNext :: map OpRead ks ++ [OpDiscard]) with ([OpNext] ++ (map OpRead ks ++ [OpDiscard])).
    cbn [app run_script]. rewrite Hnf, Hrun. reflexivity.
  - split; [exact Hlen'|]. rewrite <- Hcm. exact (bnd_as_new c lg _ r2 Hc HB Hrest).
Qed.

(* ------------------------------------------------------------------ the first message spelled out *)
Lemma after_msg_ctls ctls t : Forall (fun f => ctl_ok f = true) ctls -> after_msg (ctls ++ t) = after_msg t.
Proof.
  induction 1 as [|f ctls Hf _ IH]; [reflexivity|]. cbn [app after_msg].
  destruct (ctl_ok_facts f Hf) as (-> & _). exact IH.
Qed.

Lemma after_msg_cont rest : forall l, l <> [] ->
  Forall (fun x => Forall (fun f => ctl_ok f = true) (fr_ctl x)) l ->
  after_msg (cont_frames l ++ rest) = rest.
Proof.
  induction l as [|x l IH]; intros Hne Hok; [contradiction|].
  pose proof (Forall_inv Hok) as Hx. pose proof (Forall_inv_tail Hok) as Hok'.
  cbn [cont_frames]. rewrite <- app_assoc, (after_msg_ctls _ _ Hx). cbn [app after_msg sf_op sf_fin].
  change (spec_control 0) with false. cbn iota. destruct l as [|y l']; [reflexivity|].
  apply IH; [discriminate|exact Hok'].
Qed.

Lemma after_first_msg rsv0 op k0 p0 l rest :
  Forall (fun x => Forall (fun f => ctl_ok f = true) (fr_ctl x)) l ->
  after_first (msg_frames_rsv rsv0 op k0 p0 l ++ rest) = rest.
Proof.
  intros Hok. unfold msg_frames_rsv. cbn [app after_first sf_fin]. destruct l as [|y l']; [reflexivity|].
  apply after_msg_cont; [discriminate|exact Hok].
Qed.

(* C18, reader clause, stream level *)
Theorem reader_next_message_as_new : forall c rsv0 op k0 p0 l rest s,
  let m1 := msg_frames_rsv rsv0 op k0 p0 l in
  let flag := c_ext c && rsv1_bit rsv0 in
  wf_cfg c -> (op = 1 \/ op = 2) -> Forall wf_sframe (m1 ++ rest) ->
  Forall (fun x => Forall (fun f => ctl_ok f = true) (fr_ctl x)) l ->
  sr_out (spec_run c 0 None [] (m1 ++ rest)) = OClean ->
  wf_src s -> tl s = TEOF -> flat s = wire (m1 ++ rest) ->
  let r0 := new_reader s (c_state c) false (c_check_utf8 c) (c_max c) (c_ext c) CbReadAll in
  (forall bufs all fuel, (length (wire (m1 ++ rest)) <= fuel)%nat ->
     exists h r1 p r2, next_frame r0 = ((h, None), r1) /\
       read_to_eof fuel bufs all r1 [] = ((p, RIo EEOF), r2) /\ reads_on_as_new c rest flag r2) /\
  (forall ks, exists h outs r2,
     run_script (OpNext :: map OpRead ks ++ [OpDiscard]) r0 = (OutNext h None :: outs ++ [OutDiscard None], r2) /\
     length outs = length ks /\ reads_on_as_new c rest flag r2).
Proof.
  intros c rsv0 op k0 p0 l rest s m1 flag Hc Hop Hfs Hctl Hclean Hw Ht Hfl r0.
  pose proof (after_first_msg rsv0 op k0 p0 l rest Hctl) as Haf. fold m1 in Haf.
  assert (Hshape: exists f ftl, m1 ++ rest = f :: ftl /\ spec_control (sf_op f) = false /\ c_ext c && rsv1 f = flag).
  { unfold m1, msg_frames_rsv. cbn [app]. do 2 eexists. split; [reflexivity|]. cbn [sf_op].
    split; [destruct Hop as [-> | ->]; reflexivity|reflexivity]. }
  destruct Hshape as (f & tl0 & Heq & Hnctl & Hflag). rewrite Heq in *. split.
  - intros bufs all fuel Hfuel.
    destruct (after_read c f tl0 s bufs all fuel Hc Hfs Hclean Hnctl Hw Ht Hfl Hfuel) as (h & r1 & p & r2 & H1 & H2 & H3).
    exists h, r1, p, r2. split; [exact H1|]. split; [exact H2|]. rewrite <- Haf, <- Hflag. exact H3.
  - intros ks.
    destruct (after_discard c f tl0 s ks Hc Hfs Hclean Hnctl Hw Ht Hfl) as (h & outs & r2 & H1 & H2 & H3).
    exists h, outs, r2. split; [exact H1|]. split; [exact H2|]. rewrite <- Haf, <- Hflag. exact H3.
Qed.

(* the three state-level statements together *)
Theorem at_rest_is_new : forall r, at_rest r ->
  (forall fuel bufs, drive fuel bufs r = with_events_before (r_log r) (drive fuel bufs (fresh_of r))) /\
  (forall ops, fst (run_script ops r) = fst (run_script ops (fresh_of r)) /\
     flag_and_log (snd (run_script ops r)) =
       (fst (flag_and_log (snd (run_script ops (fresh_of r)))),
        r_log r ++ snd (flag_and_log (snd (run_script ops (fresh_of r)))))) /\
  (forall ops, fst (run_script ops r) =
     fst (run_script ops (new_reader (r_src r) (r_state r) (r_skip r) (r_check_utf8 r) (r_max r) (r_ext r) (r_cb r)))).
Proof.
  intros r H. split; [apply at_rest_drive_as_new, H|]. split; [apply at_rest_script_as_new_ms, H|].
  apply at_rest_script_as_new, H.
Qed.
