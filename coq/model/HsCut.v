(* HsCut.v — C16, handshake clause: what it means that a request / response head has
   arrived completely, in terms of the line reader of the handshake models (HsBufio:
   [raw_lines] = the LF-terminated raw lines of a byte string and its unterminated rest;
   [cut_eol] = util.go:readLine's removal of "\n" / "\r\n").  Definitions only; proofs in
   HsCutProofs.v.

   The models have no failing DESTINATION (u_out / d_request are the bytes handed to the
   bufio.Writer); a failing write during the response / request flush is left to the
   observation kind HSW (harness + checker), see notes/hscut.md. *)
Require Import Bytes HsBufio.
Open Scope N_scope.

(* a raw line (it ends in LF) that readLine returns as the empty line: "\n" or "\r\n" *)
Definition blank_line (l : list byte) : bool :=
  match cut_eol l with [] => true | _ => false end.

(* the head is complete: a first line (request line / status line) terminated by LF, followed
   by LF-terminated lines one of which is blank.  Bytes behind the blank line do not matter. *)
Definition head_complete (bs : list byte) : bool :=
  match fst (raw_lines bs) with
  | [] => false
  | _ :: ls => existsb blank_line ls
  end.

(* number of bytes up to and including the first blank line of [ls] *)
Fixpoint blank_end (ls : list (list byte)) : option nat :=
  match ls with
  | [] => None
  | l :: r =>
      if blank_line l then Some (length l)
      else match blank_end r with Some n => Some (length l + n)%nat | None => None end
  end.

(* length of the head: first line, header lines, blank line.  None = the head is incomplete *)
Definition head_length (bs : list byte) : option nat :=
  match fst (raw_lines bs) with
  | [] => None
  | l :: ls => match blank_end ls with Some n => Some (length l + n)%nat | None => None end
  end.

(* the same without the line reader: somewhere an LF is directly followed by LF or by CR LF *)
Definition starts_blank (l : list byte) : bool :=
  match l with
  | [] => false
  | c :: r => (c =? 10) || ((c =? 13) && match r with d :: _ => d =? 10 | [] => false end)
  end.
Fixpoint has_lf_blank (l : list byte) : bool :=
  match l with
  | [] => false
  | b :: r => ((b =? 10) && starts_blank r) || has_lf_blank r
  end.

(* readers used by the examples: [bs] delivered in reads of [n] bytes *)
Fixpoint chunks_of (fuel n : nat) (l : list byte) : list (list byte) :=
  match fuel with
  | O => [l]
  | S f => match l with
           | [] => []
           | _ => firstn n l :: chunks_of f n (skipn n l)
           end
  end.
Definition cut_reader (n k : nat) (bs : list byte) (t : tail_kind) : reader :=
  mkReader [] (chunks_of (length bs) n (firstn k bs)) t.
