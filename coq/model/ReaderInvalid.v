(* ReaderInvalid.v — vocabulary for the C18/C07 statements about the usage
   "read the message; when Read reports ErrInvalidUTF8 call Discard; go on with
   NextFrame" (observation kind RDE).  Definitions only. *)
Require Import Bytes Stream Utf8Spec Check Frame Cipher Utf8Dfa Extracted Reader ReaderStream ReaderStreamC13.
Open Scope N_scope.

(* the configuration [c] with CheckUTF8 switched off: what the frame-sequence
   spec checks under it is exactly the wire-level well-formedness of the stream
   (header rules of ws.CheckHeader in the fragmentation state, MaxFrameSize, the
   RSV1 rule of the extension, the stream ends at a message boundary) and
   nothing about the payload bytes *)
Definition no_utf8 (c : rcfg) : rcfg := mkCfg (c_state c) false (c_max c) (c_ext c).

(* "well-formed on the wire": the spec without the UTF-8 rule accepts the frames to their end *)
Definition wire_ok (c : rcfg) (fs : list sframe) : Prop :=
  sr_out (spec_run (no_utf8 c) 0 None [] fs) = OClean.

(* a call result other than "Read returned ErrInvalidUTF8" *)
Definition not_invalid (o : rout) : Prop := forall d, o <> OutRead d (Some RInvalidUtf8).
