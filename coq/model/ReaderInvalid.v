(* ReaderInvalid.v — vocabulary for the C18/C07 statements about the usage
   "read the message; when Read reports ErrInvalidUTF8 call Discard; go on with
   NextFrame" (observation kind RDE).  Definitions only. *)
Require Import Bytes Stream Utf8Spec Check Frame Cipher Utf8Dfa Extracted Reader ReaderStream ReaderStreamC13.
Open Scope N_scope.

(* the configuration [c] with CheckUTF8 switched off: what the frame-sequence
   spec checks under it is exactly the wire-level well-formedness of the stream
   (header rules of ws.CheckHeader in the fragmentation state, MaxFrameSize, the
   RSV1 rule of the extension, the stream ends at a message boundary) and
   nothing about the payload bytes *)
Definition no_utf8 (c : rcfg) : rcfg := mkCfg (c_state c) false (c_max c) (c_ext c).

(* "well-formed on the wire": the spec without the UTF-8 rule accepts the frames to their end *)
Definition wire_ok (c : rcfg) (fs : list sframe) : Prop :=
  sr_out (spec_run (no_utf8 c) 0 None [] fs) = OClean.

(* a call result other than "Read returned ErrInvalidUTF8" *)
Definition not_invalid (o : rout) : Prop := forall d, o <> OutRead d (Some RInvalidUtf8).

(* ------------------------------------------------------------------ the usage of kind RDE as a driver *)
(* per message: NextFrame; read to the end; on ErrInvalidUTF8 call Discard; go on.
   One verdict per message, until NextFrame (or Discard) fails. *)
Inductive verdict := VOk (op : N) (p : list byte) | VInvalid.

Fixpoint judge_stream (fuel : nat) (bufs : list N) (r : reader) : list verdict * rerror :=
  match fuel with
  | O => ([], ROutOfFuel)
  | S f =>
    let '((h, e), r1) := next_frame r in
    match e with
    | Some e => ([], e)
    | None =>
      let '((p, e2), r2) := read_to_eof fuel bufs bufs r1 [] in
      match e2 with
      | RIo EEOF => let '(vs, e3) := judge_stream f bufs r2 in (VOk (h_op h) p :: vs, e3)
      | RInvalidUtf8 =>
        let '(e3, r3) := discard (S (length (flat (r_src r2)))) r2 in
        match e3 with
        | Some e3 => ([VInvalid], e3)
        | None => let '(vs, e4) := judge_stream f bufs r3 in (VInvalid :: vs, e4)
        end
      | e2 => ([], e2)
      end
    end
  end.

(* SPEC.  The messages of a frame sequence, by the frame-sequence spec without the UTF-8 rule:
   its events that are not interleaved control frames (data messages, and control frames
   standing outside a message, which the Reader delivers like messages), in stream order *)
Definition messages_of (c : rcfg) (fs : list sframe) : list event :=
  filter (fun e => negb (ev_inter e)) (sr_events (spec_run (no_utf8 c) 0 None [] fs)).
(* the verdict on ONE message, from that message alone *)
Definition verdict_of (c : rcfg) (ev : event) : verdict :=
  if c_check_utf8 c && (ev_op ev =? 1) && negb (valid_utf8 (ev_payload ev)) then VInvalid
  else VOk (ev_op ev) (ev_payload ev).

(* the FIRST message of the stream is well-formed on the wire: the spec without the UTF-8 rule
   accepts the whole stream, or at least gets as far as emitting a first message — every frame
   up to and including the final frame of the first message passed the header rules, the size
   limit and the RSV1 rule; whatever follows may break a rule or be cut short *)
Definition first_message_ok (c : rcfg) (fs : list sframe) : Prop :=
  wire_ok c fs \/ messages_of c fs <> [].
