(* HsDialer.v — transcription of dialer.go: Dialer.Upgrade (request writer, status line,
   header loop, deferred decision about the returned bufio.Reader), matchSelectedExtensions,
   hostport / Dialer.dial address derivation; http.go: httpWriteUpgradeRequest,
   httpParseResponseLine; nonce.go: checkAcceptFromNonce.  And the SPEC of C10.
   Definitions only.

   url.ParseRequestURI / URL.RequestURI() are net/url: the model starts from the host and
   request-URI they returned.  The nonce is random (math/rand): it is an input. *)
Require Import Bytes HsBase64 HsSha1 HsBufio HsHttpHead HsHttp.
From Coq Require String.
Import String.StringSyntax.
Local Open Scope string_scope.
Local Open Scope list_scope.
Open Scope N_scope.

Record dcfg := mkDcfg {
  dc_protocols : list (list byte);                 (* d.Protocols *)
  dc_extensions : list hopt;                       (* d.Extensions *)
  dc_header : list byte;                           (* what d.Header writes *)
  dc_host : list byte;                             (* d.Host ("" = use the URL's host) *)
  dc_on_header : list byte -> list byte -> bool    (* d.OnHeader returns an error? (nil = never) *)
}.

(* ---------- http.go: httpWriteUpgradeRequest ---------- *)
Fixpoint join_comma_space (ps : list (list byte)) : list byte :=
  match ps with
  | [] => []
  | [p] => p
  | p :: r => p ++ bs ", " ++ join_comma_space r
  end.
Definition write_upgrade_request (cfg : dcfg) (url_host uri nonce : list byte) : list byte :=
  bs "GET " ++ uri ++ bs " HTTP/1.1" ++ crlf
  ++ bs "Host: " ++ (match dc_host cfg with [] => url_host | h => h end) ++ crlf
  ++ bs "Upgrade: websocket" ++ crlf
  ++ bs "Connection: Upgrade" ++ crlf
  ++ bs "Sec-WebSocket-Version: 13" ++ crlf
  ++ bs "Sec-WebSocket-Key: " ++ nonce ++ crlf
  ++ (match dc_protocols cfg with
      | [] => []
      | ps => bs "Sec-WebSocket-Protocol: " ++ join_comma_space ps ++ crlf
      end)
  ++ (match dc_extensions cfg with
      | [] => []
      | es => bs "Sec-WebSocket-Extensions: " ++ write_options es ++ crlf
      end)
  ++ dc_header cfg ++ crlf.

(* ---------- http.go: httpParseResponseLine (after fix F4b: the status code is three digits) ---------- *)
Definition http_parse_response_line (ati : list byte -> option Z) (line : list byte) : option resp_line :=
  let '(proto, status, reason) := bsplit3 line 32 in
  match http_parse_version ati proto with
  | None => None
  | Some (ma, mi) =>
      if negb (len status =? 3) then None
      else match ati status with
           | None => None
           | Some st => Some (mkRespLine ma mi st reason)
           end
  end.
(* the same before F4b: any number of digits *)
Definition http_parse_response_line_old (ati : list byte -> option Z) (line : list byte) : option resp_line :=
  let '(proto, status, reason) := bsplit3 line 32 in
  match http_parse_version ati proto with
  | None => None
  | Some (ma, mi) =>
      match ati status with
      | None => None
      | Some st => Some (mkRespLine ma mi st reason)
      end
  end.

(* ---------- nonce.go: checkAcceptFromNonce ---------- *)
Definition check_accept (accept nonce : list byte) : bool :=
  (len accept =? 28) && bytes_eqb (accept_of_key nonce) accept.

(* ---------- dialer.go: matchSelectedExtensions ---------- *)
Inductive mx_err := MxMalformed | MxBadExtensions.
Record mx_acc := mkMx { mx_index : option N; mx_option : hopt; mx_received : list hopt; mx_err_flag : bool }.

(* match(): the first wanted option with the scanned option's name, carrying the scanned parameters *)
Fixpoint mx_find (name : list byte) (wanted : list hopt) : option hopt :=
  match wanted with
  | [] => None
  | w :: r => if bytes_eqb name (o_name w) then Some w else mx_find name r
  end.
Definition mx_match (wanted : list hopt) (a : mx_acc) : mx_acc * bool :=
  match mx_find (o_name (mx_option a)) wanted with
  | Some w => (mkMx (mx_index a) (mx_option a)
                    (mx_received a ++ [mkOpt (o_name w) (o_params (mx_option a))]) (mx_err_flag a), true)
  | None => (a, false)
  end.
Definition mx_it (wanted : list hopt) (a : mx_acc) (i : N) (name : list byte)
           (attr : option (list byte)) (val : list byte) : mx_acc * control :=
  let same := match mx_index a with Some j => j =? i | None => false end in
  let step1 :=
    if same then inl a
    else
      let a0 := mkMx (Some i) (mx_option a) (mx_received a) (mx_err_flag a) in
      if negb (i =? 0) then
        let (a1, ok) := mx_match wanted a0 in
        if ok then inl (mkMx (mx_index a1) (mkOpt name []) (mx_received a1) (mx_err_flag a1))
        else inr (mkMx (mx_index a1) (mx_option a1) (mx_received a1) true)
      else inl (mkMx (Some i) (mkOpt name []) (mx_received a) (mx_err_flag a)) in
  match step1 with
  | inr a' => (a', CBreak)
  | inl a1 =>
      (match attr with
       | Some k => mkMx (mx_index a1) (opt_set (mx_option a1) k val) (mx_received a1) (mx_err_flag a1)
       | None => a1
       end, CContinue)
  end.
Definition match_selected_extensions (selected : list byte) (wanted received : list hopt)
  : list hopt * option mx_err :=
  match selected with
  | [] => (received, None)
  | _ =>
      let '(a, ok) := scan_options mx_acc (mx_it wanted) selected (mkMx None opt_zero received false) in
      if negb ok then (mx_received a, Some MxMalformed)
      else
        let (a', m) := mx_match wanted a in
        if negb m then (mx_received a', Some MxBadExtensions)
        else (mx_received a', if mx_err_flag a' then Some MxBadExtensions else None)
  end.

(* ---------- dialer.go: Dialer.Upgrade ---------- *)
Inductive derr :=
  | DIO (t : tail_kind)        (* readLine failed *)
  | DMalformed                 (* ErrMalformedResponse *)
  | DBadProtocol               (* ErrHandshakeBadProtocol: not HTTP/1.x, x >= 1 *)
  | DStatus (st : Z)           (* StatusError(st) *)
  | DBadUpgrade | DBadConnection | DBadSecAccept
  | DBadSubProtocol | DBadExtensions
  | DCallback                  (* the error OnHeader returned *)
  | DFuel.

Record dst := mkDst { dsn_seen : N; dsn_hs : handshake }.
Definition dseen_upgrade := 1.
Definition dseen_connection := 2.
Definition dseen_accept := 4.
Definition dseen_all := 7.

Definition dres := (dst * option derr)%type.

(* the switch in the header loop (after fix F9: each Sec-WebSocket-Protocol line must match) *)
Definition dhdr_step (cfg : dcfg) (nonce : list byte) (s : dst) (k v : list byte) : dst + derr :=
  match classify k with
  | KUpgrade =>
      if equal_fold_word v (bs "websocket") then inl (mkDst (N.lor (dsn_seen s) dseen_upgrade) (dsn_hs s))
      else inr DBadUpgrade
  | KConnection =>
      if equal_fold_word v (bs "upgrade") then inl (mkDst (N.lor (dsn_seen s) dseen_connection) (dsn_hs s))
      else inr DBadConnection
  | KSecAccept =>
      if check_accept v nonce then inl (mkDst (N.lor (dsn_seen s) dseen_accept) (dsn_hs s))
      else inr DBadSecAccept
  | KSecProtocol =>
      if existsb (bytes_eqb v) (dc_protocols cfg)
      then inl (mkDst (dsn_seen s) (mkHs v (hs_exts (dsn_hs s))))
      else inr DBadSubProtocol
  | KSecExtensions =>
      let (es, e) := match_selected_extensions v (dc_extensions cfg) (hs_exts (dsn_hs s)) in
      match e with
      | Some MxMalformed => inr DMalformed
      | Some MxBadExtensions => inr DBadExtensions
      | None => inl (mkDst (dsn_seen s) (mkHs (hs_protocol (dsn_hs s)) es))
      end
  | KHost | KSecVersion | KSecKey | KOther =>
      if dc_on_header cfg k v then inr DCallback else inl s
  end.
(* the switch before F9: a second Sec-WebSocket-Protocol line passed whenever a first one had matched *)
Definition dproto_step_old (cfg : dcfg) (s : dst) (v : list byte) : dst + derr :=
  let p := if existsb (bytes_eqb v) (dc_protocols cfg) then v else hs_protocol (dsn_hs s) in
  match p with
  | [] => inr DBadSubProtocol
  | _ => inl (mkDst (dsn_seen s) (mkHs p (hs_exts (dsn_hs s))))
  end.

Definition dline_step (cfg : dcfg) (nonce : list byte) (s : dst) (line : list byte) : dst + dres :=
  match http_parse_header_line line with
  | None => inr (s, Some DMalformed)
  | Some (k, v) =>
      match dhdr_step cfg nonce s k v with
      | inl s' => inl s'
      | inr e => inr (s, Some e)
      end
  end.
Definition d_on_blank (s : dst) : dres := (s, None).
Definition d_on_ioerr (s : dst) (t : tail_kind) (_ : list byte) : dres := (s, Some (DIO t)).
Definition d_missing (seen : N) : derr :=
  if N.land seen dseen_upgrade =? 0 then DBadUpgrade
  else if N.land seen dseen_connection =? 0 then DBadConnection
  else DBadSecAccept.
Definition init_dst : dst := mkDst 0 (mkHs [] []).

Definition d_after_loop (lr : dres) : dres :=
  match lr with
  | (s, None) => if dsn_seen s =? dseen_all then (s, None) else (s, Some (d_missing (dsn_seen s)))
  | _ => lr
  end.

(* what Upgrade returns: the request written, the handshake, the error, and the reader that
   remains (br is handed back to the caller iff err = nil and it still buffers bytes) *)
Record dresult := mkDresult {
  d_request : list byte; d_hs : handshake; d_err : option derr; d_reader : reader }.
Definition d_returns_br (res : dresult) : bool :=
  match d_err res with
  | None => negb (match r_pending (d_reader res) with [] => true | _ => false end)
  | Some _ => false
  end.

Definition status_line_check (sl : resp_line) : option derr :=
  if negb (sl_major sl =? 1)%Z || (sl_minor sl <? 1)%Z then Some DBadProtocol
  else if negb (sl_status sl =? 101)%Z then Some (DStatus (sl_status sl))
  else None.

Definition empty_hs_d : handshake := mkHs [] [].

Definition dialer_upgrade (cfg : dcfg) (url_host uri nonce : list byte) (B : N) (r : reader) : dresult :=
  let req := write_upgrade_request cfg url_host uri nonce in
  match read_line B r with
  | (LErr t _, r1) => mkDresult req empty_hs_d (Some (DIO t)) r1
  | (LFuel, r1) => mkDresult req empty_hs_d (Some DFuel) r1
  | (LOk l, r1) =>
      match http_parse_response_line ascii_to_int l with
      | None => mkDresult req empty_hs_d (Some DMalformed) r1
      | Some sl =>
          match status_line_check sl with
          | Some e => mkDresult req empty_hs_d (Some e) r1
          | None =>
              let '(lr, r2) := run_stream dst dres (dline_step cfg nonce) d_on_blank d_on_ioerr
                                 (init_dst, Some DFuel) (S (length (flat r1))) B init_dst r1 in
              let '(s, e) := d_after_loop lr in
              mkDresult req (dsn_hs s) e r2
          end
      end
  end.

(* the same on the flat view *)
Definition dialer_upgrade_lines (cfg : dcfg) (nonce : list byte)
           (ls : list (list byte)) (rem : list byte) (t : tail_kind)
  : handshake * option derr * option (list (list byte)) (* raw lines left unread; None after an I/O error *) :=
  match ls with
  | [] => (empty_hs_d, Some (DIO t), None)
  | l :: ls' =>
      match http_parse_response_line ascii_to_int (cut_eol l) with
      | None => (empty_hs_d, Some DMalformed, Some ls')
      | Some sl =>
          match status_line_check sl with
          | Some e => (empty_hs_d, Some e, Some ls')
          | None =>
              let '(lr, unread) := run_lines dst dres (dline_step cfg nonce) d_on_blank d_on_ioerr
                                     init_dst ls' rem t in
              let '(s, e) := d_after_loop lr in
              (dsn_hs s, e, unread)
          end
      end
  end.

(* ---------- dialer.go: hostport, Dialer.dial ---------- *)
Fixpoint last_index_byte_from (c : byte) (l : list byte) (i : Z) (best : Z) : Z :=
  match l with
  | [] => best
  | b :: r => last_index_byte_from c r (i + 1)%Z (if b =? c then i else best)
  end.
Definition last_index_byte (c : byte) (l : list byte) : Z := last_index_byte_from c l 0%Z (-1)%Z.
Fixpoint index_byte_from (c : byte) (l : list byte) (i : Z) : Z :=
  match l with
  | [] => (-1)%Z
  | b :: r => if b =? c then i else index_byte_from c r (i + 1)%Z
  end.
Definition index_byte (c : byte) (l : list byte) : Z := index_byte_from c l 0%Z.

(* hostport(host, defaultPort) = (hostname, addr) *)
Definition hostport (host default_port : list byte) : list byte * list byte :=
  let colon := last_index_byte 58 host in
  let bracket := index_byte 93 host in
  if (bracket <? colon)%Z then
    if (colon =? Z.of_nat (length host) - 1)%Z        (* empty port (fix F19): the default applies *)
    then (firstn (Z.to_nat colon) host, firstn (Z.to_nat colon) host ++ default_port)
    else (firstn (Z.to_nat colon) host, host)
  else (host, host ++ default_port).

Inductive dial_plan :=
  | DialPlain (addr : list byte)
  | DialTLS (addr hostname : list byte)
  | DialBadScheme.
Definition dial_plan_of (scheme host : list byte) : dial_plan :=
  if bytes_eqb scheme (bs "ws") then DialPlain (snd (hostport host (bs ":80")))
  else if bytes_eqb scheme (bs "wss") then
    let (hn, addr) := hostport host (bs ":443") in DialTLS addr hn
  else DialBadScheme.

(* ====================== SPEC of C10 ====================== *)
(* the parsed response: status line fields and the ordered header lines up to the blank line *)
Record presp := mkPresp { pr_line : resp_line; pr_headers : list (list byte * list byte) }.

Fixpoint take_resp_headers (ls : list (list byte)) : option (list (list byte * list byte) * list (list byte)) :=
  match ls with
  | [] => None
  | l :: ls' =>
      match cut_eol l with
      | [] => Some ([], ls')
      | line =>
          match http_parse_header_line line with
          | None => None
          | Some kv =>
              match take_resp_headers ls' with
              | Some (hs, rest) => Some (kv :: hs, rest)
              | None => None
              end
          end
      end
  end.

Definition parse_response (bytes : list byte) : option (presp * list byte) :=
  let (ls, rem) := raw_lines bytes in
  match ls with
  | [] => None
  | l :: ls' =>
      match http_parse_response_line ascii_to_int (cut_eol l) with
      | None => None
      | Some sl =>
          match take_resp_headers ls' with
          | Some (hs, rest) => Some (mkPresp sl hs, concat rest ++ rem)
          | None => None
          end
      end
  end.

Definition dvalues_of (K : hkind) (hs : list (list byte * list byte)) : list (list byte) :=
  map snd (filter (fun kv => match classify (fst kv), K with
                             | KUpgrade, KUpgrade | KConnection, KConnection | KSecAccept, KSecAccept
                             | KSecProtocol, KSecProtocol | KSecExtensions, KSecExtensions => true
                             | _, _ => false
                             end) hs).
Definition dall_and_some {A} (p : A -> bool) (l : list A) : bool :=
  match l with [] => false | _ => forallb p l end.

(* the extensions the server selected, header line by header line *)
Fixpoint match_ext_spec (wanted : list hopt) (vs : list (list byte)) (acc : list hopt)
  : list hopt + mx_err :=
  match vs with
  | [] => inl acc
  | v :: r => let (es, e) := match_selected_extensions v wanted acc in
              match e with Some x => inr x | None => match_ext_spec wanted r es end
  end.

(* the conditions of the property on a parsed response *)
Definition response_accepted (cfg : dcfg) (nonce : list byte) (p : presp) : bool :=
  (sl_major (pr_line p) =? 1)%Z && (1 <=? sl_minor (pr_line p))%Z
  && (sl_status (pr_line p) =? 101)%Z
  && dall_and_some (fun v => equal_fold_word v (bs "websocket")) (dvalues_of KUpgrade (pr_headers p))
  && dall_and_some (fun v => equal_fold_word v (bs "upgrade")) (dvalues_of KConnection (pr_headers p))
  && dall_and_some (fun v => check_accept v nonce) (dvalues_of KSecAccept (pr_headers p))
  && forallb (fun v => existsb (bytes_eqb v) (dc_protocols cfg)) (dvalues_of KSecProtocol (pr_headers p))
  && forallb (fun kv => match classify (fst kv) with
                        | KHost | KSecVersion | KSecKey | KOther => negb (dc_on_header cfg (fst kv) (snd kv))
                        | _ => true
                        end) (pr_headers p).
Definition response_protocol (p : presp) : list byte := last (dvalues_of KSecProtocol (pr_headers p)) [].
Definition response_extensions (cfg : dcfg) (p : presp) : list hopt + mx_err :=
  match_ext_spec (dc_extensions cfg) (dvalues_of KSecExtensions (pr_headers p)) [].

(* the request the property demands *)
Definition expected_request (cfg : dcfg) (url_host uri nonce : list byte) : list byte :=
  bs "GET " ++ uri ++ bs " HTTP/1.1" ++ crlf
  ++ bs "Host: " ++ (match dc_host cfg with [] => url_host | h => h end) ++ crlf
  ++ bs "Upgrade: websocket" ++ crlf ++ bs "Connection: Upgrade" ++ crlf
  ++ bs "Sec-WebSocket-Version: 13" ++ crlf ++ bs "Sec-WebSocket-Key: " ++ nonce ++ crlf
  ++ (match dc_protocols cfg with [] => [] | ps => bs "Sec-WebSocket-Protocol: " ++ join_comma_space ps ++ crlf end)
  ++ (match dc_extensions cfg with [] => [] | es => bs "Sec-WebSocket-Extensions: " ++ write_options es ++ crlf end)
  ++ dc_header cfg ++ crlf.

(* host[:port] of a URL authority: reg-name / IPv4, or a bracketed IPv6 literal *)
Definition no_byte (c : byte) (l : list byte) : bool := forallb (fun b => negb (b =? c)) l.
Definition spec_name_port (h : list byte) : option (list byte * option (list byte)) :=
  if negb (no_byte 93 h) then None                    (* name [ ":" port ] *)
  else match split_byte 58 h with
       | None => Some (h, None)
       | Some (name, port) => if no_byte 58 port then Some (name, Some port) else None
       end.
Definition spec_split_host_port (host : list byte) : option (list byte * option (list byte)) :=
  match host with
  | c :: _ =>
      if c =? 91 then                                   (* "[" v6 "]" [ ":" port ] *)
        match split_byte 93 host with
        | Some (inside, after) =>
            match after with
            | [] => Some (host, None)
            | a :: port =>
                if (a =? 58) && no_byte 58 port && no_byte 93 port
                then Some (inside ++ [93], Some port) else None
            end
        | None => None
        end
      else spec_name_port host
  | [] => spec_name_port host
  end.
