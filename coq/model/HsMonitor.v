(* HsMonitor.v — the property texts of C09/C10 read directly on raw bytes, independent of
   the model's parsers: how a request (response) is split into lines and fields, what
   "HTTP/1.x, x >= 1", "contains the upgrade token", "24 characters", "literally 101" mean,
   which inputs the statement does not fix (judgement JOpen), and the structure of an HTTP
   error response.  Used as the boolean monitor on observations of the Go code.
   Definitions only. *)
Require Import Bytes HsBase64 HsSha1 HsBufio.
From Coq Require String.
Import String.StringSyntax.
Local Open Scope string_scope.
Local Open Scope list_scope.
Open Scope N_scope.

Fixpoint sbs (s : String.string) : list byte :=
  match s with
  | String.EmptyString => []
  | String.String a r => Ascii.N_of_ascii a :: sbs r
  end.

Definition sp_lower (c : byte) : byte := if (65 <=? c) && (c <=? 90) then c + 32 else c.
Definition sp_eq_nocase (a b : list byte) : bool := bytes_eqb (map sp_lower a) (map sp_lower b).
Definition sp_blank (c : byte) : bool := (c =? 32) || (c =? 9).
Fixpoint sp_ltrim (l : list byte) : list byte :=
  match l with c :: r => if sp_blank c then sp_ltrim r else l | [] => [] end.
Definition sp_trim (l : list byte) : list byte := rev (sp_ltrim (rev (sp_ltrim l))).
Definition sp_ascii (l : list byte) : bool := forallb (fun c => c <? 128) l.
Definition sp_digit (c : byte) : bool := (48 <=? c) && (c <=? 57).

(* split at every occurrence of c *)
Fixpoint sp_split_acc (c : byte) (cur : list byte) (l : list byte) : list (list byte) :=
  match l with
  | [] => [rev cur]
  | b :: r => if b =? c then rev cur :: sp_split_acc c [] r else sp_split_acc c (b :: cur) r
  end.
Definition sp_split (c : byte) (l : list byte) : list (list byte) := sp_split_acc c [] l.

(* decimal value of a digit string (unbounded) *)
Definition sp_decimal (l : list byte) : option N :=
  match l with
  | [] => None
  | _ => if forallb sp_digit l then Some (fold_left (fun acc c => 10 * acc + (c - 48)) l 0) else None
  end.

(* RFC 7230 tchar *)
Definition sp_tchar (c : byte) : bool :=
  sp_digit c || ((65 <=? c) && (c <=? 90)) || ((97 <=? c) && (c <=? 122))
  || (c =? 33) || (c =? 35) || (c =? 36) || (c =? 37) || (c =? 38) || (c =? 39) || (c =? 42)
  || (c =? 43) || (c =? 45) || (c =? 46) || (c =? 94) || (c =? 95) || (c =? 96) || (c =? 124) || (c =? 126).
Definition sp_token (l : list byte) : bool :=
  match l with [] => false | _ => forallb sp_tchar l end.

(* #token with optional blanks around the commas; None: not of that form *)
Definition sp_token_list (v : list byte) : option (list (list byte)) :=
  let es := map sp_trim (sp_split 44 v) in
  if forallb (fun e => match e with [] => true | _ => sp_token e end) es
  then Some (filter (fun e => match e with [] => false | _ => true end) es)
  else None.

(* list of  token *( ";" token [ "=" token ] )  elements (no quoted strings) *)
Definition sp_param (p : list byte) : option (list byte * list byte) :=
  match sp_split 61 p with
  | [k] => if sp_token (sp_trim k) then Some (sp_trim k, []) else None
  | [k; v] => if sp_token (sp_trim k) && sp_token (sp_trim v) then Some (sp_trim k, sp_trim v) else None
  | _ => None
  end.
Fixpoint sp_all {A B} (f : A -> option B) (l : list A) : option (list B) :=
  match l with
  | [] => Some []
  | a :: r => match f a, sp_all f r with Some b, Some bs => Some (b :: bs) | _, _ => None end
  end.
Definition sp_option (e : list byte) : option (list byte * list (list byte * list byte)) :=
  match sp_split 59 e with
  | [] => None
  | n :: ps =>
      if sp_token (sp_trim n) then
        match sp_all sp_param ps with Some l => Some (sp_trim n, l) | None => None end
      else None
  end.
Definition sp_option_list (v : list byte) : option (list (list byte * list (list byte * list byte))) :=
  let es := filter (fun e => match sp_trim e with [] => false | _ => true end) (sp_split 44 v) in
  match es with [] => None | _ => sp_all sp_option es end.

(* HTTP-version = "HTTP/" 1*DIGIT "." 1*DIGIT *)
Definition sp_version (v : list byte) : option (N * N * bool (* numerals of at most 18 digits *)) :=
  if bytes_eqb (firstn 5 v) (sbs "HTTP/") then
    match sp_split 46 (skipn 5 v) with
    | [a; b] =>
        match sp_decimal a, sp_decimal b with
        | Some x, Some y => Some (x, y, (len a <=? 18) && (len b <=? 18))
        | _, _ => None
        end
    | _ => None
    end
  else None.

(* head of a message: first line, (name, value) lines up to the blank line, bytes after it.
   None: stream ends before the blank line, or a header line has no colon *)
Fixpoint sp_headers (ls : list (list byte)) : option (list (list byte * list byte) * list (list byte)) :=
  match ls with
  | [] => None
  | l :: r =>
      match cut_eol l with
      | [] => Some ([], r)
      | line =>
          match sp_split 58 line with
          | n :: v1 :: vs =>
              match sp_headers r with
              | Some (hs, rest) =>
                  Some ((sp_trim n, sp_trim (v1 ++ concat (map (fun x => 58 :: x) vs))) :: hs, rest)
              | None => None
              end
          | _ => None
          end
      end
  end.
Record sp_head := mkSpHead { sh_first : list byte; sh_headers : list (list byte * list byte); sh_rest : list byte }.
Definition sp_parse_head (bytes : list byte) : option sp_head :=
  let (ls, rem) := raw_lines bytes in
  match ls with
  | [] => None
  | l :: r =>
      match sp_headers r with
      | Some (hs, rest) => Some (mkSpHead (cut_eol l) hs (concat rest ++ rem))
      | None => None
      end
  end.
Definition sp_values (name : String.string) (hs : list (list byte * list byte)) : list (list byte) :=
  map snd (filter (fun kv => sp_eq_nocase (fst kv) (sbs name)) hs).

(* per-line verdicts *)
Inductive verdict := VGood | VBad | VOpen.
Definition verdict_all (vs : list verdict) : verdict :=      (* "there is one and every line is good" *)
  match vs with
  | [] => VBad
  | _ =>
      if forallb (fun v => match v with VGood => true | _ => false end) vs then VGood
      else if forallb (fun v => match v with VBad => true | _ => false end) vs then VBad
      else VOpen                                             (* lines disagree, or the statement is silent *)
  end.

Definition sp_upgrade_verdict (v : list byte) : verdict :=
  if negb (sp_ascii v) then VOpen else if sp_eq_nocase v (sbs "websocket") then VGood else VBad.
Definition sp_has_token (v : list byte) (tok : String.string) : verdict :=
  match sp_token_list v with
  | None => VOpen
  | Some ts => if existsb (fun t => sp_eq_nocase t (sbs tok)) ts then VGood else VBad
  end.
(* base64 alphabet; 24 characters encoding 16 bytes: 22 symbols (the last with its 4 low bits 0) and "==" *)
Definition sp_b64_sym (c : byte) : bool :=
  sp_digit c || ((65 <=? c) && (c <=? 90)) || ((97 <=? c) && (c <=? 122)) || (c =? 43) || (c =? 47).
Definition sp_b64_low4_zero (c : byte) : bool :=
  (* symbols whose 6-bit value is a multiple of 16: A Q g w *)
  (c =? 65) || (c =? 81) || (c =? 103) || (c =? 119).
Definition sp_key_verdict (v : list byte) : verdict :=
  if negb (len v =? 24) then VBad
  else if forallb sp_b64_sym (firstn 22 v) && sp_b64_low4_zero (nth 21 v 0)
          && bytes_eqb (skipn 22 v) [61; 61] then VGood
  else VOpen.     (* 24 characters that are not the base64 form of 16 bytes: left open *)

Inductive judgement := JMustSucceed | JMustFail | JOpen.

(* ---- C09: what the statement says about a request, callbacks aside ---- *)
Record c09_view := mkC09View {
  v9_structure_ok : bool;          (* request line and head present and well-formed *)
  v9_uri : list byte;
  v9_headers : list (list byte * list byte);
  v9_builtin : judgement }.        (* built-in requirements: all hold / one surely broken / open *)

Definition c09_view_of (bytes : list byte) : c09_view :=
  match sp_parse_head bytes with
  | None => mkC09View false [] [] JMustFail
  | Some h =>
      match sp_split 32 (sh_first h) with
      | [m; u; v] =>
          let hs := sh_headers h in
          let vver := match sp_version v with
                      | None => VBad
                      | Some (ma, mi, small) =>
                          if (ma =? 1) && (1 <=? mi) then (if small then VGood else VOpen) else VBad
                      end in
          let vs := [ (if bytes_eqb m (sbs "GET") then VGood else VBad);
                      vver;
                      (match u with [] => VOpen | _ => VGood end);
                      (match sp_values "Host" hs with [] => VBad | _ => VGood end);
                      verdict_all (map sp_upgrade_verdict (sp_values "Upgrade" hs));
                      verdict_all (map (fun x => sp_has_token x "upgrade") (sp_values "Connection" hs));
                      verdict_all (map (fun x => if bytes_eqb x (sbs "13") then VGood else VBad)
                                       (sp_values "Sec-WebSocket-Version" hs));
                      verdict_all (map sp_key_verdict (sp_values "Sec-WebSocket-Key" hs)) ] in
          mkC09View true u hs
            (if existsb (fun v => match v with VBad => true | _ => false end) vs then JMustFail
             else if existsb (fun v => match v with VOpen => true | _ => false end) vs then JOpen
             else JMustSucceed)
      | _ => mkC09View false [] [] JMustFail
      end
  end.

Definition sp_known_header (n : list byte) : bool :=
  existsb (fun k => sp_eq_nocase n (sbs k))
    ["Host"; "Upgrade"; "Connection"; "Sec-WebSocket-Version"; "Sec-WebSocket-Key";
     "Sec-WebSocket-Protocol"; "Sec-WebSocket-Extensions"].

(* first token, in the client's order, that the selector accepts *)
Definition sp_first_accepted (check : list byte -> bool) (vals : list (list byte)) : option (list byte) :=
  match sp_all sp_token_list vals with
  | None => None                                    (* some value is not a clean token list: open *)
  | Some tss =>
      if existsb (fun ts => match ts with [] => true | _ => false end) tss then None
      else Some (match filter check (concat tss) with t :: _ => t | [] => [] end)
  end.

Definition accept_value (key : list byte) : list byte :=
  base64 (sha1 (key ++ sbs "258EAFA5-E914-47DA-95CA-C5AB0DC85B11")).

(* ---- the structure of an HTTP error response ---- *)
Record err_resp := mkErrResp { er_code : N; er_text : list byte; er_extra : list byte; er_body : list byte }.
Fixpoint sp_until_content_length (ls : list (list byte)) (acc : list byte)
  : option (list byte * list byte * list (list byte)) :=       (* extra block, length digits, lines after *)
  match ls with
  | [] => None
  | l :: r =>
      if bytes_eqb (firstn 16 l) (sbs "Content-Length: ")
      then Some (acc, cut_eol (skipn 16 l), r)
      else sp_until_content_length r (acc ++ l)
  end.
Definition sp_parse_error_response (out : list byte) : option err_resp :=
  let (ls, rem) := raw_lines out in
  match ls with
  | st :: ct :: r =>
      if negb (bytes_eqb ct (sbs "Content-Type: text/plain; charset=utf-8" ++ [13; 10])) then None
      else if negb (bytes_eqb (firstn 9 st) (sbs "HTTP/1.1 ")) then None
      else
        match sp_split 32 (cut_eol (skipn 9 st)) with
        | code :: text =>
            match sp_decimal code, sp_until_content_length r [] with
            | Some c, Some (extra, n, blank :: body_lines) =>
                let body := concat body_lines ++ rem in
                if bytes_eqb blank [13; 10] && bytes_eqb (skipn (length st - 2) st) [13; 10]
                   && match sp_decimal n with Some k => k =? len body | None => false end
                then Some (mkErrResp c (concat (map (fun x => x ++ [32]) text)) extra body)
                else None
            | _, _ => None
            end
        | [] => None
        end
  | _ => None
  end.
