(* Cipher.v — transcription of cipher.go (Cipher), wsutil/cipher.go
   (CipherReader, CipherWriter) and the Mask*/Unmask* helpers of frame.go, plus
   the RFC 6455 §5.3 SPEC.  Definitions only. *)
Require Import Bytes Stream Check Frame Extracted.
Open Scope N_scope.

(* ---------- SPEC: byte i becomes payload[i] XOR key[(offset+i) mod 4] ---------- *)
Fixpoint mask_spec (p : list byte) (key : list byte) (off : N) : list byte :=
  match p with
  | [] => []
  | b :: r => N.lxor b (nthb key (off mod 4)) :: mask_spec r key (off + 1)
  end.

(* ---------- MODEL: cipher.go ---------- *)
(* the byte loops  payload[i] ^= mask[(start+i)%4]  *)
Fixpoint byte_loop (p : list byte) (key : list byte) (start : N) : list byte :=
  match p with
  | [] => []
  | b :: r => N.lxor b (nthb key (start mod 4)) :: byte_loop r key (start + 1)
  end.

(* m := LittleEndian.Uint32(mask); m2 := uint64(m)<<32 | uint64(m) *)
Definition key_m32 (key : list byte) : N := le_val (firstn 4 key).
Definition key_m64 (key : list byte) : N := N.lor (N.shiftl (key_m32 key) 32) (key_m32 key).

(* one iteration: two little-endian 64-bit words XOR m2 *)
Definition word16 (chunk : list byte) (key : list byte) : list byte :=
  le_bytes 8 (N.lxor (le_val (firstn 8 chunk)) (key_m64 key))
  ++ le_bytes 8 (N.lxor (le_val (firstn 8 (skipn 8 chunk))) (key_m64 key)).

Fixpoint word_loop (iters : nat) (p : list byte) (key : list byte) : list byte :=
  match iters with
  | O => []
  | S k => word16 (firstn 16 p) key ++ word_loop k (skipn 16 p) key
  end.

Definition cipher (p : list byte) (key : list byte) (off : N) : list byte :=
  let n := len p in
  if n <? 8 then byte_loop p key off
  else
    let mpos := off mod 4 in
    let ln := nthb remain mpos in
    let rn := (n - ln) mod 16 in
    let iters := N.shiftr (n - ln - rn) 4 in
    byte_loop (take ln p) key mpos
    ++ word_loop (N.to_nat iters) (drop ln p) key
    ++ byte_loop (drop (n - rn) p) key (mpos + (n - rn)).

(* ---------- MODEL: wsutil/cipher.go ---------- *)
(* CipherReader: Read(p) = source read, Cipher(p[:n], mask, pos), pos += n.
   [bufs] are the caller's buffer sizes (cycled by the driver); the result is the
   list of byte slices returned and the final error. *)
Record creader := mkCR { cr_src : src; cr_key : list byte; cr_pos : N }.
Definition cr_read (k : N) (c : creader) : (list byte * option rerr) * creader :=
  let '((b, e), s') := read1 k (cr_src c) in
  ((cipher b (cr_key c) (cr_pos c), e), mkCR s' (cr_key c) (cr_pos c + len b)).

(* drive a cipher reader to the end with a list of buffer sizes used round-robin *)
Fixpoint cr_drive (fuel : nat) (bufs : list N) (all : list N) (c : creader) (acc : list byte)
  : list byte * option rerr :=
  match fuel with
  | O => (acc, None)
  | S f =>
    let '(k, bufs') := match bufs with [] => (match all with [] => (1, []) | k :: r => (k, r) end)
                                      | k :: r => (k, r) end in
    let k := if k =? 0 then 1 else k in
    let '((b, e), c') := cr_read k c in
    match e with
    | Some e => (acc ++ b, Some e)
    | None => cr_drive f bufs' all c' (acc ++ b)
    end
  end.

(* CipherWriter: Write(p) copies, ciphers with pos, writes, pos += n. One
   destination write per call. *)
Record cwriter := mkCW { cw_key : list byte; cw_pos : N }.
Definition cw_write (p : list byte) (c : cwriter) : list byte * cwriter :=
  (cipher p (cw_key c) (cw_pos c), mkCW (cw_key c) (cw_pos c + len p)).
Fixpoint cw_writes (ps : list (list byte)) (c : cwriter) : list (list byte) :=
  match ps with
  | [] => []
  | p :: r => let '(o, c') := cw_write p c in o :: cw_writes r c'
  end.

(* ---------- MODEL: frame.go helpers ---------- *)
(* result frame, and the caller's payload slice afterwards *)
Definition mask_frame_in_place_with (f : frame) (m : list byte) : frame * list byte :=
  let h := f_header f in
  let p := cipher (f_payload f) m 0 in
  (mkFrame (mkHeader (h_fin h) (h_rsv h) (h_op h) true m (h_len h)) p, p).
Definition mask_frame_with (f : frame) (m : list byte) : frame * list byte :=
  (fst (mask_frame_in_place_with f m), f_payload f).
Definition unmask_frame_in_place (f : frame) : frame * list byte :=
  let h := f_header f in
  let p := cipher (f_payload f) (h_mask h) 0 in
  (mkFrame (mkHeader (h_fin h) (h_rsv h) (h_op h) false zero_mask (h_len h)) p, p).
Definition unmask_frame (f : frame) : frame * list byte :=
  (fst (unmask_frame_in_place f), f_payload f).

(* MONITOR *)
Definition c02_monitor (p key : list byte) (off : N) (out : list byte) : bool :=
  bytes_eqb out (mask_spec p key off).
