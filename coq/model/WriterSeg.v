(* WriterSeg.v — C06/C13/C18: histories of wsutil.Writer that contain SetExtensions
   between two messages and the quick opcode reset (ResetOp) anywhere: the history is cut
   at those calls into SEGMENTS, every segment is judged by the history monitor
   [c06_monitor] of Writer.v with the opcode, the extension list and the buffer size that
   are in force during it, destination calls counted from the start of the segment and the
   destination log cut to the calls made during the segment.
   This is the segmentation that used to be hand-written OCaml glue in ocaml/k_writer.ml.
   Definitions only (proofs: proofs/WriterSegProofs.v). *)
Require Import Bytes Stream Check Frame Cipher Extracted Writer.
Open Scope N_scope.

(* the compressed flag a list of wsflate.MessageState extensions amounts to *)
Definition exts_compressed (xs : list bool) : bool := existsb (fun x => x) xs.

(* an observation with its destination-call counter counted from [base] *)
Definition rebase_obs (base : N) (o : wobs) : wobs :=
  mkWO (o_n o) (o_err o) (o_panic o) (o_buffered o) (o_available o) (o_size o) (o_calls o - base).
Definition rebase_step (base : N) (st : wstep) : wstep := mkStep (s_op st) (rebase_obs base (s_obs st)).

(* destination calls number base+1 .. last *)
Definition log_slice (base last : N) (log : list (list byte)) : list (list byte) :=
  take (last - base) (drop base log).

Definition is_none {A} (x : option A) : bool := match x with None => true | Some _ => false end.

(* ------------------------------------------------------------------ side conditions *)
(* [rest] = the writer stands between two messages (nothing buffered, no fragment of an
   open message sent, nothing written since the last final flush), as far as the
   operations and their observations tell: true before the first operation, after a final
   Flush that reported no error and left nothing buffered, and after ResetOp; false after
   Write / ReadFrom / WriteThrough; unchanged by FlushFragment, Grow, DisableFlush and
   SetExtensions.
   The segmentation applies when nothing panicked, there is no Reset, every
   SetExtensions attaches at most one extension and is called at rest, and every ResetOp
   sets a 4-bit opcode. *)
Fixpoint seg_applies (rest : bool) (steps : list wstep) : bool :=
  match steps with
  | [] => true
  | st :: r =>
    let o := s_obs st in
    is_none (o_panic o) &&
    match s_op st with
    | WSetExt xs => rest && (len xs <=? 1) && seg_applies rest r
    | WReset _ _ => false
    | WResetOp op' => (op' <? 16) && seg_applies true r
    | WFlush => seg_applies (is_none (o_err o) && (o_buffered o =? 0)) r
    | WWrite _ | WReadFrom _ _ | WWriteThrough _ => seg_applies false r
    | WFlushFragment | WGrow _ | WDisableFlush => seg_applies rest r
    end
  end.

Definition c06_segments_apply (exts0 : list bool) (steps : list wstep) : bool :=
  (len exts0 <=? 1) && seg_applies true steps.

(* ------------------------------------------------------------------ the segments *)
(* [cur] = the steps of the running segment, newest first, already rebased;
   [base] = destination calls made before the segment began.
   A segment ends at SetExtensions / ResetOp: its log is the calls base+1 .. (calls
   counted after the boundary call), so that a boundary call that wrote to the destination
   spoils the segment it closes; the last segment owns the whole rest of the log.
   ResetOp must leave nothing buffered. *)
Section Judge.
(* what every segment has to satisfy: side, opcode, compressed flag, buffer size at its start,
   its steps (calls counted from its start), its part of the destination log *)
Variable judge : bool -> N -> bool -> N -> list wstep -> list (list byte) -> bool.
Fixpoint seg_walk_with (client : bool) (op : N) (exts : list bool) (size base : N)
         (cur : list wstep) (steps : list wstep) (log : list (list byte)) : bool :=
  match steps with
  | [] => judge client op (exts_compressed exts) size (rev cur) (drop base log)
  | st :: r =>
    let o := s_obs st in
    match s_op st with
    | WSetExt xs =>
      judge client op (exts_compressed exts) size (rev cur) (log_slice base (o_calls o) log)
      && seg_walk_with client op xs (o_size o) (o_calls o) [] r log
    | WResetOp op' =>
      judge client op (exts_compressed exts) size (rev cur) (log_slice base (o_calls o) log)
      && (o_buffered o =? 0)
      && seg_walk_with client op' exts (o_size o) (o_calls o) [] r log
    | _ => seg_walk_with client op exts size base (rebase_step base st :: cur) r log
    end
  end.
End Judge.

(* every segment is judged by the C06 history monitor *)
Definition seg_walk := seg_walk_with c06_monitor.

(* the conjunction of the history monitor over the segments *)
Definition c06_segments_verdict (client : bool) (op : N) (exts0 : list bool) (buflen0 : N)
           (steps : list wstep) (log : list (list byte)) : bool :=
  seg_walk client op exts0 buflen0 0 [] steps log.

(* C06 / C13 send side / C18 (ResetOp): side conditions and verdict together *)
Definition c06_segments_monitor (client : bool) (op : N) (exts0 : list bool) (buflen0 : N)
           (steps : list wstep) (log : list (list byte)) : bool :=
  c06_segments_apply exts0 steps && c06_segments_verdict client op exts0 buflen0 steps log.

(* ------------------------------------------------------------------ C13, send side *)
(* the frames sent during one segment: every message (and the open one) carries RSV1 on its
   first frame exactly when [compressed] (data opcode), every other reserved bit is zero *)
Definition c13_rsv_judge (client : bool) (op : N) (compressed : bool) (size : N)
           (steps : list wstep) (log : list (list byte)) : bool :=
  match frames_of (concat log) with
  | None => false
  | Some fs =>
    let '(msgs, tailf) := split_messages fs [] in
    forallb (msg_frames_ok client op compressed true) msgs && msg_frames_ok client op compressed true tailf
  end.

(* with SetExtensions between messages: the reserved bits of every message are those of the
   extension list attached at that time *)
Definition c13_segments_rsv (client : bool) (op : N) (exts0 : list bool) (buflen0 : N)
           (steps : list wstep) (log : list (list byte)) : bool :=
  seg_walk_with c13_rsv_judge client op exts0 buflen0 0 [] steps log.
