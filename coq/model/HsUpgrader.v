(* HsUpgrader.v — transcription of server.go: Upgrader.Upgrade (zero-copy, over
   bufio/readLine on an arbitrarily chunked transport) and HTTPUpgrader.Upgrade (on
   net/http's structured request), and the SPEC of property C09 (compliant request,
   callbacks, expected responses).  Definitions only.

   Callbacks are arbitrary pure functions (decision tables are a special case).
   ProtocolCustom / ExtensionCustom (user-supplied header parsers) are assumed nil. *)
Require Import Bytes HsBase64 HsSha1 HsBufio HsHttpHead HsHttp.
From Coq Require String.
Import String.StringSyntax.
Local Open Scope string_scope.
Local Open Scope list_scope.
Open Scope N_scope.

(* ---------- built-in rejections (server.go) ---------- *)
Definition bad_header_reason (name : String.string) : list byte :=
  bs "handshake error: bad " ++ [34] ++ bs name ++ [34] ++ bs " header".
Definition err_bad_protocol := mkRej 505 [] (bs "handshake error: bad HTTP protocol version").
Definition err_bad_method := mkRej 405 [] (bs "handshake error: bad HTTP request method").
Definition err_bad_host := mkRej 400 [] (bad_header_reason "Host").
Definition err_bad_upgrade := mkRej 400 [] (bad_header_reason "Upgrade").
Definition err_bad_connection := mkRej 400 [] (bad_header_reason "Connection").
Definition err_bad_sec_key := mkRej 400 [] (bad_header_reason "Sec-WebSocket-Key").
Definition err_bad_sec_version := mkRej 400 [] (bad_header_reason "Sec-WebSocket-Version").
Definition err_upgrade_required :=
  mkRej 426 (bs "Sec-WebSocket-Version: 13" ++ crlf) (bad_header_reason "Sec-WebSocket-Version").

(* ---------- configuration ---------- *)
Record ucfg := mkUcfg {
  uc_header : list byte;                               (* what u.Header writes *)
  uc_protocol : option (list byte -> bool);            (* u.Protocol (nil = None) *)
  uc_extension : option (hopt -> bool);                (* u.Extension, deprecated *)
  uc_negotiate : option (hopt -> neg_res);             (* u.Negotiate *)
  uc_on_request : list byte -> option rej;             (* nil callback = always None *)
  uc_on_host : list byte -> option rej;
  uc_on_header : list byte -> list byte -> option rej;
  uc_on_before_upgrade : option (list byte + rej)      (* nil | header to write | error *)
}.

Inductive uerr :=
  | EIO (t : tail_kind)     (* readLine failed: the error is returned, nothing is written *)
  | EReqLine                (* request line does not parse: ErrMalformedRequest, nothing written *)
  | EFuel                   (* model ran out of fuel: excluded by the theorems *)
  | ERej (r : rej).         (* an HTTP error response has been written *)

Record ures := mkUres { u_hs : handshake; u_err : option uerr; u_out : list byte }.

(* ---------- the header loop state ---------- *)
Record ust := mkUst { us_seen : N; us_nonce : list byte; us_hs : handshake }.
Definition seen_host := 1.
Definition seen_upgrade := 2.
Definition seen_connection := 4.
Definition seen_sec_version := 8.
Definition seen_sec_key := 16.
Definition seen_all := 31.

Definition nonce_size := 24.
Definition word_websocket := bs "websocket".
Definition word_upgrade := bs "upgrade".

Definition set_seen (s : ust) (bit : N) := mkUst (N.lor (us_seen s) bit) (us_nonce s) (us_hs s).
Definition opt_rej (s : ust) (e : option rej) : ust + rej :=
  match e with Some r => inr r | None => inl s end.

(* one parsed header line: the switch in the loop of Upgrader.Upgrade *)
Definition hdr_step (cfg : ucfg) (s : ust) (k v : list byte) : ust + rej :=
  match classify k with
  | KHost => opt_rej (set_seen s seen_host) (uc_on_host cfg v)
  | KUpgrade =>
      if equal_fold_word v word_websocket then inl (set_seen s seen_upgrade) else inr err_bad_upgrade
  | KConnection =>
      if bytes_eqb v (bs "Upgrade") || bts_has_token v word_upgrade
      then inl (set_seen s seen_connection) else inr err_bad_connection
  | KSecVersion =>
      if bytes_eqb v (bs "13") then inl (set_seen s seen_sec_version) else inr err_upgrade_required
  | KSecKey =>
      if len v =? nonce_size
      then inl (mkUst (N.lor (us_seen s) seen_sec_key) v (us_hs s))
      else inr err_bad_sec_key
  | KSecProtocol =>
      match hs_protocol (us_hs s), uc_protocol cfg with
      | [], Some check =>
          let (p, ok) := select_protocol v check in
          if ok then inl (mkUst (us_seen s) (us_nonce s) (mkHs p (hs_exts (us_hs s))))
          else inr malformed_request
      | _, _ => inl s
      end
  | KSecExtensions =>
      match uc_negotiate cfg with
      | Some f =>
          let (es, e) := negotiate_extensions f v (hs_exts (us_hs s)) in
          match e with
          | Some r => inr r
          | None => inl (mkUst (us_seen s) (us_nonce s) (mkHs (hs_protocol (us_hs s)) es))
          end
      | None =>
          match uc_extension cfg with
          | Some check =>
              let (es, ok) := select_options check v (hs_exts (us_hs s)) in
              if ok then inl (mkUst (us_seen s) (us_nonce s) (mkHs (hs_protocol (us_hs s)) es))
              else inr malformed_request
          | None => inl s
          end
      end
  | KSecAccept | KOther => opt_rej s (uc_on_header cfg k v)
  end.

(* loop result: final state and the error, if any *)
Definition lres := (ust * option uerr)%type.
Definition line_step (cfg : ucfg) (s : ust) (line : list byte) : ust + lres :=
  match http_parse_header_line line with
  | None => inr (s, Some (ERej malformed_request))
  | Some (k, v) =>
      match hdr_step cfg s k v with
      | inl s' => inl s'
      | inr r => inr (s, Some (ERej r))
      end
  end.
Definition on_blank (s : ust) : lres := (s, None).
Definition on_ioerr (s : ust) (t : tail_kind) (_ : list byte) : lres := (s, Some (EIO t)).
Definition on_fuel (s0 : ust) : lres := (s0, Some EFuel).

(* the switch after the loop: which mandatory header is missing *)
Definition missing_header (seen : N) : rej :=
  if N.land seen seen_host =? 0 then err_bad_host
  else if N.land seen seen_upgrade =? 0 then err_bad_upgrade
  else if N.land seen seen_connection =? 0 then err_bad_connection
  else if N.land seen seen_sec_version =? 0 then err_bad_sec_version
  else err_bad_sec_key.

Definition init_ust : ust := mkUst 0 (repeat 0 24) (mkHs [] []).

Definition reject (stext : N -> list byte) (cfg : ucfg) (hs : handshake) (r : rej) : ures :=
  mkUres hs (Some (ERej r))
    (write_response_error stext (if rj_code r =? 0 then 500 else rj_code r)
       (uc_header cfg ++ rj_header r) (rj_reason r)).

Definition upgrader_tail (stext : N -> list byte) (cfg : ucfg) (lr : lres) : ures :=
  let (s, e) := lr in
  match e with
  | Some (ERej r) => reject stext cfg (us_hs s) r
  | Some (EIO t) => mkUres (us_hs s) (Some (EIO t)) []
  | Some EReqLine => mkUres (us_hs s) (Some EReqLine) []
  | Some EFuel => mkUres (us_hs s) (Some EFuel) []
  | None =>
      if negb (us_seen s =? seen_all) then reject stext cfg (us_hs s) (missing_header (us_seen s))
      else
        match uc_on_before_upgrade cfg with
        | Some (inr r) => reject stext cfg (us_hs s) r
        | Some (inl h) =>
            mkUres (us_hs s) None (write_response_upgrade (us_nonce s) (us_hs s) (uc_header cfg ++ h))
        | None =>
            mkUres (us_hs s) None (write_response_upgrade (us_nonce s) (us_hs s) (uc_header cfg))
        end
  end.

(* the checks on the request line (the first switch of Upgrade) *)
Definition request_line_check (cfg : ucfg) (rl : req_line) : option rej :=
  if negb (rl_major rl =? 1)%Z || (rl_minor rl <? 1)%Z then Some err_bad_protocol
  else if negb (bytes_eqb (rl_method rl) (bs "GET")) then Some err_bad_method
  else uc_on_request cfg (rl_uri rl).

Definition empty_hs := mkHs [] [].

(* Upgrader.Upgrade over a chunked transport read through a bufio.Reader of size B *)
Definition upgrader (stext : N -> list byte) (cfg : ucfg) (B : N) (r : reader) : ures :=
  match read_line B r with
  | (LErr t _, _) => mkUres empty_hs (Some (EIO t)) []
  | (LFuel, _) => mkUres empty_hs (Some EFuel) []
  | (LOk l, r1) =>
      match http_parse_request_line ascii_to_int l with
      | None => mkUres empty_hs (Some EReqLine) []
      | Some rl =>
          match request_line_check cfg rl with
          | Some e => reject stext cfg empty_hs e
          | None =>
              upgrader_tail stext cfg
                (fst (run_stream ust lres (line_step cfg) on_blank on_ioerr (on_fuel init_ust)
                        (S (length (flat r1))) B init_ust r1))
          end
      end
  end.

(* the same on the flat view of the stream: raw lines, unterminated rest, tail *)
Definition upgrader_lines (stext : N -> list byte) (cfg : ucfg)
           (ls : list (list byte)) (rem : list byte) (t : tail_kind) : ures :=
  match ls with
  | [] => mkUres empty_hs (Some (EIO t)) []
  | l :: ls' =>
      match http_parse_request_line ascii_to_int (cut_eol l) with
      | None => mkUres empty_hs (Some EReqLine) []
      | Some rl =>
          match request_line_check cfg rl with
          | Some e => reject stext cfg empty_hs e
          | None =>
              upgrader_tail stext cfg
                (fst (run_lines ust lres (line_step cfg) on_blank on_ioerr init_ust ls' rem t))
          end
      end
  end.

(* ====================== SPEC of C09 ====================== *)
(* the parsed request: request line and the ordered header lines (canonical name,
   trimmed value) up to the blank line *)
Record preq := mkPreq { pq_line : req_line; pq_headers : list (list byte * list byte) }.

(* header lines up to the blank line; None if a line has no colon or no blank line comes *)
Fixpoint take_headers (ls : list (list byte)) : option (list (list byte * list byte) * list (list byte)) :=
  match ls with
  | [] => None
  | l :: ls' =>
      match cut_eol l with
      | [] => Some ([], ls')
      | line =>
          match http_parse_header_line line with
          | None => None
          | Some kv =>
              match take_headers ls' with
              | Some (hs, rest) => Some (kv :: hs, rest)
              | None => None
              end
          end
      end
  end.

Definition parse_request (bytes : list byte) : option (preq * list byte) :=
  let (ls, rem) := raw_lines bytes in
  match ls with
  | [] => None
  | l :: ls' =>
      match http_parse_request_line ascii_to_int (cut_eol l) with
      | None => None
      | Some rl =>
          match take_headers ls' with
          | Some (hs, rest) => Some (mkPreq rl hs, concat rest ++ rem)
          | None => None
          end
      end
  end.

Definition values_of (kind : hkind -> bool) (hs : list (list byte * list byte)) : list (list byte) :=
  map snd (filter (fun kv => kind (classify (fst kv))) hs).
Definition is_kind (a b : hkind) : bool :=
  match a, b with
  | KHost, KHost | KUpgrade, KUpgrade | KConnection, KConnection | KSecVersion, KSecVersion
  | KSecKey, KSecKey | KSecProtocol, KSecProtocol | KSecExtensions, KSecExtensions
  | KSecAccept, KSecAccept | KOther, KOther => true
  | _, _ => false
  end.

Definition connection_ok (v : list byte) : bool :=
  bytes_eqb v (bs "Upgrade") || bts_has_token v word_upgrade.

(* "there is one and every line is good" *)
Definition all_and_some {A} (p : A -> bool) (l : list A) : bool :=
  match l with [] => false | _ => forallb p l end.

Definition compliant (q : preq) : bool :=
  bytes_eqb (rl_method (pq_line q)) (bs "GET")
  && (rl_major (pq_line q) =? 1)%Z && (1 <=? rl_minor (pq_line q))%Z
  && negb (match values_of (is_kind KHost) (pq_headers q) with [] => true | _ => false end)
  && all_and_some (fun v => equal_fold_word v word_websocket) (values_of (is_kind KUpgrade) (pq_headers q))
  && all_and_some connection_ok (values_of (is_kind KConnection) (pq_headers q))
  && all_and_some (fun v => bytes_eqb v (bs "13")) (values_of (is_kind KSecVersion) (pq_headers q))
  && all_and_some (fun v => len v =? 24) (values_of (is_kind KSecKey) (pq_headers q)).

(* no user callback objects *)
Definition other_kind (k : hkind) : bool := match k with KOther | KSecAccept => true | _ => false end.
Definition callbacks_accept (cfg : ucfg) (q : preq) : bool :=
  match uc_on_request cfg (rl_uri (pq_line q)) with Some _ => false | None => true end
  && forallb (fun v => match uc_on_host cfg v with Some _ => false | None => true end)
       (values_of (is_kind KHost) (pq_headers q))
  && forallb (fun kv => negb (other_kind (classify (fst kv)))
                        || match uc_on_header cfg (fst kv) (snd kv) with Some _ => false | None => true end)
       (pq_headers q)
  && match uc_on_before_upgrade cfg with Some (inr _) => false | _ => true end.

(* subprotocol: the first token, in header order, that the selector accepts; None when a
   Sec-WebSocket-Protocol value scanned before a selection is not a well-formed token list *)
Fixpoint select_protocol_spec (check : list byte -> bool) (vs : list (list byte)) : option (list byte) :=
  match vs with
  | [] => Some []
  | v :: r =>
      let (p, ok) := select_protocol v check in
      if negb ok then None
      else match p with [] => select_protocol_spec check r | _ => Some p end
  end.
Definition protocol_of (cfg : ucfg) (q : preq) : option (list byte) :=
  match uc_protocol cfg with
  | None => Some []
  | Some check => select_protocol_spec check (values_of (is_kind KSecProtocol) (pq_headers q))
  end.

(* extensions: the offers folded through Negotiate (or the deprecated Extension filter) *)
Fixpoint negotiate_spec (f : hopt -> neg_res) (vs : list (list byte)) (acc : list hopt) : list hopt + rej :=
  match vs with
  | [] => inl acc
  | v :: r => let (es, e) := negotiate_extensions f v acc in
              match e with Some x => inr x | None => negotiate_spec f r es end
  end.
Fixpoint select_ext_spec (check : hopt -> bool) (vs : list (list byte)) (acc : list hopt) : list hopt + rej :=
  match vs with
  | [] => inl acc
  | v :: r => let (es, ok) := select_options check v acc in
              if ok then select_ext_spec check r es else inr malformed_request
  end.
Definition extensions_of (cfg : ucfg) (q : preq) : list hopt + rej :=
  let vs := values_of (is_kind KSecExtensions) (pq_headers q) in
  match uc_negotiate cfg with
  | Some f => negotiate_spec f vs []
  | None => match uc_extension cfg with
            | Some check => select_ext_spec check vs []
            | None => inl []
            end
  end.

(* the key the accept value is computed from: the last Sec-WebSocket-Key line *)
Definition key_of (q : preq) : list byte := last (values_of (is_kind KSecKey) (pq_headers q)) (repeat 0 24).

Definition extra_header (cfg : ucfg) : list byte :=
  uc_header cfg ++ match uc_on_before_upgrade cfg with Some (inl h) => h | _ => [] end.

(* the 101 response the property demands *)
Definition expected_response (cfg : ucfg) (q : preq) (p : list byte) (es : list hopt) : list byte :=
  bs "HTTP/1.1 101 Switching Protocols" ++ crlf ++ bs "Upgrade: websocket" ++ crlf
  ++ bs "Connection: Upgrade" ++ crlf
  ++ bs "Sec-WebSocket-Accept: " ++ base64 (sha1 (key_of q ++ ws_guid)) ++ crlf
  ++ (match p with [] => [] | _ => bs "Sec-WebSocket-Protocol: " ++ p ++ crlf end)
  ++ (match es with [] => [] | _ => bs "Sec-WebSocket-Extensions: " ++ write_options es ++ crlf end)
  ++ extra_header cfg ++ crlf.

Definition is_101 (out : list byte) : bool := bytes_eqb (firstn 13 out) (bs "HTTP/1.1 101 ").

(* an HTTP error response with this status, these extra headers and this text as a
   correctly sized body *)
Definition error_response (stext : N -> list byte) (code : N) (hdr body : list byte) : list byte :=
  bs "HTTP/1.1 " ++ itoa code ++ [32] ++ stext code ++ crlf
  ++ bs "Content-Type: text/plain; charset=utf-8" ++ crlf ++ hdr
  ++ bs "Content-Length: " ++ itoa (len body) ++ crlf ++ crlf ++ body.

(* ====================== HTTPUpgrader ====================== *)
(* the view of *http.Request the code reads: Method, ProtoMajor/Minor, Host and the
   header map (canonical key -> values in arrival order); produced by net/http *)
Record hreq := mkHreq {
  hq_method : list byte; hq_major : Z; hq_minor : Z; hq_host : list byte;
  hq_header : list (list byte * list (list byte)) }.

Record hcfg := mkHcfg {
  hc_header : list byte;                       (* what http.Header.Write produces for u.Header *)
  hc_protocol : option (list byte -> bool);
  hc_extension : option (hopt -> bool);
  hc_negotiate : option (hopt -> neg_res) }.

Fixpoint header_values (h : list (list byte * list (list byte))) (key : list byte) : list (list byte) :=
  match h with
  | [] => []
  | (k, vs) :: r => if bytes_eqb k key then vs else header_values r key
  end.
Definition http_get_header (h : list (list byte * list (list byte))) (key : list byte) : list byte :=
  match header_values h key with [] => [] | v :: _ => v end.

(* the if / else-if chain of HTTPUpgrader.Upgrade (after fix F8: major must be 1) *)
Definition http_request_check (q : hreq) : option rej :=
  if negb (bytes_eqb (hq_method q) (bs "GET")) then Some err_bad_method
  else if negb (hq_major q =? 1)%Z || (hq_minor q <? 1)%Z then Some err_bad_protocol
  else if match hq_host q with [] => true | _ => false end then Some err_bad_host
  else if negb (equal_fold_word (http_get_header (hq_header q) h_upgrade) word_websocket)
    then Some err_bad_upgrade
  else if negb (connection_ok (http_get_header (hq_header q) h_connection)) then Some err_bad_connection
  else if negb (len (http_get_header (hq_header q) h_sec_key_c) =? nonce_size) then Some err_bad_sec_key
  else if negb (bytes_eqb (http_get_header (hq_header q) h_sec_version_c) (bs "13")) then
    (match http_get_header (hq_header q) h_sec_version_c with
     | [] => Some err_bad_sec_version
     | _ => Some err_upgrade_required
     end)
  else None.

(* the protocol loop: stops at the first selection or the first malformed value *)
Fixpoint http_protocol_loop (check : list byte -> bool) (ps : list (list byte)) : list byte * option rej :=
  match ps with
  | [] => ([], None)
  | v :: r =>
      let (p, ok) := select_protocol v check in
      if negb ok then (p, Some malformed_request)
      else match p with [] => http_protocol_loop check r | _ => (p, None) end
  end.
Fixpoint http_negotiate_loop (f : hopt -> neg_res) (vs : list (list byte)) (acc : list hopt)
  : list hopt * option rej :=
  match vs with
  | [] => (acc, None)
  | v :: r => let (es, e) := negotiate_extensions f v acc in
              match e with Some x => (es, Some x) | None => http_negotiate_loop f r es end
  end.
Fixpoint http_extension_loop (check : hopt -> bool) (vs : list (list byte)) (acc : list hopt)
  : list hopt * option rej :=
  match vs with
  | [] => (acc, None)
  | v :: r => let (es, ok) := select_options check v acc in
              if ok then http_extension_loop check r es else (es, Some malformed_request)
  end.

Definition http_upgrader (stext : N -> list byte) (cfg : hcfg) (q : hreq) : ures :=
  let err0 := http_request_check q in
  let nonce := http_get_header (hq_header q) h_sec_key_c in
  let '(p, err1) :=
    match err0, hc_protocol cfg with
    | None, Some check => http_protocol_loop check (header_values (hq_header q) h_sec_protocol_c)
    | _, _ => ([], err0)
    end in
  let '(es, err2) :=
    match err1, hc_negotiate cfg with
    | None, Some f => http_negotiate_loop f (header_values (hq_header q) h_sec_extensions_c) []
    | _, _ => ([], err1)
    end in
  let '(es', err3) :=
    match err2, hc_extension cfg, hc_negotiate cfg with
    | None, Some check, None => http_extension_loop check (header_values (hq_header q) h_sec_extensions_c) es
    | _, _, _ => (es, err2)
    end in
  let hs := mkHs p es' in
  match err3 with
  | None => mkUres hs None (write_response_upgrade nonce hs (hc_header cfg))
  | Some r =>
      mkUres hs (Some (ERej r))
        (write_response_error stext (if rj_code r =? 0 then 500 else rj_code r)
           (hc_header cfg ++ rj_header r) (rj_reason r))
  end.

(* SPEC for the structured request: compliance on the first value of each header
   (what net/http's Header.Get returns) *)
Definition http_compliant (q : hreq) : bool :=
  bytes_eqb (hq_method q) (bs "GET") && (hq_major q =? 1)%Z && (1 <=? hq_minor q)%Z
  && negb (match hq_host q with [] => true | _ => false end)
  && equal_fold_word (http_get_header (hq_header q) h_upgrade) word_websocket
  && connection_ok (http_get_header (hq_header q) h_connection)
  && (len (http_get_header (hq_header q) h_sec_key_c) =? 24)
  && bytes_eqb (http_get_header (hq_header q) h_sec_version_c) (bs "13").

Definition http_protocol_of (cfg : hcfg) (q : hreq) : option (list byte) :=
  match hc_protocol cfg with
  | None => Some []
  | Some check => select_protocol_spec check (header_values (hq_header q) h_sec_protocol_c)
  end.
Definition http_extensions_of (cfg : hcfg) (q : hreq) : list hopt + rej :=
  let vs := header_values (hq_header q) h_sec_extensions_c in
  match hc_negotiate cfg with
  | Some f => negotiate_spec f vs []
  | None => match hc_extension cfg with
            | Some check => select_ext_spec check vs []
            | None => inl []
            end
  end.
Definition http_expected_response (cfg : hcfg) (q : hreq) (p : list byte) (es : list hopt) : list byte :=
  bs "HTTP/1.1 101 Switching Protocols" ++ crlf ++ bs "Upgrade: websocket" ++ crlf
  ++ bs "Connection: Upgrade" ++ crlf
  ++ bs "Sec-WebSocket-Accept: " ++ base64 (sha1 (http_get_header (hq_header q) h_sec_key_c ++ ws_guid)) ++ crlf
  ++ (match p with [] => [] | _ => bs "Sec-WebSocket-Protocol: " ++ p ++ crlf end)
  ++ (match es with [] => [] | _ => bs "Sec-WebSocket-Extensions: " ++ write_options es ++ crlf end)
  ++ hc_header cfg ++ crlf.
