(* HsAgreeQ.v — the vocabulary of the agreement theorems for extension parameters whose values need
   httphead's quoted-string form (C11): which values survive WriteOptions / ScanOptions unchanged
   [qv_ok], what the scanner returns for a written value in general [nrm_value], which values are
   lexed as ONE quoted string at all [lexv_ok], and the option lists the theorems range over.
   Definitions only. *)
Require Import Bytes HsBase64 HsSha1 HsBufio HsHttpHead HsHttp HsUpgrader HsDialer HsAgreeExt.
Open Scope N_scope.

Definition is_nil (v : list byte) : bool := match v with [] => true | _ => false end.
Definition last_byte (v : list byte) : byte := last v 0.

(* the exact set of parameter values v for which ScanOptions (WriteOptions [x; k=v]) = [x; k=v]:
   non-empty (an empty value is written as the value-less parameter) and either a token, or free of
   backslashes and not ending in a double quote or DEL.  Every other octet is allowed anywhere:
   0..31, 128..255, space, separators, and double quote / DEL in the interior.
   Why: the writer puts a backslash only in front of each double quote and DEL; the scanner ends the
   string at the first quote whose predecessor is not a backslash, then RemoveByte drops every
   backslash — and also the last byte when the last-but-one byte is a backslash. *)
Definition qv_ok (v : list byte) : bool :=
  negb (is_nil v)
  && (forallb oct_token v
      || (no_byte 92 v && negb (last_byte v =? 34) && negb (last_byte v =? 127))).

(* what the scanner hands to the ScanOptions callback for the value the writer emitted for v
   (provided the quoted string is lexed as one item: lexv_ok) *)
Definition nrm_value (v : list byte) : list byte :=
  if forallb oct_token v then v else remove_backslash (escape_quoted v).
Definition nrm_params (ps : list (list byte * list byte)) : list (list byte * list byte) :=
  map (fun kv => (fst kv, nrm_value (snd kv))) ps.
Definition nrm_opt (o : hopt) : hopt := mkOpt (o_name o) (nrm_params (o_params o)).
Definition nrm_opts (os : list hopt) : list hopt := map nrm_opt os.

(* the written value is lexed as one item: a token, or a quoted string whose closing quote is not
   taken for an escaped one, i.e. the value does not end in a backslash *)
Definition lexv_ok (v : list byte) : bool := forallb oct_token v || negb (last_byte v =? 92).

(* parameters: token attribute; value absent or lexable *)
Definition lx_param (kv : list byte * list byte) : bool := tokb (fst kv) && lexv_ok (snd kv).
Definition lx_opt (o : hopt) : bool := tokb (o_name o) && forallb lx_param (o_params o).
Definition lx_opts (os : list hopt) : bool := forallb lx_opt os.

(* parameters whose values survive: absent, token, or quoted inside the frontier *)
Definition qv_param (kv : list byte * list byte) : bool :=
  tokb (fst kv) && (is_nil (snd kv) || qv_ok (snd kv)).
Definition qv_opt (o : hopt) : bool := tokb (o_name o) && forallb qv_param (o_params o).
Definition qv_opts (os : list hopt) : bool := forallb qv_opt os.

(* no value contains LF: the writer does not escape it, a raw LF would end the header line of the
   handshake (CR and every other octet are harmless inside the quoted string) *)
Definition nl_free (os : list hopt) : bool :=
  forallb (fun o => forallb (fun kv => no_byte 10 (snd kv)) (o_params o)) os.

(* the Negotiate table: no error on the offers it SEES (the scanned offers); its answers are options
   of the given class, free of LF, each carrying the name of an offer *)
Definition negq_table_ok (cls : list hopt -> bool) (f : hopt -> neg_res) (seen : list hopt) (exts : list hopt) : bool :=
  neg_total f seen && cls (neg_answers f seen) && nl_free (neg_answers f seen)
  && forallb (offered exts) (neg_answers f seen).

(* general form: lexable offers, lexable answers *)
Definition extl_ok (neg : option (hopt -> neg_res)) (exts : list hopt) : bool :=
  lx_opts exts && nl_free exts
  && match neg with Some f => negq_table_ok lx_opts f (nrm_opts exts) exts | None => true end.
(* surviving values on both sides *)
Definition extq_ok (neg : option (hopt -> neg_res)) (exts : list hopt) : bool :=
  qv_opts exts && nl_free exts
  && match neg with Some f => negq_table_ok qv_opts f exts exts | None => true end.

(* what the upgrader selects from the offers it sees *)
Definition seen_exts (ext : option (hopt -> bool)) (neg : option (hopt -> neg_res)) (exts : list hopt) : list hopt :=
  agreed_exts ext neg (nrm_opts exts).
