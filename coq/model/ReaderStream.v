(* ReaderStream.v — vocabulary for the stream-level statements of C05/C07:
   the message-data bytes and the control frames seen in a list of observed
   events resp. meant by a list of frames, and the frames of ONE fragmented
   text message.  Definitions only. *)
Require Import Bytes Stream Utf8Spec Check Frame Cipher Utf8Dfa Extracted Reader.
Open Scope N_scope.

(* ------------------------------------------------------------------ observed side *)
(* an event carries message data unless its opcode is a control opcode (a
   control frame is reported as an event of its own, inside or outside a message) *)
Definition ev_is_data (e : event) : bool := negb (spec_control (ev_op e)).
Definition data_events (evs : list event) : list event := filter ev_is_data evs.
Definition control_events (evs : list event) : list event :=
  filter (fun e => spec_control (ev_op e)) evs.
(* all bytes delivered as message data by completed messages, in order *)
Definition data_bytes_of_events (evs : list event) : list byte :=
  concat (map ev_payload (data_events evs)).
(* the control frames delivered: (opcode, payload), in order *)
Definition ctl_of_events (evs : list event) : list (N * list byte) :=
  map (fun e => (ev_op e, ev_payload e)) (control_events evs).

(* ------------------------------------------------------------------ sender side *)
Definition sf_is_data (f : sframe) : bool := negb (spec_control (sf_op f)).
(* the unmasked payloads of the data frames (first fragments and continuations), concatenated *)
Definition data_bytes_of_frames (fs : list sframe) : list byte :=
  concat (map sf_payload (filter sf_is_data fs)).
Definition ctl_of_frames (fs : list sframe) : list (N * list byte) :=
  map (fun f => (sf_op f, sf_payload f)) (filter (fun f => spec_control (sf_op f)) fs).

(* the size rule of the configuration, for one frame *)
Definition too_large (c : rcfg) (f : sframe) : bool :=
  (0 <? c_max c)%Z && (c_max c <? Z.of_N (len (sf_payload f)))%Z.

(* ------------------------------------------------------------------ one text message *)
(* a continuation fragment, with the control frames the peer sends just before it *)
Record frag := mkFrag { fr_ctl : list sframe; fr_key : option (list byte); fr_data : list byte }.

(* the continuation frames: opcode 0, FIN on the last one only *)
Fixpoint cont_frames (l : list frag) : list sframe :=
  match l with
  | [] => []
  | x :: l' =>
    fr_ctl x ++ mkSF (match l' with [] => true | _ => false end) 0 0 (fr_key x) (fr_data x)
             :: cont_frames l'
  end.
(* one message of opcode [op]: first fragment (key k0, payload p0) carries the
   opcode, FIN iff there is no continuation *)
Definition msg_frames (op : N) (k0 : option (list byte)) (p0 : list byte) (l : list frag) : list sframe :=
  mkSF (match l with [] => true | _ => false end) 0 op k0 p0 :: cont_frames l.
Definition msg_payload (p0 : list byte) (l : list frag) : list byte :=
  p0 ++ concat (map fr_data l).
(* the interleaved control frames as the callback sees them *)
Definition msg_ctl_events (l : list frag) : list event :=
  map (fun f => mkEv (sf_op f) (sf_payload f) true false) (concat (map fr_ctl l)).

(* masking as the side requires: a server only accepts masked frames, a client
   only unmasked ones *)
Definition mask_ok (state : N) (f : sframe) : bool :=
  (negb (st_server state) || match sf_key f with Some _ => true | None => false end) &&
  (negb (st_client state) || match sf_key f with Some _ => false | None => true end).
(* a control frame a peer may send inside a message: close/ping/pong, final, no
   reserved bits, at most 125 payload bytes *)
Definition ctl_ok (f : sframe) : bool :=
  ((sf_op f =? 8) || (sf_op f =? 9) || (sf_op f =? 10)) && sf_fin f && (sf_rsv f =? 0)
  && (len (sf_payload f) <=? 125).
