(* ReaderIdle.v — transports with idle reads: a Read answered with (0, nil), legal
   for an io.Reader, is an EMPTY chunk of the chunk list ([read1] on an empty head
   chunk returns ([], None) and drops it; [read_full_aux] steps over it).
   Definitions only: the chunk list without its empty chunks, the number of idle
   reads, "the transport idles between its last byte and the end of the stream". *)
Require Import Bytes Stream Reader.
Open Scope N_scope.

Definition is_idle (c : list byte) : bool := match c with [] => true | _ => false end.

(* the same transport without its idle reads *)
Definition strip_chunks (cs : list (list byte)) : list (list byte) :=
  filter (fun c => negb (is_idle c)) cs.
Definition strip (s : src) : src := mkSrc (strip_chunks (chunks s)) (tl s).

(* how many reads the transport answers with (0, nil) *)
Definition idle_chunks (cs : list (list byte)) : nat := length (filter is_idle cs).
Definition idle_reads (s : src) : nat := idle_chunks (chunks s).

(* the transport answers (0, nil) after its last byte, right before the end *)
Definition ends_idle (s : src) : Prop := exists cs, chunks s = cs ++ [[]].

(* the Reader on the stripped transport *)
Definition strip_reader (r : reader) : reader := set_src r (strip (r_src r)).
