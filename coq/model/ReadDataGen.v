(* ReadDataGen.v — the monitor of one ReadData-family call (helper.go:readData, model
   [read_data_call] in ReadData.v) on ANY frame stream, complete or cut at an arbitrary
   byte offset (C05 and C16 for this entry point). Definitions only.

   [fs] = the frames the peer means, [cut] = how many bytes of [wire fs] arrive before the
   transport reports io.EOF ([tail_fail] = false) or fails ([tail_fail] = true); the
   complete stream is [cut] = |wire fs|. [done] = the frames that arrive completely
   ([frames_before]); the frame-sequence spec [spec_run] is run over THEM only, so nothing
   of the cut frame or of a frame at or behind a rule violation can show up in the
   expected replies or in the expected result:

   * the destination bytes parse into exactly the replies the walk [rx_walk] asks for the
     control events of [done] up to the first wanted message / close (each pong echoing its
     ping, the close echo, the 1002/1007 close for an invalid close), in stream order;
   * if the walk finds a result among the events of [done] (first wanted complete message,
     peer's close, protocol error of an invalid close) the call returns exactly that;
   * otherwise the call returns an ERROR (never data), whose class is the spec's:
       - [done] breaks a rule at frame k (OProtocol k, ...): the matching error class
         (ws.ProtocolError for a header rule);
       - [done] is accepted and ends outside a message (OClean): a clean io.EOF exactly when
         the transport ends (io.EOF) at that frame boundary; never a clean io.EOF when the
         transport fails or the cut falls inside a frame's payload; when the cut falls
         inside a HEADER outside a message the EOF class is left open (ws.ReadHeader reports
         io.EOF when the stream ends exactly between the two fixed header bytes and the
         extended header — the same leeway as [cut_monitor] in Reader.v);
       - [done] ends inside a message (OCutMidMessage): never a clean io.EOF. *)
Require Import Bytes Stream Utf8Spec Check Frame Cipher Utf8Dfa Extracted Reader Writer Handler ReadData.
Open Scope N_scope.

Definition rx_err_class (o : outcome) (tail_fail : bool) (rest hdr_len : N) (e : rerror) : bool :=
  let clean := match e with RIo EEOF => true | _ => false end in
  match o with
  | OClean =>
    if tail_fail then negb clean
    else if rest =? 0 then clean
    else if rest <? hdr_len then true
    else negb clean
  | OCutMidMessage => negb clean
  | o => err_matches o e
  end.

Definition rx_monitor_gen (state want : N) (fs : list sframe) (cut : N) (tail_fail : bool)
           (res : rd_result) (log : list (list byte)) : bool :=
  let c := mkCfg state true 0 false in
  let '(done, rest) := frames_before cut fs in
  let sp := spec_run c 0 None [] done in
  let hdr_len := match nth_error fs (length done) with
                 | Some f => len (rfc_header (sf_header f)) | None => 0 end in
  let '(xs, xr) := rx_walk want (sr_events sp) [] in
  match frames_of (concat log) with
  | None => false
  | Some rf =>
    xreplies_ok state xs rf &&
    match xr with
    | Some _ => rx_result_matches xr res
    | None =>
      match res with
      | RDErr e => rx_err_class (sr_out sp) tail_fail rest hdr_len e
      | _ => false
      end
    end
  end.
