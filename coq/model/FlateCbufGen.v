(* FlateCbufGen.v — the cbuf model of Flate.v (cb_flush, cb_split, copy_into, cbuf_write, cbuf_reset),
   GENERALISED over the destination: instead of the concrete `dst` (log of writes + "fails from
   the k-th call on") the destination is any state machine (D, dwrite : D -> bytes -> D * failed?).
   The text of the definitions is that of Flate.v with `dst_write` replaced by the parameter; that the
   instance at (dst, dst_write) IS the model of Flate.v is proved in proofs/Translated4Cbuf.v
   (gcbuf_write_instance, gcbuf_reset_instance).  The source theorems C12_source_cbuf_* are stated
   over this generalisation so that they hold for EVERY io.Writer oracle.  Definitions only. *)
Require Import Bytes Flate.
Open Scope N_scope.

Section Gen.
  Variable D : Type.
  Variable dwrite : D -> list byte -> D * bool.

  Record gcbuf := mkGcbuf { gb_buf : list byte; gb_n : nat; gb_dst : D; gb_err : bool }.

  Definition gcbuf_reset (c : gcbuf) (d : D) : gcbuf := mkGcbuf [0; 0; 0; 0] 0 d false.

  Definition gcb_flush (c : gcbuf) (p : list byte) : gcbuf :=
    if gb_err c then c
    else let (d, e) := dwrite (gb_dst c) p in mkGcbuf (gb_buf c) (gb_n c) d e.

  Definition gcbuf_write (c : gcbuf) (p : list byte) : gcbuf * (nat * bool) :=
    if gb_err c then (c, (O, true))
    else
      let (head, tail) := cb_split p in
      let n := (gb_n c + length tail)%nat in
      let c1 :=
        if (4 <? n)%nat then
          let x := (n - 4)%nat in
          let cf := gcb_flush c (firstn x (gb_buf c)) in
          mkGcbuf (copy_into (gb_buf cf) 0 (skipn x (gb_buf cf))) (gb_n cf - x) (gb_dst cf) (gb_err cf)
        else c in
      let c2 := if (0 <? length head)%nat then gcb_flush c1 head else c1 in
      let c3 := mkGcbuf (copy_into (gb_buf c2) (gb_n c2) tail) (Nat.min (gb_n c2 + length tail) 4)
                  (gb_dst c2) (gb_err c2) in
      (c3, (length p, gb_err c3)).
End Gen.

Arguments mkGcbuf {D} _ _ _ _.
Arguments gb_buf {D} _.
Arguments gb_n {D} _.
Arguments gb_dst {D} _.
Arguments gb_err {D} _.
Arguments gcbuf_reset {D} _ _.
Arguments gcb_flush {D} _ _ _.
Arguments gcbuf_write {D} _ _ _.

(* the model of Flate.v as an instance *)
Definition gc_of_cbuf (c : cbuf) : gcbuf dst := mkGcbuf (cb_buf c) (cb_n c) (cb_dst c) (cb_err c).
