(* Utf8Dfa.v — transcription of wsutil/utf8.go: the Hoehrmann DFA over the table
   read from the source on every run (Extracted.utf8d), and UTF8Reader.
   Definitions only. *)
Require Import Bytes Stream Utf8Spec Extracted.
Open Scope N_scope.

(* decode(state, codep, b): only the state component matters for validity;
   codep is private and unobservable *)
Definition u8_class (b : byte) : N := nth (N.to_nat b) utf8d 0.
Definition u8_decode (s : N) (b : byte) : N := nth (N.to_nat (256 + s + u8_class b)) utf8d 12.
Definition u8_run (s : N) (l : list byte) : N := fold_left u8_decode l s.

(* would Go index out of range? (C15) *)
Definition u8_index_ok (s : N) (b : byte) : bool := 256 + s + u8_class b <? len utf8d.

(* UTF8Reader.Read's loop over the n bytes just read: final state, accepted count,
   rejected flag *)
Fixpoint u8_scan (s acc i : N) (bs : list byte) : N * N * bool :=
  match bs with
  | [] => (s, acc, false)
  | b :: r =>
    let s' := u8_decode s b in
    if s' =? utf8_reject then (s', acc, true)
    else u8_scan s' (if s' =? utf8_accept then i + 1 else acc) (i + 1) r
  end.

Record u8reader := mkU8 { u_src : src; u_state : N; u_accepted : N }.
Inductive u8err := U8Io (e : rerr) | U8Invalid.

(* Read(p) with len p = k: bytes the CALLER sees as returned (n, err) *)
Definition u8_read (k : N) (u : u8reader) : (N * list byte * option u8err) * u8reader :=
  let '((b, e), s') := read1 k (u_src u) in
  let '(st, acc, rej) := u8_scan (u_state u) 0 0 b in
  if rej then ((acc, b, Some U8Invalid), mkU8 s' st (u_accepted u))
  else ((len b, b, match e with Some e => Some (U8Io e) | None => None end), mkU8 s' st acc).
Definition u8_valid (u : u8reader) : bool := u_state u =? utf8_accept.

(* read to the end with caller buffer sizes used round-robin; result: bytes
   reported as read, final error, reader *)
Fixpoint u8_drive (fuel : nat) (bufs all : list N) (u : u8reader) (acc : list byte)
  : list byte * option u8err * u8reader :=
  match fuel with
  | O => (acc, None, u)
  | S f =>
    let '(k, bufs') := match bufs with [] => (match all with [] => (1, []) | k :: r => (k, r) end)
                                      | k :: r => (k, r) end in
    let k := if k =? 0 then 1 else k in
    let '((n, b, e), u') := u8_read k u in
    match e with
    | Some e => (acc ++ take n b, Some e, u')
    | None => u8_drive f bufs' all u' (acc ++ take n b)
    end
  end.

(* what a caller concludes: the stream was delivered completely and is valid *)
Definition u8_accepts (r : list byte * option u8err * u8reader) : bool :=
  let '(_, e, u) := r in
  match e with Some (U8Io EEOF) => u8_valid u | _ => false end.
