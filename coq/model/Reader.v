(* Reader.v — transcription of wsutil/reader.go (Reader.NextFrame/Read/Discard,
   reset, resetFragment), of wsflate.MessageState.UnsetBits as receive extension,
   of the drivers around it (read-to-EOF loop, helper.go:ReadMessage), and the
   frame-sequence SPEC used by C04/C05/C07/C13/C16.  Definitions only. *)
Require Import Bytes Stream Utf8Spec Check Frame Cipher Utf8Dfa Extracted.
Open Scope N_scope.

(* ------------------------------------------------------------------ errors *)
Inductive rerror :=
  | RIo (e : rerr)          (* io.EOF / io.ErrUnexpectedEOF / transport failure *)
  | RMsb | RLenUnexpected   (* header errors *)
  | RProtocol (r : rule)    (* ws.CheckHeader *)
  | RTooLarge               (* ErrFrameTooLarge *)
  | RNoFrameAdvance
  | RInvalidUtf8
  | RCompressionBit         (* wsflate.ErrUnexpectedCompressionBit *)
  | ROutOfFuel.             (* model artefact; excluded by the theorems *)

Record event := mkEv { ev_op : N; ev_payload : list byte; ev_inter : bool; ev_comp : bool }.

Inductive cbkind := CbNone | CbReadAll.

Record reader := mkR {
  r_src : src;
  r_state : N;              (* ws.State *)
  r_skip : bool;            (* SkipHeaderCheck *)
  r_check_utf8 : bool;      (* CheckUTF8 *)
  r_max : Z;                (* MaxFrameSize *)
  r_ext : bool;             (* Extensions = [*wsflate.MessageState] *)
  r_compressed : bool;      (* that MessageState's flag *)
  r_cb : cbkind;            (* OnIntermediate *)
  r_opcode : N;
  r_frame : bool;           (* frame != nil *)
  r_rawN : N;               (* raw.N *)
  r_masked : bool;          (* frame goes through the cipher reader *)
  r_key : list byte;
  r_cpos : N;
  r_u8wrap : bool;          (* frame goes through the UTF8Reader *)
  r_u8state : N;
  r_u8acc : N;
  r_log : list event        (* what OnIntermediate recorded *)
}.

Definition new_reader (s : src) (state : N) (skip chk : bool) (max : Z) (ext : bool) (cb : cbkind) : reader :=
  mkR s state skip chk max ext false cb 0 false 0 false zero_mask 0 false 0 0 [].

Definition set_src (r : reader) (s : src) : reader :=
  mkR s (r_state r) (r_skip r) (r_check_utf8 r) (r_max r) (r_ext r) (r_compressed r) (r_cb r)
      (r_opcode r) (r_frame r) (r_rawN r) (r_masked r) (r_key r) (r_cpos r)
      (r_u8wrap r) (r_u8state r) (r_u8acc r) (r_log r).

(* reset(): raw, frame, utf8, opCode *)
Definition reset (r : reader) : reader :=
  mkR (r_src r) (r_state r) (r_skip r) (r_check_utf8 r) (r_max r) (r_ext r) (r_compressed r) (r_cb r)
      0 false 0 (r_masked r) (r_key r) (r_cpos r) false 0 0 (r_log r).
(* resetFragment(): raw, frame, utf8.Source — the DFA state survives *)
Definition reset_fragment (r : reader) : reader :=
  mkR (r_src r) (r_state r) (r_skip r) (r_check_utf8 r) (r_max r) (r_ext r) (r_compressed r) (r_cb r)
      (r_opcode r) false 0 (r_masked r) (r_key r) (r_cpos r) false (r_u8state r) (r_u8acc r) (r_log r).

(* ------------------------------------------------------------------ layers *)
(* limitedReader.Read with len p = k > 0: like io.LimitedReader, but the end of
   the source before N bytes were read is io.ErrUnexpectedEOF *)
Definition cut_err (e : option rerr) : option rerr :=
  match e with Some EEOF => Some EUnexpected | e => e end.
Definition raw_read (k : N) (r : reader) : (list byte * option rerr) * reader :=
  if r_rawN r =? 0 then (([], Some EEOF), r)
  else
    let '((b, e), s') := read1 (N.min k (r_rawN r)) (r_src r) in
    ((b, cut_err e), mkR s' (r_state r) (r_skip r) (r_check_utf8 r) (r_max r) (r_ext r) (r_compressed r) (r_cb r)
                 (r_opcode r) (r_frame r) (r_rawN r - len b) (r_masked r) (r_key r) (r_cpos r)
                 (r_u8wrap r) (r_u8state r) (r_u8acc r) (r_log r)).

(* io.Copy(ioutil.Discard, &r.raw): consumes min(N, available); a source that ends
   early is io.ErrUnexpectedEOF (limitedReader) *)
Definition raw_drain (r : reader) : option rerr * reader :=
  let '((b, e), s') := read_full (r_rawN r) (r_src r) in
  let r' := mkR s' (r_state r) (r_skip r) (r_check_utf8 r) (r_max r) (r_ext r) (r_compressed r) (r_cb r)
                (r_opcode r) (r_frame r) (r_rawN r - len b) (r_masked r) (r_key r) (r_cpos r)
                (r_u8wrap r) (r_u8state r) (r_u8acc r) (r_log r) in
  match e with
  | Some EFail => (Some EFail, r')
  | Some _ => (Some EUnexpected, r')
  | None => (None, r')
  end.

(* frame.Read(p), len p = k: raw -> [cipher] -> [utf8]; returns the n bytes
   reported to the caller *)
Definition frame_read (k : N) (r : reader) : (list byte * option rerror) * reader :=
  let '((b, e), r1) := raw_read k r in
  let b1 := if r_masked r1 then cipher b (r_key r1) (r_cpos r1) else b in
  let cpos' := if r_masked r1 then r_cpos r1 + len b else r_cpos r1 in
  if r_u8wrap r1 then
    let '(st, acc, rej) := u8_scan (r_u8state r1) 0 0 b1 in
    if rej then
      ((take acc b1, Some RInvalidUtf8),
       mkR (r_src r1) (r_state r1) (r_skip r1) (r_check_utf8 r1) (r_max r1) (r_ext r1) (r_compressed r1) (r_cb r1)
           (r_opcode r1) (r_frame r1) (r_rawN r1) (r_masked r1) (r_key r1) cpos'
           (r_u8wrap r1) st (r_u8acc r1) (r_log r1))
    else
      ((b1, option_map RIo e),
       mkR (r_src r1) (r_state r1) (r_skip r1) (r_check_utf8 r1) (r_max r1) (r_ext r1) (r_compressed r1) (r_cb r1)
           (r_opcode r1) (r_frame r1) (r_rawN r1) (r_masked r1) (r_key r1) cpos'
           (r_u8wrap r1) st acc (r_log r1))
  else
    ((b1, option_map RIo e),
     mkR (r_src r1) (r_state r1) (r_skip r1) (r_check_utf8 r1) (r_max r1) (r_ext r1) (r_compressed r1) (r_cb r1)
         (r_opcode r1) (r_frame r1) (r_rawN r1) (r_masked r1) (r_key r1) cpos'
         (r_u8wrap r1) (r_u8state r1) (r_u8acc r1) (r_log r1)).

(* wsflate.MessageState.UnsetBits *)
Definition unset_bits (h : header) (compressed : bool) : option (header * bool) :=
  let r1 := negb (N.land (h_rsv h) 4 =? 0) in
  if op_is_data (h_op h) && negb (h_op h =? 0) then
    Some (mkHeader (h_fin h) (N.land (h_rsv h) 3) (h_op h) (h_masked h) (h_mask h) (h_len h), r1)
  else if r1 then None
  else Some (h, compressed).

(* OnIntermediate = "read everything from the frame reader and record it"
   (what helper.go:ReadMessage installs): ioutil.ReadAll over cipher(raw).
   The chunk-wise running-offset cipher equals the one-shot cipher (C02). *)
Definition cb_read_all (h : header) (masked : bool) (key : list byte) (r : reader) : option rerror * reader :=
  let '((b, e), s') := read_full (r_rawN r) (r_src r) in
  let data := if masked then cipher b key 0 else b in
  let mk log := mkR s' (r_state r) (r_skip r) (r_check_utf8 r) (r_max r) (r_ext r) (r_compressed r) (r_cb r)
                (r_opcode r) (r_frame r) (r_rawN r - len b) (r_masked r) (r_key r) (r_cpos r)
                (r_u8wrap r) (r_u8state r) (r_u8acc r) log in
  match e with
  | Some EFail => (Some (RIo EFail), mk (r_log r))
  | Some _ => (Some (RIo EUnexpected), mk (r_log r))
  | None => (None, mk (r_log r ++ [mkEv (h_op h) data true (r_compressed r)]))
  end.

Definition zero_header : header := mkHeader false 0 0 false zero_mask 0.
Definition set_fragmented (s : N) (b : bool) : N := if b then N.lor s 8 else N.land s 247.

(* ------------------------------------------------------------------ NextFrame *)
Definition next_frame (r : reader) : (header * option rerror) * reader :=
  let '(hr, s1) := reader_read_header (r_src r) in
  let r1 := set_src r s1 in
  match hr with
  | inl e =>
    let e' := match e with
              | HIo EEOF => if st_fragmented (r_state r) then RIo EUnexpected else RIo EEOF
              | HIo x => RIo x
              | HMsb => RMsb
              | HLenUnexpected => RLenUnexpected
              end in
    ((zero_header, Some e'), r1)
  | inr hdr =>
    match (if r_skip r then None else check_header hdr (r_state r)) with
    | Some rl => ((hdr, Some (RProtocol rl)), r1)
    | None =>
      if (0 <? r_max r)%Z && (r_max r <? h_len hdr)%Z then ((hdr, Some RTooLarge), r1)
      else
        (* r.raw = LimitedReader{Source, Length}; cipher reader reset when masked *)
        let key' := if h_masked hdr then h_mask hdr else r_key r1 in
        let cpos' := if h_masked hdr then 0 else r_cpos r1 in
        let mk2 comp opc frm wrap st log :=
          mkR s1 st (r_skip r) (r_check_utf8 r) (r_max r) (r_ext r) comp (r_cb r)
              opc frm (Z.to_N (h_len hdr)) (h_masked hdr) key' cpos' wrap (r_u8state r) (r_u8acc r) log in
        match (if r_ext r then unset_bits hdr (r_compressed r) else Some (hdr, r_compressed r)) with
        | None => ((hdr, Some RCompressionBit),
                   mk2 (r_compressed r) (r_opcode r) (r_frame r) (r_u8wrap r) (r_state r) (r_log r))
        | Some (hdr', comp') =>
          let frag := st_fragmented (r_state r) in
          if frag && op_is_control (h_op hdr') then
            (* intermediate control frame: callback, then drain; r.frame, opCode, State untouched *)
            let r3 := mk2 comp' (r_opcode r) (r_frame r) (r_u8wrap r) (r_state r) (r_log r) in
            let '(e, r4) := match r_cb r with
                            | CbNone => (None, r3)
                            | CbReadAll => cb_read_all hdr' (h_masked hdr) key' r3
                            end in
            match e with
            | Some e => ((hdr', Some e), r4)
            | None => let '(e2, r5) := raw_drain r4 in ((hdr', option_map RIo e2), r5)
            end
          else
            let opc := if frag then r_opcode r else h_op hdr' in
            let wrap := r_check_utf8 r && ((h_op hdr' =? 1) || (frag && (opc =? 1))) in
            ((hdr', None),
             mk2 comp' opc true wrap (set_fragmented (r_state r) (negb (h_fin hdr'))) (r_log r))
        end
    end
  end.

(* ------------------------------------------------------------------ Read *)
Definition reader_read (k : N) (r : reader) : (list byte * option rerror) * reader :=
  let go (r1 : reader) :=
    let '((data, e), r2) := frame_read k r1 in
    let at_eof :=
      if negb (r_rawN r2 =? 0) then ((data, Some (RIo EUnexpected)), r2)
      else if st_fragmented (r_state r2) then ((data, None), reset_fragment r2)
      else if r_check_utf8 r2 && negb (r_u8state r2 =? utf8_accept) then
        ((take (r_u8acc r2) data, Some RInvalidUtf8), r2)
      else ((data, Some (RIo EEOF)), reset r2) in
    match e with
    | Some (RIo EEOF) => at_eof
    | Some e => ((data, Some e), r2)
    | None => if negb (r_rawN r2 =? 0) then ((data, None), r2) else at_eof
    end in
  if r_frame r then go r
  else if negb (st_fragmented (r_state r)) then (([], Some RNoFrameAdvance), r)
  else
    let '((_, e), r1) := next_frame r in
    match e with
    | Some e => (([], Some e), r1)
    | None => if r_frame r1 then go r1 else (([], None), r1)
    end.

(* ------------------------------------------------------------------ Discard *)
Fixpoint discard (fuel : nat) (r : reader) : option rerror * reader :=
  match fuel with
  | O => (Some ROutOfFuel, r)
  | S f =>
    let '(e, r1) := raw_drain r in
    match e with
    | Some e => (Some (RIo e), reset r1)
    | None =>
      if negb (st_fragmented (r_state r1)) then (None, reset r1)
      else
        let '((_, e2), r2) := next_frame r1 in
        match e2 with
        | Some e2 => (Some e2, reset r2)
        | None => discard f r2
        end
    end
  end.

(* ------------------------------------------------------------------ drivers *)
Definition next_buf (bufs all : list N) : N * list N :=
  let '(k, bufs') := match bufs with
                     | [] => match all with [] => (1, []) | k :: r => (k, r) end
                     | k :: r => (k, r)
                     end in
  (if k =? 0 then 1 else k, bufs').

(* read the current message to io.EOF with caller buffers [bufs] (round-robin).
   [racc] holds the slices returned so far, newest first (linear-time accumulation);
   the bytes delivered are concat (rev_append racc []). *)
Fixpoint read_to_eof (fuel : nat) (bufs all : list N) (r : reader) (racc : list (list byte))
  : (list byte * rerror) * reader :=
  match fuel with
  | O => ((concat (rev_append racc []), ROutOfFuel), r)
  | S f =>
    let '(k, bufs') := next_buf bufs all in
    let '((d, e), r1) := reader_read k r in
    match e with
    | Some e => ((concat (rev_append (d :: racc) []), e), r1)
    | None => read_to_eof f bufs' all r1 (d :: racc)
    end
  end.

Record drive_result := mkDR { dr_events : list event; dr_partial : list byte; dr_err : rerror }.

(* the canonical use of Reader: NextFrame, read to EOF, repeat. Events = what
   OnIntermediate logged and the completed messages, in order. *)
Fixpoint drive (fuel : nat) (bufs : list N) (r : reader) : drive_result :=
  match fuel with
  | O => mkDR (r_log r) [] ROutOfFuel
  | S f =>
    let '((h, e), r1) := next_frame r in
    match e with
    | Some e => mkDR (r_log r1) [] e
    | None =>
      let '((p, e2), r2) := read_to_eof fuel bufs bufs r1 [] in
      match e2 with
      | RIo EEOF =>
        let r3 := mkR (r_src r2) (r_state r2) (r_skip r2) (r_check_utf8 r2) (r_max r2) (r_ext r2)
                      (r_compressed r2) (r_cb r2) (r_opcode r2) (r_frame r2) (r_rawN r2) (r_masked r2)
                      (r_key r2) (r_cpos r2) (r_u8wrap r2) (r_u8state r2) (r_u8acc r2)
                      (r_log r2 ++ [mkEv (h_op h) p false (r_compressed r2)]) in
        drive f bufs r3
      | e2 => mkDR (r_log r2) p e2
      end
    end
  end.

(* like [drive], but per message the caller reads it (ARead), discards it at once
   (ADiscard) or reads one buffer and then discards the rest (APartial) *)
Inductive ract := ARead | ADiscard | APartial.
Definition next_act (pat all : list ract) : ract * list ract :=
  match pat with
  | a :: r => (a, r)
  | [] => match all with a :: r => (a, r) | [] => (ARead, []) end
  end.
Definition log_event (r : reader) (ev : event) : reader :=
  mkR (r_src r) (r_state r) (r_skip r) (r_check_utf8 r) (r_max r) (r_ext r)
      (r_compressed r) (r_cb r) (r_opcode r) (r_frame r) (r_rawN r) (r_masked r)
      (r_key r) (r_cpos r) (r_u8wrap r) (r_u8state r) (r_u8acc r) (r_log r ++ [ev]).
Fixpoint drive_pat (fuel : nat) (bufs : list N) (pat all : list ract) (r : reader) : drive_result :=
  match fuel with
  | O => mkDR (r_log r) [] ROutOfFuel
  | S f =>
    let '((h, e), r1) := next_frame r in
    match e with
    | Some e => mkDR (r_log r1) [] e
    | None =>
      let '(a, pat') := next_act pat all in
      match a with
      | ARead =>
        let '((p, e2), r2) := read_to_eof fuel bufs bufs r1 [] in
        match e2 with
        | RIo EEOF => drive_pat f bufs pat' all (log_event r2 (mkEv (h_op h) p false (r_compressed r2)))
        | e2 => mkDR (r_log r2) p e2
        end
      | ADiscard =>
        let '(e2, r2) := discard (S (length (flat (r_src r1)))) r1 in
        match e2 with
        | Some e2 => mkDR (r_log r2) [] e2
        | None => drive_pat f bufs pat' all r2
        end
      | APartial =>
        let '(k, _) := next_buf bufs bufs in
        let '((d, e2), r2) := reader_read k r1 in
        match e2 with
        | Some (RIo EEOF) => drive_pat f bufs pat' all (log_event r2 (mkEv (h_op h) d false (r_compressed r2)))
        | Some e2 => mkDR (r_log r2) d e2
        | None =>
          let '(e3, r3) := discard (S (length (flat (r_src r2)))) r2 in
          match e3 with
          | Some e3 => mkDR (r_log r3) [] e3
          | None => drive_pat f bufs pat' all r3
          end
        end
      end
    end
  end.

(* helper.go:ReadMessage — one call. The reader is fresh per call in Go
   (CheckUTF8 = true, OnIntermediate = read-all-and-append); only the source
   persists. *)
Fixpoint read_full_rd (fuel : nat) (need got : N) (r : reader) (racc : list (list byte))
  : (list byte * option rerror) * reader :=
  match fuel with
  | O => ((concat (rev_append racc []), Some ROutOfFuel), r)
  | S f =>
    if need =? 0 then ((concat (rev_append racc []), None), r)
    else
      let '((d, e), r1) := reader_read need r in
      match e with
      | Some e => if need <=? len d then ((concat (rev_append (d :: racc) []), None), r1)
                  else ((concat (rev_append (d :: racc) []),
                         Some (match e with
                               | RIo EEOF => if got + len d =? 0 then RIo EEOF else RIo EUnexpected
                               | e => e end)), r1)
      | None => read_full_rd f (need - len d) (got + len d) r1 (d :: racc)
      end
  end.

Definition read_message (fuel : nat) (bufs : list N) (s : src) (state : N)
  : (list event * option rerror) * src :=
  let r := new_reader s state false true 0 false CbReadAll in
  let '((h, e), r1) := next_frame r in
  match e with
  | Some e => ((r_log r1, Some e), r_src r1)
  | None =>
    (* bytes.Buffer.ReadFrom(&rd): reads of any size until the Reader reports io.EOF
       (the announced length is only a bounded pre-allocation hint) *)
    let '((p, e2), r2) := read_to_eof fuel bufs bufs r1 [] in
    match e2 with
    | RIo EEOF => ((r_log r2 ++ [mkEv (h_op h) p false false], None), r_src r2)
    | e2 => ((r_log r2, Some e2), r_src r2)
    end
  end.

(* repeated ReadMessage until an error *)
Fixpoint read_messages (fuel : nat) (bufs : list N) (s : src) (state : N) (acc : list event)
  : list event * rerror :=
  match fuel with
  | O => (acc, ROutOfFuel)
  | S f =>
    let '((evs, e), s') := read_message fuel bufs s state in
    match e with
    | Some e => (acc ++ evs, e)
    | None => read_messages f bufs s' state (acc ++ evs)
    end
  end.

(* ------------------------------------------------------------------ scripts *)
(* arbitrary operation sequences on one Reader (model-vs-code comparison) *)
Inductive rop := OpNext | OpRead (k : N) | OpDiscard.
Inductive rout :=
  | OutNext (h : header) (e : option rerror)
  | OutRead (d : list byte) (e : option rerror)
  | OutDiscard (e : option rerror).
Fixpoint run_script (ops : list rop) (r : reader) : list rout * reader :=
  match ops with
  | [] => ([], r)
  | op :: rest =>
    let '(o, r1) :=
      match op with
      | OpNext => let '((h, e), r1) := next_frame r in (OutNext h e, r1)
      | OpRead k => let '((d, e), r1) := reader_read (if k =? 0 then 1 else k) r in (OutRead d e, r1)
      | OpDiscard => let '(e, r1) := discard (S (length (flat (r_src r)))) r in (OutDiscard e, r1)
      end in
    let '(os, r2) := run_script rest r1 in (o :: os, r2)
  end.

(* ------------------------------------------------------------------ SPEC *)
(* a frame as the peer means it: unmasked payload, optional key *)
Record sframe := mkSF { sf_fin : bool; sf_rsv : N; sf_op : N; sf_key : option (list byte); sf_payload : list byte }.

Definition sf_header (f : sframe) : header :=
  mkHeader (sf_fin f) (sf_rsv f) (sf_op f)
           (match sf_key f with Some _ => true | None => false end)
           (match sf_key f with Some k => k | None => zero_mask end)
           (Z.of_N (len (sf_payload f))).
Definition sf_wire (f : sframe) : list byte :=
  rfc_header (sf_header f) ++
  match sf_key f with Some k => mask_spec (sf_payload f) k 0 | None => sf_payload f end.
Definition wire (fs : list sframe) : list byte := concat (map sf_wire fs).

Record rcfg := mkCfg { c_state : N; c_check_utf8 : bool; c_max : Z; c_ext : bool }.

Inductive outcome :=
  | OClean                     (* every frame consumed, no message open: io.EOF *)
  | OCutMidMessage             (* frames end while a message is open: unexpected EOF *)
  | OProtocol (k : nat)        (* frame k breaks a header rule *)
  | OTooLarge (k : nat)
  | OBadCompression (k : nat)  (* RSV1 on a continuation/control frame with the extension *)
  | OInvalidUtf8.              (* a text message that is not valid UTF-8 *)

(* the owned rules, judged by the independent rule set of C03 *)
Definition frame_ok (c : rcfg) (fragmented : bool) (f : sframe) : bool :=
  match broken (sf_header f) (set_fragmented (c_state c) fragmented) with [] => true | _ => false end.

(* a text prefix that can still be completed to valid UTF-8 (Table 3-7): some
   completion of at most three continuation bytes exists *)
Definition utf8_completions : list (list byte) :=
  [[]; [128]; [128; 128]; [160; 128]; [144; 128; 128]; [128; 128; 128]].
Definition utf8_viable (l : list byte) : bool :=
  existsb (fun ext => valid_utf8 (l ++ ext)) utf8_completions.

Record spec_result := mkSR { sr_events : list event; sr_partial : list byte; sr_out : outcome }.

(* [openm] = the data message being assembled: (opcode, payload so far, compressed) *)
Fixpoint spec_run (c : rcfg) (k : nat) (openm : option (N * list byte * bool)) (evs : list event) (fs : list sframe)
  : spec_result :=
  let partial := match openm with Some (_, p, _) => p | None => [] end in
  match fs with
  | [] => mkSR evs partial (match openm with None => OClean | Some _ => OCutMidMessage end)
  | f :: rest =>
    let frag := match openm with Some _ => true | None => false end in
    if negb (frame_ok c frag f) then mkSR evs partial (OProtocol k)
    else if (0 <? c_max c)%Z && (c_max c <? Z.of_N (len (sf_payload f)))%Z then mkSR evs partial (OTooLarge k)
    else
      let rsv1 := negb (N.land (sf_rsv f) 4 =? 0) in
      let is_first_data := negb (spec_control (sf_op f)) && negb (sf_op f =? 0) in
      if c_ext c && rsv1 && negb is_first_data then mkSR evs partial (OBadCompression k)
      else if spec_control (sf_op f) then
        let comp := match openm with Some (_, _, cm) => cm | None => false end in
        (* a control frame outside a message is itself delivered like a message *)
        spec_run c (S k) openm (evs ++ [mkEv (sf_op f) (sf_payload f) frag (if frag then comp else false)]) rest
      else
        let '(op0, acc, comp) :=
          match openm with
          | Some (o, p, cm) => (o, p ++ sf_payload f, cm)
          | None => (sf_op f, sf_payload f, c_ext c && rsv1)
          end in
        if c_check_utf8 c && (op0 =? 1) && negb (if sf_fin f then valid_utf8 acc else utf8_viable acc)
        then mkSR evs [] OInvalidUtf8
        else if sf_fin f then spec_run c (S k) None (evs ++ [mkEv op0 acc false comp]) rest
        else spec_run c (S k) (Some (op0, acc, comp)) evs rest
  end.

Definition ev_eqb (a b : event) : bool :=
  (ev_op a =? ev_op b) && bytes_eqb (ev_payload a) (ev_payload b) && Bool.eqb (ev_inter a) (ev_inter b)
  && Bool.eqb (ev_comp a) (ev_comp b).
Fixpoint evs_eqb (a b : list event) : bool :=
  match a, b with
  | [], [] => true
  | x :: a', y :: b' => ev_eqb x y && evs_eqb a' b'
  | _, _ => false
  end.

Fixpoint is_prefix (a b : list byte) : bool :=
  match a, b with
  | [], _ => true
  | x :: a', y :: b' => (x =? y) && is_prefix a' b'
  | _, _ => false
  end.

(* does the observed final error belong to the outcome's class? *)
Definition err_matches (o : outcome) (e : rerror) : bool :=
  match o, e with
  | OClean, RIo EEOF => true
  | OCutMidMessage, RIo EUnexpected => true
  | OProtocol _, RProtocol _ => true
  | OTooLarge _, RTooLarge => true
  | OBadCompression _, RCompressionBit => true
  | OInvalidUtf8, RInvalidUtf8 => true
  | _, _ => false
  end.

(* MONITOR (C04/C05/C07/C13): events exactly the spec's; bytes handed out for
   the unfinished message are the open message's fragments before the offending
   frame (any prefix of the message when UTF-8 checking stops it early).
   [logs_inter] = an OnIntermediate callback that records is installed. *)
(* spec event vs observed event: the compressed flag of a control frame received
   OUTSIDE a data message is left open (the property speaks of the current data
   message only) *)
Definition ev_matches (spec obs : event) : bool :=
  (ev_op spec =? ev_op obs) && bytes_eqb (ev_payload spec) (ev_payload obs)
  && Bool.eqb (ev_inter spec) (ev_inter obs)
  && (Bool.eqb (ev_comp spec) (ev_comp obs) || (spec_control (ev_op spec) && negb (ev_inter spec))).
Fixpoint evs_match (spec obs : list event) : bool :=
  match spec, obs with
  | [], [] => true
  | x :: a', y :: b' => ev_matches x y && evs_match a' b'
  | _, _ => false
  end.
Definition expected_events (logs_inter : bool) (evs : list event) : list event :=
  if logs_inter then evs else filter (fun e => negb (ev_inter e)) evs.
Definition reader_monitor (c : rcfg) (logs_inter : bool) (fs : list sframe)
           (evs : list event) (partial : option (list byte)) (e : rerror) : bool :=
  let s := spec_run c 0 None [] fs in
  evs_match (expected_events logs_inter (sr_events s)) evs && err_matches (sr_out s) e &&
  match sr_out s, partial with
  | OInvalidUtf8, _ => true
  | _, Some p => bytes_eqb p (sr_partial s)
  | _, None => true
  end.

(* MONITOR (C16, read side): the stream is cut after [cut] bytes of [wire fs]
   (EOF or a transport error). Frames wholly before the cut are delivered as
   usual; nothing of the cut frame is reported as a complete message or handed
   to the control callback; the final error is not a clean io.EOF, except when
   the cut falls on a frame boundary — or inside a header — outside a message. *)
Fixpoint frames_before (cut : N) (fs : list sframe) : list sframe * N :=
  match fs with
  | [] => ([], cut)
  | f :: r =>
    let w := len (sf_wire f) in
    if w <=? cut then let '(d, c') := frames_before (cut - w) r in (f :: d, c') else ([], cut)
  end.
Definition cut_monitor (c : rcfg) (logs_inter : bool) (fs : list sframe) (cut : N) (tail_fail : bool)
           (evs : list event) (e : rerror) : bool :=
  let '(done, rest) := frames_before cut fs in
  let s := spec_run c 0 None [] done in
  let clean := match e with RIo EEOF => true | _ => false end in
  let open := match sr_out s with OCutMidMessage => true | _ => false end in
  match sr_out s with
  | OClean | OCutMidMessage =>
    evs_match (expected_events logs_inter (sr_events s)) evs &&
    (if tail_fail then negb clean
     else if rest =? 0 then (if open then negb clean else clean)
     else
       let hdr_len := match nth_error fs (length done) with
                      | Some f => len (rfc_header (sf_header f)) | None => 0 end in
       if open then negb clean
       else if rest <? hdr_len then true     (* cut inside a header outside a message: EOF class left open *)
       else negb clean)
  | _ => reader_monitor c logs_inter done evs None e
  end.

(* MONITOR (C07, standalone reader): reported complete-and-valid iff valid *)
Definition u8_monitor (p : list byte) (eof : bool) (valid : bool) : bool :=
  Bool.eqb (eof && valid) (valid_utf8 p).
