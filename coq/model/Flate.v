(* Flate.v — transcription of wsflate/cbuf.go (cbuf, suffixedReader), writer.go (Writer
   over an abstract Compressor), reader.go (Reader over an abstract Decompressor) and
   helper.go (frame helpers), plus the monitors of C12.  Definitions only.

   The DEFLATE engine is not modelled: what a Compressor writes downstream during each
   call is an input of the model (an "emission", observed by the harness, universally
   quantified in the theorems); a Decompressor is a function of the byte stream it reads. *)
Require Import Bytes Check Inflate.
Open Scope N_scope.

Definition compression_tail : list byte := [0; 0; 255; 255].
Definition compression_read_tail : list byte := [0; 0; 255; 255; 1; 0; 0; 255; 255].

(* ---------- destination io.Writer: log of Write calls; may start failing ---------- *)
Record dst := mkDst { d_log : list (list byte); d_left : option nat }.
Definition dst_new (left : option nat) : dst := mkDst [] left.
Definition dst_write (d : dst) (p : list byte) : dst * bool :=
  match d_left d with
  | Some O => (d, true)
  | Some (S k) => (mkDst (d_log d ++ [p]) (Some k), false)
  | None => (mkDst (d_log d ++ [p]) None, false)
  end.
Definition d_flat (d : dst) : list byte := concat (d_log d).

(* ---------- cbuf ---------- *)
Record cbuf := mkCbuf { cb_buf : list byte; cb_n : nat; cb_dst : dst; cb_err : bool }.
(* reset *)
Definition cbuf_reset (d : dst) : cbuf := mkCbuf [0; 0; 0; 0] 0 d false.
(* flush *)
Definition cb_flush (c : cbuf) (p : list byte) : cbuf :=
  if cb_err c then c
  else let (d, e) := dst_write (cb_dst c) p in mkCbuf (cb_buf c) (cb_n c) d e.
(* split: head = all but the last 4 bytes *)
Definition cb_split (p : list byte) : list byte * list byte :=
  if (4 <? length p)%nat then (firstn (length p - 4) p, skipn (length p - 4) p) else ([], p).
(* copy(dst[off:], src) *)
Definition copy_into (d : list byte) (off : nat) (src : list byte) : list byte :=
  firstn off d ++ firstn (length d - off) src ++ skipn (off + length src) d.
(* Write: returns (len(p), c.err) *)
Definition cbuf_write (c : cbuf) (p : list byte) : cbuf * (nat * bool) :=
  if cb_err c then (c, (O, true))
  else
    let (head, tail) := cb_split p in
    let n := (cb_n c + length tail)%nat in
    let c1 :=
      if (4 <? n)%nat then
        let x := (n - 4)%nat in
        let cf := cb_flush c (firstn x (cb_buf c)) in
        mkCbuf (copy_into (cb_buf cf) 0 (skipn x (cb_buf cf))) (cb_n cf - x) (cb_dst cf) (cb_err cf)
      else c in
    let c2 := if (0 <? length head)%nat then cb_flush c1 head else c1 in
    let c3 := mkCbuf (copy_into (cb_buf c2) (cb_n c2) tail) (Nat.min (cb_n c2 + length tail) 4)
                (cb_dst c2) (cb_err c2) in
    (c3, (length p, cb_err c3)).

Fixpoint cbuf_writes (c : cbuf) (ws : list (list byte)) : cbuf :=
  match ws with
  | [] => c
  | p :: r => cbuf_writes (fst (cbuf_write c p)) r
  end.

(* ---------- Writer over an abstract compressor ---------- *)
Inductive werr := WNone | WComp | WTail.
Definition werr_eqb (a b : werr) : bool :=
  match a, b with WNone, WNone | WComp, WComp | WTail, WTail => true | _, _ => false end.

(* what the compressor did during one call: chunks written to the cbuf, bytes accepted
   (Write only), whether it returned an error *)
Record emission := mkEm { em_chunks : list (list byte); em_n : nat; em_err : bool }.
Inductive wop := WWrite (p : list byte) (e : emission) | WFlush (e : emission) | WClose (e : emission).

Record fwriter := mkFw { fw_cbuf : cbuf; fw_err : werr }.
Definition fw_new (d : dst) : fwriter := mkFw (cbuf_reset d) WNone.

(* checkTail *)
Definition check_tail (w : fwriter) : fwriter :=
  match fw_err w with
  | WNone => if bytes_eqb (cb_buf (fw_cbuf w)) compression_tail then w else mkFw (fw_cbuf w) WTail
  | _ => w
  end.
Definition fw_emit (w : fwriter) (e : emission) : fwriter :=
  mkFw (cbuf_writes (fw_cbuf w) (em_chunks e)) (if em_err e then WComp else WNone).

(* one operation: new state, bytes reported (Write), error returned *)
Definition fw_step (w : fwriter) (o : wop) : fwriter * (nat * werr) :=
  match fw_err w with
  | WNone =>
      match o with
      | WWrite p e => let w' := fw_emit w e in (w', (em_n e, fw_err w'))
      | WFlush e => let w' := check_tail (fw_emit w e) in (w', (O, fw_err w'))
      | WClose e => let w' := check_tail (fw_emit w e) in (w', (O, fw_err w'))
      end
  | err => (w, (O, err))
  end.
Fixpoint fw_run (w : fwriter) (ops : list wop) : fwriter * list (nat * werr) :=
  match ops with
  | [] => (w, [])
  | o :: r =>
      let (w1, x) := fw_step w o in
      let (w2, xs) := fw_run w1 r in
      (w2, x :: xs)
  end.
(* everything the compressor wrote downstream during the operations that reached it *)
Fixpoint raw_output (w : fwriter) (ops : list wop) : list byte :=
  match ops with
  | [] => []
  | o :: r =>
      match fw_err w with
      | WNone =>
          let e := match o with WWrite _ e | WFlush e | WClose e => e end in
          concat (em_chunks e) ++ raw_output (fst (fw_step w o)) r
      | _ => []
      end
  end.
Definition is_sync (o : wop) : bool := match o with WWrite _ _ => false | _ => true end.
Definition em_of (o : wop) : emission := match o with WWrite _ e | WFlush e | WClose e => e end.
(* the last operation of a history was a Flush or Close *)
Definition last_is_sync (ops : list wop) : bool :=
  match rev ops with o :: _ => is_sync o | [] => false end.

(* ---------- sources (io.Reader, optionally io.ByteReader) ---------- *)
Inductive rstatus := RNil | REOF | RErr.
Definition rstatus_eqb (a b : rstatus) : bool :=
  match a, b with RNil, RNil | REOF, REOF | RErr, RErr => true | _, _ => false end.
(* how the source ends: (0, EOF) after the data / EOF together with the last chunk / an error *)
Inductive send := EndEOF | EndEOFWithLast | EndFail.
Record source := mkSrc { s_chunks : list (list byte); s_end : send }.
Definition end_status (e : send) : rstatus := match e with EndFail => RErr | _ => REOF end.

(* Read(p) with len(p) = k: at most k bytes of the head chunk *)
Definition src_read (s : source) (k : nat) : source * (list byte * rstatus) :=
  match s_chunks s with
  | [] => (s, ([], end_status (s_end s)))
  | c :: r =>
      if (length c <=? k)%nat then
        (mkSrc r (s_end s),
         (c, match r, s_end s with [], EndEOFWithLast => REOF | _, _ => RNil end))
      else (mkSrc (skipn k c :: r) (s_end s), (firstn k c, RNil))
  end.
(* ReadByte: never a byte together with an error *)
Fixpoint chunks_readbyte (cs : list (list byte)) : option (byte * list (list byte)) :=
  match cs with
  | [] => None
  | [] :: r => chunks_readbyte r
  | (b :: c) :: r => Some (b, match c with [] => r | _ => c :: r end)
  end.
Definition src_readbyte (s : source) : source * (byte * rstatus) :=
  match chunks_readbyte (s_chunks s) with
  | Some (b, r) => (mkSrc r (s_end s), (b, RNil))
  | None => (mkSrc [] (s_end s), (0, end_status (s_end s)))
  end.

(* ---------- suffixedReader ---------- *)
Record sreader := mkSr { sr_src : option source; sr_pos : nat }.
Definition sr_new (s : source) : sreader := mkSr (Some s) 0.

Definition sr_suffix_read (st : sreader) (k : nat) : sreader * (list byte * rstatus) :=
  if (length compression_read_tail <=? sr_pos st)%nat then (st, ([], REOF))
  else
    let out := firstn k (skipn (sr_pos st) compression_read_tail) in
    (mkSr None (sr_pos st + length out), (out, RNil)).

(* Read *)
Definition sr_read (st : sreader) (k : nat) : sreader * (list byte * rstatus) :=
  match sr_src st with
  | Some s =>
      let '(s', (data, status)) := src_read s k in
      match status with
      | REOF => (mkSr None (sr_pos st), (data, RNil))
      | _ => (mkSr (Some s') (sr_pos st), (data, status))
      end
  | None => sr_suffix_read st k
  end.

(* ReadByte: the byte, or nothing with a status *)
Definition sr_suffix_readbyte (st : sreader) : sreader * (option byte * rstatus) :=
  match nth_error compression_read_tail (sr_pos st) with
  | Some b => (mkSr None (S (sr_pos st)), (Some b, RNil))
  | None => (st, (None, REOF))
  end.
Definition sr_readbyte (st : sreader) : sreader * (option byte * rstatus) :=
  match sr_src st with
  | Some s =>
      let '(s', (b, status)) := src_readbyte s in
      match status with
      | RNil => (mkSr (Some s') (sr_pos st), (Some b, RNil))
      | REOF => sr_suffix_readbyte (mkSr None (sr_pos st))
      | RErr => (mkSr (Some s') (sr_pos st), (None, RErr))
      end
  | None => sr_suffix_readbyte st
  end.

Inductive req := RqRead (k : nat) | RqByte.
Definition sr_step (st : sreader) (q : req) : sreader * (list byte * rstatus) :=
  match q with
  | RqRead k => sr_read st k
  | RqByte =>
      let '(st', (b, status)) := sr_readbyte st in
      (st', (match b with Some x => [x] | None => [] end, status))
  end.
Fixpoint sr_run (st : sreader) (qs : list req) : list (list byte * rstatus) :=
  match qs with
  | [] => []
  | q :: r => let (st', x) := sr_step st q in x :: sr_run st' r
  end.

(* what is still to be delivered *)
Definition src_rest (s : source) : list byte := concat (s_chunks s).
Definition sr_rest (st : sreader) : list byte :=
  match sr_src st with
  | Some s => src_rest s ++ skipn (sr_pos st) compression_read_tail
  | None => skipn (sr_pos st) compression_read_tail
  end.

(* ---------- Reader over an abstract decompressor ---------- *)
(* a consumer that reads k bytes at a time until EOF (io.Copy, ioutil.ReadAll); the
   decompressor is a function of what it has read *)
Fixpoint sr_drain (fuel : nat) (st : sreader) (k : nat) (acc : list byte) : option (list byte) :=
  match fuel with
  | O => None
  | S f =>
      let '(st', (data, status)) := sr_read st k in
      match status with
      | REOF => Some (acc ++ data)
      | RErr => None
      | RNil => sr_drain f st' k (acc ++ data)
      end
  end.

(* ---------- frame helpers ---------- *)
Record frame := mkFrame { f_hdr : header; f_payload : list byte }.
Definition rsv1 (rsv : N) : bool := N.testbit rsv 2.
(* ws.Rsv(r1, r2, r3) *)
Definition mk_rsv (r1 r2 r3 : bool) : N :=
  (if r1 then 4 else 0) + (if r2 then 2 else 0) + (if r3 then 1 else 0).
Definition with_rsv (h : header) (rsv : N) : header :=
  mkHeader (h_fin h) rsv (h_op h) (h_masked h) (h_mask h) (h_len h).
Definition with_len (h : header) (l : Z) : header :=
  mkHeader (h_fin h) (h_rsv h) (h_op h) (h_masked h) (h_mask h) l.
Definition first_data_op (op : N) : bool := op_is_data op && negb (op =? 0).

Inductive herr := HFragmented | HBit | HEngine.
(* SetBit: MessageState{compressed: true}.SetBits *)
Definition set_bit (h : header) : header + herr :=
  if rsv1 (h_rsv h) then inr HBit
  else if negb (first_data_op (h_op h)) then inl h
  else inl (with_rsv h (mk_rsv true (N.testbit (h_rsv h) 1) (N.testbit (h_rsv h) 0))).
(* UnsetBit: header, wasSet *)
Definition unset_bit (h : header) : (header * bool) + herr :=
  if first_data_op (h_op h) then
    inl (with_rsv h (mk_rsv false (N.testbit (h_rsv h) 1) (N.testbit (h_rsv h) 0)), rsv1 (h_rsv h))
  else if rsv1 (h_rsv h) then inr HBit
  else inl (h, false).

Section Helpers.
  (* Helper.CompressTo / DecompressTo as functions; None = the engine reported an error *)
  Variable compress_to : list byte -> option (list byte).
  Variable decompress_to : list byte -> option (list byte).

  Definition compress_frame (f : frame) : frame + herr :=
    if negb (h_fin (f_hdr f)) then inr HFragmented
    else
      match compress_to (f_payload f) with
      | None => inr HEngine
      | Some c =>
          match set_bit (with_len (f_hdr f) (Z.of_N (len c))) with
          | inl h => inl (mkFrame h c)
          | inr e => inr e
          end
      end.

  Definition decompress_frame (f : frame) : frame + herr :=
    if negb (h_fin (f_hdr f)) then inr HFragmented
    else
      match unset_bit (f_hdr f) with
      | inr e => inr e
      | inl (h, false) => inl (mkFrame h (f_payload f))
      | inl (h, true) =>
          match decompress_to (f_payload f) with
          | None => inr HEngine
          | Some p => inl (mkFrame (with_len h (Z.of_N (len p))) p)
          end
      end.
End Helpers.

(* ---------- the stored-block compressor of lib/Inflate.v as a Compressor ---------- *)
(* Write emits non-final stored blocks, Flush the empty stored block *)
Definition stored_ops (ws : list (list byte)) : list wop :=
  map (fun p => WWrite p (mkEm [stored_chunks (S (length p)) p] (length p) false)) ws
  ++ [WFlush (mkEm [0 :: sync_tail] O false)].

(* ---------- monitors ---------- *)
Fixpoint ends_with (l suf : list byte) : bool :=
  if bytes_eqb l suf then true
  else match l with [] => false | _ :: r => ends_with r suf end.
Definition lastn (n : nat) (l : list byte) : list byte := skipn (length l - n) l.
Definition butlastn (n : nat) (l : list byte) : list byte := firstn (length l - n) l.

(* cbuf observed through the hook after a sequence of writes *)
Definition c12_cbuf_monitor (ws : list (list byte)) (dst_flat : list byte) (held : list byte) (n : nat) : bool :=
  let s := concat ws in
  let m := Nat.min 4 (length s) in
  bytes_eqb dst_flat (butlastn m s) && (n =? m)%nat
  && bytes_eqb held (lastn m s ++ repeat 0 (4 - m)).

(* Writer observed at an operation that reported success:
   destination ++ tail must be what the compressor produced *)
Definition c12_tail_monitor (dest raw : list byte) : bool :=
  bytes_eqb (dest ++ compression_tail) raw.
(* ... and an independent inflater must get the message back *)
Definition c12_inflate_monitor (dest msg : list byte) : bool :=
  match inflate (dest ++ compression_tail) with
  | Some m => bytes_eqb m msg
  | None => false
  end.

Definition is_nil {A} (l : list A) : bool := match l with [] => true | _ => false end.
(* suffixedReader observed: responses to a request sequence over a source with flat
   content [src]; [fails]: the source ends with an error instead of EOF *)
Fixpoint c12_sr_monitor (rest : list byte) (fails : bool) (outs : list (list byte * rstatus)) : bool :=
  match outs with
  | [] => true
  | (data, status) :: r =>
      bytes_eqb data (firstn (length data) rest)
      && match status with
         | RNil => c12_sr_monitor (skipn (length data) rest) fails r
         | REOF => is_nil rest && is_nil data && negb fails && c12_sr_monitor rest fails r
         | RErr => fails && c12_sr_monitor (skipn (length data) rest) fails r
         end
  end.
