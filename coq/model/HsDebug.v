(* HsDebug.v — wsutil.DebugUpgrader / wsutil.DebugDialer as the un-wrapped handshake plus the
   tee buffers and the splice-back of prefetched bytes (wsutil/upgrader.go, wsutil/dialer.go
   after fixes F16/F17).  net/http's ReadRequest / ReadResponse enter through two observed
   numbers: [k], how many transport reads (chunks) the parser's bufio.Reader performed, and
   [n], how many bytes of them form the message (head and body).  Definitions only. *)
Require Import Bytes HsBufio HsHttp HsUpgrader HsDialer.
Open Scope N_scope.

(* the k chunks the HTTP parser read are replayed in front of the rest of the transport
   (io.MultiReader(&buf, conn)) *)
Definition prefetch (k : nat) (r : reader) : list byte * reader :=
  let pre := concat (firstn k (r_chunks r)) in
  (pre, mkReader (r_pending r) (pre :: skipn k (r_chunks r)) (r_tail r)).

Record dbg_ures := mkDbgU { du_on_request : list byte; du_on_response : list byte; du_res : ures }.
Definition debug_upgrader (stext : N -> list byte) (cfg : ucfg) (B : N) (k : nat) (r : reader) : dbg_ures :=
  let (pre, r') := prefetch k r in
  let res := upgrader stext cfg B r' in
  mkDbgU pre (u_out res) res.

Record dbg_dres := mkDbgD {
  dd_on_request : list byte; dd_on_response : list byte;
  dd_hs : handshake; dd_err : option derr;
  dd_leftover : list byte }.     (* returned buffer, then the connection (meaningful on success) *)
Definition debug_dialer (cfg : dcfg) (url_host uri nonce : list byte) (B : N) (k n : nat) (r : reader) : dbg_dres :=
  let (pre, r') := prefetch k r in
  let d := dialer_upgrade cfg url_host uri nonce B r' in
  mkDbgD (d_request d) (firstn n pre) (d_hs d) (d_err d)
         (skipn n pre ++ concat (skipn k (r_chunks r))).
