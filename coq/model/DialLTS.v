(* DialLTS.v — transcription of dialer.go: Dialer.Dial, setupContextDeadliner,
   (the ctx-relevant part of) Dialer.dial, as a labelled transition system whose
   components interleave freely:

     main     the goroutine inside Dial (dial phase, set-up, the handshake's I/O
              operations — any number of them —, Upgrade returned, the deferred
              done(&err) / SetDeadline(noDeadline), the deferred Close, return)
     watcher  the goroutine of setupContextDeadliner (select; SetDeadline(aLongTimeAgo);
              interrupt <- ctx.Err()  /  interrupt <- nil; finished)
     ctx      the caller's context (live / cancelled / expired)
     timer    the deadline derived from Dialer.Timeout (absent / pending / fired)
     dialctx  the context Dial derives (dialctx := ctx, or WithDeadline(ctx, now+Timeout));
              it ends with the error of whichever ends first
     conn     deadline in {none, at_timeout (future), poisoned (past)}, closed
     peer     may complete any blocked I/O with data or with a failure, or stay silent

   The model transcribes the code AFTER fix F12 (the watcher watches dialctx, so the
   Timeout bounds the handshake phase too).  Definitions only; also the property
   monitor (a fold over the visible trace) and the product used by the proofs. *)
From Coq Require Import List Bool PArith NArith.
Require Import LTS.
Import ListNotations.

(* ---------- configuration ---------- *)
Inductive ctxkind :=
  | CtxBg        (* ctx == context.Background(): fast path *)
  | CtxPlain     (* cancellable, no deadline of its own *)
  | CtxDlEarly   (* has a deadline that is NOT after now+Timeout (or Timeout = 0) *)
  | CtxDlLate.   (* has a deadline after now+Timeout *)

Record cfg := mkCfg {
  c_ctx : ctxkind;
  c_tmo : bool;      (* Dialer.Timeout != 0 *)
  c_valid : bool     (* the peer's scripted response is a valid 101 *)
}.

(* Dial: "if t := d.Timeout; t != 0 { deadline = now+t; if d, ok := ctx.Deadline(); !ok ||
   deadline.Before(d) { dialctx, cancel = context.WithDeadline(ctx, deadline) } }" *)
Definition has_timer (c : cfg) : bool :=
  c_tmo c && match c_ctx c with CtxDlEarly => false | _ => true end.
Definition is_bg (c : cfg) : bool := match c_ctx c with CtxBg => true | _ => false end.
Definition cancellable (c : cfg) : bool := negb (is_bg c).
Definition expirable (c : cfg) : bool :=
  match c_ctx c with CtxDlEarly | CtxDlLate => true | _ => false end.

(* ---------- error classes, goroutine tags, deadline kinds ---------- *)
Inductive derr := ENil | ECanceled | EDeadline | EIoTimeout | EOther.
Inductive who := GMain | GOther.
Inductive dlk := DNone | DFuture | DPast.

(* isTimeoutError: net.Error with Timeout() — context.DeadlineExceeded is one too *)
Definition is_timeout (e : derr) : bool :=
  match e with EIoTimeout | EDeadline => true | _ => false end.

(* ---------- labels ---------- *)
Inductive label :=
  (* visible: logged by the scripted NetDial / fake net.Conn / harness *)
  | LDialStart | LDialOk | LDialErr (e : derr)
  | LSetDl (w : who) (k : dlk)
  | LIoStart (w : who) | LIoOk (w : who) | LIoTimeout (w : who) | LIoFail (w : who)
  | LClose (w : who)
  | LCtxCancel            (* the harness calls cancel(): atomic with its log entry *)
  | LSeenExpired          (* marker: ctx.Done() has been observed closed by its deadline *)
  | LSeenTimer            (* marker: the Timeout deadline has been observed passed *)
  | LRet (e : derr)
  (* hidden: internal steps of main / watcher, and real-time events *)
  | HCtxExpire | HTimerFire
  | HSpawn                (* setupContextDeadliner: make channels, go watcher *)
  | HWSelQuit | HWSelCtx  (* watcher's select *)
  | HWSendNil | HWSendCtx
  | HHsFinish             (* Upgrade returns after its last successful I/O *)
  | HCloseQuit            (* done(): close(quit) *)
  | HRecvIntr.            (* done(): <-interrupt and the error mapping *)

Definition visible (l : label) : bool :=
  match l with
  | HCtxExpire | HTimerFire | HSpawn | HWSelQuit | HWSelCtx | HWSendNil | HWSendCtx
  | HHsFinish | HCloseQuit | HRecvIntr => false
  | _ => true
  end.

Definition hidden_labels : list label :=
  [HCtxExpire; HTimerFire; HSpawn; HWSelQuit; HWSelCtx; HWSendNil; HWSendCtx;
   HHsFinish; HCloseQuit; HRecvIntr].

Definition all_derr := [ENil; ECanceled; EDeadline; EIoTimeout; EOther].
Definition all_who := [GMain; GOther].
Definition all_dlk := [DNone; DFuture; DPast].

Definition all_labels : list label :=
  [LDialStart; LDialOk] ++ map LDialErr all_derr ++
  flat_map (fun w => map (LSetDl w) all_dlk) all_who ++
  map LIoStart all_who ++ map LIoOk all_who ++ map LIoTimeout all_who ++ map LIoFail all_who ++
  map LClose all_who ++ [LCtxCancel; LSeenExpired; LSeenTimer] ++ map LRet all_derr ++
  hidden_labels.

(* a step that operates on the net.Conn *)
Definition touches_conn (l : label) : bool :=
  match l with
  | LSetDl _ _ | LIoStart _ | LIoOk _ | LIoTimeout _ | LIoFail _ | LClose _ => true
  | _ => false
  end.

(* steps taken by Dial's own goroutines or by the conn honouring a deadline — not by
   the peer (data / failure), not by the environment (ctx, clock, NetDial, harness) *)
Definition system_labels : list label :=
  flat_map (fun w => map (LSetDl w) all_dlk) all_who ++
  [LIoStart GMain; LIoTimeout GMain; LClose GMain] ++ map LRet all_derr ++
  [HSpawn; HWSelQuit; HWSelCtx; HWSendNil; HWSendCtx; HHsFinish; HCloseQuit; HRecvIntr].

(* ---------- state ---------- *)
Inductive mpc :=
  | MStart | MDialing | MDialed | MIo | MBlocked | MUpRet | MWaitIntr | MDefClose | MRetReady | MRet.
Inductive n3 := Z0 | Z1 | Z2.                 (* completed I/O operations, saturating *)
Inductive wpc := WNone | WSelect | WPoison | WSendCtx | WSendNil | WDone.
Inductive tstate := TAbsent | TPending | TFired.
Inductive cstate := CLive | CCanceled | CExpired.
Inductive ibuf := IEmpty | IFull (e : derr).  (* interrupt = make(chan error, 1) *)
Inductive hsres := HNone | HRes (e : derr).   (* ghost: what Upgrade returned *)

Definition cerr (c : cstate) : derr :=
  match c with CLive => ENil | CCanceled => ECanceled | CExpired => EDeadline end.
Definition ended (c : cstate) : bool := match c with CLive => false | _ => true end.

Record state := mkState {
  s_cfg : cfg;
  s_pc : mpc; s_nio : n3;
  s_err : derr;                (* the named result err *)
  s_w : wpc; s_quit : bool; s_intr : ibuf;
  s_ctx : cstate; s_dctx : cstate; s_timer : tstate;
  s_conn : bool; s_dl : dlk; s_closed : bool;
  (* ghost history, used only to state theorems *)
  s_hs : hsres;                (* Upgrade's own result *)
  s_dctx_at_hs : cstate;       (* dialctx when Upgrade returned *)
  s_wctx : bool                (* the watcher took the ctx branch (conn poisoned) *)
}.

Definition init (c : cfg) : state :=
  mkState c MStart Z0 ENil WNone false IEmpty CLive CLive
          (if has_timer c then TPending else TAbsent) false DNone false HNone CLive false.

Definition returned (s : state) : option derr :=
  match s_pc s with MRet => Some (s_err s) | _ => None end.

Definition is_returned (s : state) : bool := match s_pc s with MRet => true | _ => false end.

Definition inc3 (n : n3) : n3 := match n with Z0 => Z1 | _ => Z2 end.

(* field updates *)
Definition set_pc p s := mkState (s_cfg s) p (s_nio s) (s_err s) (s_w s) (s_quit s) (s_intr s) (s_ctx s) (s_dctx s) (s_timer s) (s_conn s) (s_dl s) (s_closed s) (s_hs s) (s_dctx_at_hs s) (s_wctx s).
Definition set_nio n s := mkState (s_cfg s) (s_pc s) n (s_err s) (s_w s) (s_quit s) (s_intr s) (s_ctx s) (s_dctx s) (s_timer s) (s_conn s) (s_dl s) (s_closed s) (s_hs s) (s_dctx_at_hs s) (s_wctx s).
Definition set_err e s := mkState (s_cfg s) (s_pc s) (s_nio s) e (s_w s) (s_quit s) (s_intr s) (s_ctx s) (s_dctx s) (s_timer s) (s_conn s) (s_dl s) (s_closed s) (s_hs s) (s_dctx_at_hs s) (s_wctx s).
Definition set_w w s := mkState (s_cfg s) (s_pc s) (s_nio s) (s_err s) w (s_quit s) (s_intr s) (s_ctx s) (s_dctx s) (s_timer s) (s_conn s) (s_dl s) (s_closed s) (s_hs s) (s_dctx_at_hs s) (s_wctx s).
Definition set_quit q s := mkState (s_cfg s) (s_pc s) (s_nio s) (s_err s) (s_w s) q (s_intr s) (s_ctx s) (s_dctx s) (s_timer s) (s_conn s) (s_dl s) (s_closed s) (s_hs s) (s_dctx_at_hs s) (s_wctx s).
Definition set_intr i s := mkState (s_cfg s) (s_pc s) (s_nio s) (s_err s) (s_w s) (s_quit s) i (s_ctx s) (s_dctx s) (s_timer s) (s_conn s) (s_dl s) (s_closed s) (s_hs s) (s_dctx_at_hs s) (s_wctx s).
Definition set_ctx x s := mkState (s_cfg s) (s_pc s) (s_nio s) (s_err s) (s_w s) (s_quit s) (s_intr s) x (s_dctx s) (s_timer s) (s_conn s) (s_dl s) (s_closed s) (s_hs s) (s_dctx_at_hs s) (s_wctx s).
Definition set_dctx x s := mkState (s_cfg s) (s_pc s) (s_nio s) (s_err s) (s_w s) (s_quit s) (s_intr s) (s_ctx s) x (s_timer s) (s_conn s) (s_dl s) (s_closed s) (s_hs s) (s_dctx_at_hs s) (s_wctx s).
Definition set_timer t s := mkState (s_cfg s) (s_pc s) (s_nio s) (s_err s) (s_w s) (s_quit s) (s_intr s) (s_ctx s) (s_dctx s) t (s_conn s) (s_dl s) (s_closed s) (s_hs s) (s_dctx_at_hs s) (s_wctx s).
Definition set_conn b s := mkState (s_cfg s) (s_pc s) (s_nio s) (s_err s) (s_w s) (s_quit s) (s_intr s) (s_ctx s) (s_dctx s) (s_timer s) b (s_dl s) (s_closed s) (s_hs s) (s_dctx_at_hs s) (s_wctx s).
Definition set_dl k s := mkState (s_cfg s) (s_pc s) (s_nio s) (s_err s) (s_w s) (s_quit s) (s_intr s) (s_ctx s) (s_dctx s) (s_timer s) (s_conn s) k (s_closed s) (s_hs s) (s_dctx_at_hs s) (s_wctx s).
Definition set_closed b s := mkState (s_cfg s) (s_pc s) (s_nio s) (s_err s) (s_w s) (s_quit s) (s_intr s) (s_ctx s) (s_dctx s) (s_timer s) (s_conn s) (s_dl s) b (s_hs s) (s_dctx_at_hs s) (s_wctx s).
Definition set_hs (h : derr) s := mkState (s_cfg s) (s_pc s) (s_nio s) (s_err s) (s_w s) (s_quit s) (s_intr s) (s_ctx s) (s_dctx s) (s_timer s) (s_conn s) (s_dl s) (s_closed s) (HRes h) (s_dctx s) (s_wctx s).
Definition set_wctx b s := mkState (s_cfg s) (s_pc s) (s_nio s) (s_err s) (s_w s) (s_quit s) (s_intr s) (s_ctx s) (s_dctx s) (s_timer s) (s_conn s) (s_dl s) (s_closed s) (s_hs s) (s_dctx_at_hs s) b.

Definition pc_is (p : mpc) (s : state) : bool :=
  match p, s_pc s with
  | MStart, MStart | MDialing, MDialing | MDialed, MDialed | MIo, MIo | MBlocked, MBlocked
  | MUpRet, MUpRet | MWaitIntr, MWaitIntr | MDefClose, MDefClose | MRetReady, MRetReady
  | MRet, MRet => true
  | _, _ => false
  end.
Definition w_is (p : wpc) (s : state) : bool :=
  match p, s_w s with
  | WNone, WNone | WSelect, WSelect | WPoison, WPoison | WSendCtx, WSendCtx
  | WSendNil, WSendNil | WDone, WDone => true
  | _, _ => false
  end.
Definition derr_eqb (a b : derr) : bool :=
  match a, b with
  | ENil, ENil | ECanceled, ECanceled | EDeadline, EDeadline | EIoTimeout, EIoTimeout
  | EOther, EOther => true
  | _, _ => false
  end.
Definition dlk_eqb (a b : dlk) : bool :=
  match a, b with DNone, DNone | DFuture, DFuture | DPast, DPast => true | _, _ => false end.

(* the first of (ctx end, timer) fixes dialctx's error; without a timer dialctx IS ctx *)
Definition end_dctx (x : cstate) (s : state) : state :=
  match s_dctx s with CLive => set_dctx x s | _ => s end.

(* the conn's deadline is in force: a blocked I/O operation fails with a timeout *)
Definition deadline_in_force (s : state) : bool :=
  match s_dl s with
  | DPast => true
  | DFuture => match s_timer s with TFired => true | _ => false end
  | DNone => false
  end.

Definition guard (b : bool) (s : state) : option state := if b then Some s else None.

(* ---------- the step function: one clause per statement of the Go code ---------- *)
Definition step (s : state) (l : label) : option state :=
  let c := s_cfg s in
  match l with
  (* --- environment: ctx, clock --- *)
  | LCtxCancel =>
      guard (cancellable c && negb (ended (s_ctx s))) (end_dctx CCanceled (set_ctx CCanceled s))
  | HCtxExpire =>
      guard (expirable c && negb (ended (s_ctx s))) (end_dctx CExpired (set_ctx CExpired s))
  | HTimerFire =>
      guard (match s_timer s with TPending => true | _ => false end)
            (end_dctx CExpired (set_timer TFired s))
  | LSeenExpired => guard (match s_ctx s with CExpired => true | _ => false end) s
  | LSeenTimer => guard (match s_timer s with TFired => true | _ => false end) s
  (* --- main: d.dial(dialctx, u) --- *)
  | LDialStart => guard (pc_is MStart s) (set_pc MDialing s)
  | LDialOk => guard (pc_is MDialing s) (set_conn true (set_pc MDialed s))
  | LDialErr e =>
      (* NetDial fails: with dialctx's error once dialctx has ended, or with an error of
         its own; "return conn, nil, hs, err" — no conn, nothing deferred yet *)
      guard (pc_is MDialing s &&
             match e with
             | EOther => true
             | ENil | EIoTimeout => false
             | _ => ended (s_dctx s) && derr_eqb e (cerr (s_dctx s))
             end)
            (set_err e (set_pc MRetReady s))
  (* --- main: ctx == Background: conn.SetDeadline(deadline); defer conn.SetDeadline(noDeadline)
         else: done := setupContextDeadliner(dialctx, conn) --- *)
  | LSetDl GMain k =>
      if pc_is MDialed s && is_bg c then
        guard (dlk_eqb k (if c_tmo c then DFuture else DNone)) (set_dl k (set_pc MIo s))
      else if pc_is MUpRet s && is_bg c then
        guard (dlk_eqb k DNone) (set_dl DNone (set_pc MDefClose s))
      else None
  | HSpawn => guard (pc_is MDialed s && negb (is_bg c)) (set_w WSelect (set_pc MIo s))
  (* --- main: br, hs, err = d.Upgrade(conn, u): a sequence of I/O operations --- *)
  | LIoStart GMain => guard (pc_is MIo s) (set_pc MBlocked s)
  | LIoOk GMain => guard (pc_is MBlocked s) (set_nio (inc3 (s_nio s)) (set_pc MIo s))       (* peer *)
  | LIoTimeout GMain =>
      guard (pc_is MBlocked s && deadline_in_force s)
            (set_hs EIoTimeout (set_err EIoTimeout (set_pc MUpRet s)))
  | LIoFail GMain =>                                                                         (* peer *)
      guard (pc_is MBlocked s) (set_hs EOther (set_err EOther (set_pc MUpRet s)))
  | HHsFinish =>
      (* at least the request write and one response read have completed *)
      guard (pc_is MIo s && match s_nio s with Z2 => true | _ => false end)
            (let e := if c_valid c then ENil else EOther in
             set_hs e (set_err e (set_pc MUpRet s)))
  (* --- main: deferred done(&err) --- *)
  | HCloseQuit => guard (pc_is MUpRet s && negb (is_bg c)) (set_quit true (set_pc MWaitIntr s))
  | HRecvIntr =>
      match s_intr s with
      | IFull v =>
          guard (pc_is MWaitIntr s)
                (let e := s_err s in
                 let e' := if negb (derr_eqb v ENil) && (derr_eqb e ENil || is_timeout e) then v else e in
                 set_err e' (set_intr IEmpty (set_pc MDefClose s)))
      | IEmpty => None
      end
  (* --- main: deferred "if err != nil { conn.Close() }", then return --- *)
  | LClose GMain =>
      guard (pc_is MDefClose s && negb (derr_eqb (s_err s) ENil)) (set_closed true (set_pc MRetReady s))
  | LRet e =>
      guard ((pc_is MRetReady s || (pc_is MDefClose s && derr_eqb (s_err s) ENil)) && derr_eqb e (s_err s))
            (set_pc MRet s)
  (* --- watcher goroutine --- *)
  | HWSelQuit => guard (w_is WSelect s && s_quit s) (set_w WSendNil s)
  | HWSelCtx => guard (w_is WSelect s && ended (s_dctx s)) (set_wctx true (set_w WPoison s))
  | LSetDl GOther k => guard (w_is WPoison s && dlk_eqb k DPast) (set_dl DPast (set_w WSendCtx s))
  | HWSendCtx => guard (w_is WSendCtx s) (set_intr (IFull (cerr (s_dctx s))) (set_w WDone s))
  | HWSendNil => guard (w_is WSendNil s) (set_intr (IFull ENil) (set_w WDone s))
  (* nobody else operates on the conn *)
  | LIoStart GOther | LIoOk GOther | LIoTimeout GOther | LIoFail GOther | LClose GOther => None
  end.

(* ---------- the property as a monitor over the visible trace ---------- *)
Inductive verdict :=
  | VOk
  | VTouchAfterReturn     (* a conn operation (or a second return) after Dial returned *)
  | VNilNoConn | VNilClosed | VNilDeadline   (* nil error but: no conn / closed / deadline left set *)
  | VErrNotClosed         (* non-nil error, conn not closed *)
  | VErrNotCtx            (* ctx ended before the handshake I/O finished, error is not the ctx's *)
  | VRawTimeout.          (* a non-Background Dial returned the raw i/o timeout *)

Record mstate := mkM {
  m_conn : bool; m_closed : bool; m_dl : dlk;
  m_cancel : bool; m_exp : bool; m_tmr : bool;  (* ends seen so far *)
  m_snap : bool;          (* an end had been seen when the last I/O operation completed *)
  m_iofail : bool; m_iotmo : bool;
  m_ret : bool; m_verdict : verdict
}.

Definition m_init : mstate := mkM false false DNone false false false false false false false VOk.

Definition m_seen (m : mstate) : bool := m_cancel m || m_exp m || m_tmr m.

(* errors a context-watching Dial may report for an interrupted handshake *)
Definition ctx_err_allowed (c : cfg) (m : mstate) (e : derr) : bool :=
  match e with
  | ECanceled => m_cancel m
  | EDeadline => expirable c || has_timer c
  | _ => false
  end.

Definition verdict_at_ret (c : cfg) (m : mstate) (e : derr) : verdict :=
  match e with
  | ENil =>
      if negb (m_conn m) then VNilNoConn
      else if m_closed m then VNilClosed
      else if negb (dlk_eqb (m_dl m) DNone) then VNilDeadline
      else VOk
  | _ =>
      if m_conn m && negb (m_closed m) then VErrNotClosed
      else if negb (is_bg c) && derr_eqb e EIoTimeout then VRawTimeout
      else if negb (is_bg c) &&
              ((m_snap m && c_valid c && negb (m_iofail m)) || m_iotmo m) &&
              negb (ctx_err_allowed c m e) then VErrNotCtx
      else VOk
  end.

Definition upd_verdict (v : verdict) (m : mstate) : mstate :=
  match m_verdict m with
  | VOk => mkM (m_conn m) (m_closed m) (m_dl m) (m_cancel m) (m_exp m) (m_tmr m) (m_snap m)
               (m_iofail m) (m_iotmo m) (m_ret m) v
  | _ => m
  end.

Definition mon_step (c : cfg) (m : mstate) (l : label) : mstate :=
  if m_ret m then
    (if touches_conn l || match l with LRet _ | LDialStart | LDialOk | LDialErr _ => true | _ => false end
     then upd_verdict VTouchAfterReturn m else m)
  else
  let snap m' := mkM (m_conn m') (m_closed m') (m_dl m') (m_cancel m') (m_exp m') (m_tmr m')
                     (m_seen m') (m_iofail m') (m_iotmo m') (m_ret m') (m_verdict m') in
  match l with
  | LDialOk => mkM true (m_closed m) (m_dl m) (m_cancel m) (m_exp m) (m_tmr m) (m_snap m) (m_iofail m) (m_iotmo m) (m_ret m) (m_verdict m)
  | LSetDl _ k => mkM (m_conn m) (m_closed m) k (m_cancel m) (m_exp m) (m_tmr m) (m_snap m) (m_iofail m) (m_iotmo m) (m_ret m) (m_verdict m)
  | LIoOk _ => snap m
  | LIoTimeout _ => snap (mkM (m_conn m) (m_closed m) (m_dl m) (m_cancel m) (m_exp m) (m_tmr m) (m_snap m) (m_iofail m) true (m_ret m) (m_verdict m))
  | LIoFail _ => snap (mkM (m_conn m) (m_closed m) (m_dl m) (m_cancel m) (m_exp m) (m_tmr m) (m_snap m) true (m_iotmo m) (m_ret m) (m_verdict m))
  | LClose _ => mkM (m_conn m) true (m_dl m) (m_cancel m) (m_exp m) (m_tmr m) (m_snap m) (m_iofail m) (m_iotmo m) (m_ret m) (m_verdict m)
  | LCtxCancel => mkM (m_conn m) (m_closed m) (m_dl m) true (m_exp m) (m_tmr m) (m_snap m) (m_iofail m) (m_iotmo m) (m_ret m) (m_verdict m)
  | LSeenExpired => mkM (m_conn m) (m_closed m) (m_dl m) (m_cancel m) true (m_tmr m) (m_snap m) (m_iofail m) (m_iotmo m) (m_ret m) (m_verdict m)
  | LSeenTimer => mkM (m_conn m) (m_closed m) (m_dl m) (m_cancel m) (m_exp m) true (m_snap m) (m_iofail m) (m_iotmo m) (m_ret m) (m_verdict m)
  | LRet e =>
      upd_verdict (verdict_at_ret c m e)
        (mkM (m_conn m) (m_closed m) (m_dl m) (m_cancel m) (m_exp m) (m_tmr m) (m_snap m) (m_iofail m) (m_iotmo m) true (m_verdict m))
  | _ => m
  end.

Definition mon_run (c : cfg) (tr : list label) : mstate := fold_left (mon_step c) tr m_init.
Definition monitor (c : cfg) (tr : list label) : verdict := m_verdict (mon_run c tr).

(* progress obligation of the property, as the checker applies it to a run that the
   watchdog gave up on: an end had been seen, so Dial had to return *)
Definition must_have_returned (c : cfg) (tr : list label) : bool := m_seen (mon_run c tr).

(* ---------- product: LTS state x monitor state (explored by the proofs) ---------- *)
Record pstate := mkP { p_s : state; p_m : mstate }.
Definition pinit (c : cfg) : pstate := mkP (init c) m_init.
Definition pstep (p : pstate) (l : label) : option pstate :=
  match step (p_s p) l with
  | Some s' => Some (mkP s' (if visible l then mon_step (s_cfg (p_s p)) (p_m p) l else p_m p))
  | None => None
  end.

Definition all_cfgs : list cfg :=
  flat_map (fun k => flat_map (fun t => map (fun v => mkCfg k t v) [false; true]) [false; true])
           [CtxBg; CtxPlain; CtxDlEarly; CtxDlLate].

(* ---------- acceptor (trace inclusion), scheduler for the progress witness ---------- *)
Scheme Equality for ctxkind.
Scheme Equality for who.
Scheme Equality for derr.
Scheme Equality for dlk.
Scheme Equality for mpc.
Scheme Equality for n3.
Scheme Equality for wpc.
Scheme Equality for tstate.
Scheme Equality for cstate.
Scheme Equality for ibuf.
Scheme Equality for hsres.
Scheme Equality for verdict.
Scheme Equality for cfg.
Scheme Equality for label.
Scheme Equality for state.
Scheme Equality for mstate.
Scheme Equality for pstate.

Definition is_system (l : label) : bool := existsb (label_beq l) system_labels.

Definition hfuel : nat := 12.    (* bound on chains of hidden steps, proved in DialProofs *)

Definition accept_states (c : cfg) (tr : list label) : list state :=
  LTS.accept_states step state_beq visible hidden_labels hfuel (init c) tr.
Definition accepts (c : cfg) (tr : list label) : bool :=
  LTS.accepts step state_beq visible hidden_labels hfuel (init c) tr.
Definition accepted_prefix (c : cfg) (tr : list label) : nat :=
  LTS.accepted_prefix step state_beq visible hidden_labels hfuel
    (LTS.hclosure step state_beq hidden_labels hfuel [init c]) tr 0.

(* the system-step scheduler used as progress witness: first enabled system label *)
Definition sched (s : state) : option label :=
  find (fun l => match step s l with Some _ => true | None => false end) system_labels.

Definition blocked_and_due (s : state) : bool :=
  pc_is MBlocked s && (ended (s_ctx s) || match s_timer s with TFired => true | _ => false end).

Definition pfuel : nat := 16.
Definition can_return (s : state) : bool := LTS.can_reach step is_returned sched pfuel s.
Definition must_return (s : state) : bool := LTS.must_reach step is_returned system_labels pfuel s.

(* hash for the state tables of the proofs (correctness does not depend on it) *)
Definition pc_code (p : mpc) : N :=
  match p with MStart => 0 | MDialing => 1 | MDialed => 2 | MIo => 3 | MBlocked => 4 | MUpRet => 5
  | MWaitIntr => 6 | MDefClose => 7 | MRetReady => 8 | MRet => 9 end%N.
Definition w_code (w : wpc) : N :=
  match w with WNone => 0 | WSelect => 1 | WPoison => 2 | WSendCtx => 3 | WSendNil => 4 | WDone => 5 end%N.
Definition c_code (x : cstate) : N := match x with CLive => 0 | CCanceled => 1 | CExpired => 2 end%N.
Definition t_code (x : tstate) : N := match x with TAbsent => 0 | TPending => 1 | TFired => 2 end%N.
Definition e_code (e : derr) : N :=
  match e with ENil => 0 | ECanceled => 1 | EDeadline => 2 | EIoTimeout => 3 | EOther => 4 end%N.
Definition k_code (k : dlk) : N := match k with DNone => 0 | DFuture => 1 | DPast => 2 end%N.
Definition b_code (b : bool) : N := if b then 1%N else 0%N.
Definition cfg_code (c : cfg) : N :=
  (match c_ctx c with CtxBg => 0 | CtxPlain => 1 | CtxDlEarly => 2 | CtxDlLate => 3 end * 4
   + b_code (c_tmo c) * 2 + b_code (c_valid c))%N.

Definition pkey (p : pstate) : positive :=
  let s := p_s p in let m := p_m p in
  N.succ_pos
    ((((((((((((cfg_code (s_cfg s) * 10 + pc_code (s_pc s)) * 6 + w_code (s_w s)) * 3 + c_code (s_ctx s)) * 3
      + c_code (s_dctx s)) * 3 + t_code (s_timer s)) * 5 + e_code (s_err s)) * 3 + k_code (s_dl s)) * 2
      + b_code (m_snap m)) * 2 + b_code (m_cancel m)) * 2 + b_code (m_exp m)) * 2 + b_code (m_tmr m)) * 4
      + b_code (m_iofail m) * 2 + b_code (m_iotmo m))%N.
