(* HsDebugFull.v — wsutil.DebugDialer (wsutil/dialer.go, after fixes F16 594aa5a, F17 4494cd4,
   F22 6d46060) and wsutil.DebugUpgrader (wsutil/upgrader.go, after fix F24 d4d7004) transcribed statement by statement
   over the handshake models: the wrapped conn whose Read goes through prefetchResponseReader
   (a bufio.Reader over io.TeeReader(conn, &resBuf) handed to http.ReadResponse, then
   io.MultiReader(bytes.NewReader(captured), conn)), whose Write goes through
   io.MultiWriter(conn, &reqBuf); the inner ws.Dialer.Upgrade reading through ITS OWN bufio.Reader
   of size B (HsDialer.dialer_upgrade); the callbacks; the search for the end of the response
   (resLen / headLen); the splice-back of prefetched bytes into the returned *bufio.Reader.
   Definitions only; proofs in HsDebugFullProofs.v.  (HsDebug.v is the older abstract model.)

   What enters from outside (Section variables, never axioms):
   * [parse_head]: http.ReadResponse (DebugUpgrader: http.ReadRequest) followed by the body drain on the captured
     bytes: [Some n] = no error and  resBuf.Len() - br.Buffered() = n  (bytes of head and body the
     parser consumed), [None] = error.
   * the list of buffer sizes [hreads] of the Read calls that net/http's bufio.Reader performs on
     the tee (it decides how far net/http reads ahead of what it consumes); every list is allowed.
   * [wcut]: how the inner bufio.Writer cuts what it is given into Write calls on the conn.

   The transport is a list of chunks and a tail (HsBufio): conn.Read(p) delivers the next chunk, or
   its first len(p) bytes and keeps the rest; after the last chunk (0, err).

   Not modelled: write errors, deadlines/timeouts (a parser that waits for a body the peer never
   sends: see notes/dbgwrap.md), TLS, Dialer.dial. *)
Require Import Bytes HsBufio HsHttp HsUpgrader HsDialer.
Open Scope N_scope.

(* ---------- the transport and the standard-library plumbing ---------- *)

(* conn.Read(p) with len(p) = m: (bytes delivered, transport afterwards); ([], []) = (0, err) *)
Definition conn_read (m : N) (chunks : list (list byte)) : list byte * list (list byte) :=
  match chunks with
  | [] => ([], [])
  | c :: cs => if len c <=? m then (c, cs) else (take m c, drop m c :: cs)
  end.

(* io.TeeReader(conn, buf) under the Read calls (buffer sizes [sizes]) of a bufio.Reader:
   every byte read is appended to buf *)
Fixpoint tee_fetch (sizes : list N) (buf : list byte) (chunks : list (list byte))
  : list byte * list (list byte) :=
  match sizes with
  | [] => (buf, chunks)
  | m :: ms => let (got, chunks') := conn_read m chunks in tee_fetch ms (buf ++ got) chunks'
  end.

(* io.MultiReader(bytes.NewReader(front), conn) resp. io.MultiReader(&buf, conn) as a transport:
   an exhausted (or empty) first reader answers (0, io.EOF) and MultiReader goes on to conn within
   the same Read call; a non-empty one delivers min(len(p), remaining) bytes per call *)
Definition multi_reader (front : list byte) (src : list (list byte)) : list (list byte) :=
  match front with [] => src | _ => front :: src end.

(* io.MultiWriter(conn, &buf) under the Write calls [ws]: (calls that reached conn, buf) *)
Fixpoint multi_writer (ws : list (list byte)) (out : list (list byte)) (buf : list byte)
  : list (list byte) * list byte :=
  match ws with
  | [] => (out, buf)
  | w :: r => multi_writer r (out ++ [w]) (buf ++ w)
  end.

(* a bufio.Reader over MultiReader(front, conn) has left [after] of the transport
   [multi_reader front src]: what is left of conn itself, and the bytes it took from conn
   (chunks are consumed in order, so lengths decide) *)
Definition src_len (cs : list (list byte)) : nat := length (concat cs).
Definition conn_left (src after : list (list byte)) : list (list byte) :=
  if (src_len after <=? src_len src)%nat then after else src.
Definition conn_taken (src after : list (list byte)) : list byte :=
  firstn (src_len src - src_len after) (concat src).

(* ---------- wsutil/dialer.go: headLen ----------
   for i < len(p) { j := IndexByte(p[i:], LF); if j < 0 { break }; line := p[i:i+j]; i += j+1;
                    if len(line) == 0 || line == CR { return i } }; return len(p)
   One iteration per LF-terminated raw line ([raw_lines]); [cut_eol l = []] iff the raw line l is
   LF or CR LF.  [head_end] = Some i when the loop returns i from inside. *)
Fixpoint head_end_lines (ls : list (list byte)) (i : nat) : option nat :=
  match ls with
  | [] => None
  | l :: r =>
      let i' := (i + length l)%nat in
      match cut_eol l with
      | [] => Some i'
      | _ => head_end_lines r i'
      end
  end.
Definition head_end (p : list byte) : option nat := head_end_lines (fst (raw_lines p)) 0.
Definition head_len (p : list byte) : nat :=
  match head_end p with Some i => i | None => length p end.

Section DebugWrappers.
  Variable parse_head : list byte -> option nat.
  Variable wcut : list byte -> list (list byte).

  (* ---------- DebugDialer.Dial ---------- *)
  Record fdres := mkFd {
    fd_on_request : option (list byte);    (* argument of OnRequest (None: no callback set) *)
    fd_on_response : option (list byte);   (* argument of OnResponse *)
    fd_hs : handshake;
    fd_err : option derr;
    fd_br : option (list byte);            (* returned *bufio.Reader: its buffered bytes; None = nil *)
    fd_conn : list (list byte);            (* what the returned conn still delivers *)
    fd_tail : tail_kind;
    fd_conn_out : list (list byte);        (* Write calls that reached the conn *)
    fd_captured : list byte }.             (* resBuf.Bytes() when the parser ran (for the hypotheses) *)

  (* everything the caller can still read: the returned buffer, then the conn *)
  Definition fd_leftover (w : fdres) : list byte :=
    (match fd_br w with Some b => b | None => [] end) ++ concat (fd_conn w).

  Definition debug_dialer_full (set_req set_resp : bool) (cfg : dcfg) (url_host uri nonce : list byte)
             (B : N) (hreads : list N) (chunks : list (list byte)) (t : tail_kind) : fdres :=
    (* dialer.WrapConn: r = conn | prefetchResponseReader; w = conn | MultiWriter(conn, &reqBuf) *)
    (* prefetchResponseReader.Read, first call: bufio.NewReader(io.TeeReader(source, buffer)),
       http.ReadResponse, body drained *)
    let '(captured, src1) := if set_resp then tee_fetch hreads [] chunks else ([], chunks) in
    let parsed := parse_head captured in
    (*   ok:  *length = buffer.Len() - br.Buffered(); reader = MultiReader(NewReader(buffer.Bytes()), source)
         err: *length = -1; reader = MultiReader(NewReader(copy of buffer.Bytes()), TeeReader(source, buffer)) *)
    let r_in := mkReader [] (if set_resp then multi_reader captured src1 else chunks) t in
    (* _, br, hs, err = dialer.Dial(ctx, urlstr): ws.Dialer.Upgrade on the wrapped conn *)
    let d := dialer_upgrade cfg url_host uri nonce B r_in in
    let r_end := d_reader d in
    let '(out, req_buf) :=
      if set_req then multi_writer (wcut (d_request d)) [] [] else (wcut (d_request d), []) in
    let br0 := if d_returns_br d then Some (r_pending r_end) else None in
    if negb set_resp then
      mkFd (if set_req then Some req_buf else None) None (d_hs d) (d_err d)
           br0 (r_chunks r_end) t out []
    else
      let conn_end := conn_left src1 (r_chunks r_end) in
      (* in the err branch the source is read through the tee: resBuf grows by what the Dialer's
         bufio.Reader takes from conn *)
      let p := match parsed with
               | Some _ => captured
               | None => captured ++ conn_taken src1 (r_chunks r_end)
               end in
      (* n := resLen; if n < 0 { n = headLen(p) }; if n > len(p) { n = len(p) } *)
      let n := match parsed with Some n => n | None => head_len p end in
      let n := Nat.min n (length p) in
      (* onResponse(p[:n]) *)
      let on_resp := firstn n p in
      let br :=
        match d_err d with
        | Some _ => br0
        | None =>
            match skipn n p with
            | [] => match br0 with Some _ => Some [] | None => None end   (* br.Reset(conn) *)
            | rest => Some rest    (* br = NewReaderSize/Reset(MultiReader(NewReader(rest), conn)); br.Peek(len(rest)) *)
            end
        end in
      mkFd (if set_req then Some req_buf else None) (Some on_resp) (d_hs d) (d_err d)
           br conn_end t out captured.

  (* ---------- DebugUpgrader.Upgrade ---------- *)
  (* where ws.Upgrader.Upgrade leaves its bufio.Reader (which it then puts back into the pool:
     bytes it had buffered beyond the request are not handed to anybody) and the transport *)
  Definition upgrader_reader (cfg : ucfg) (B : N) (r : reader) : reader :=
    match read_line B r with
    | (LErr _ _, r1) => r1
    | (LFuel, r1) => r1
    | (LOk l, r1) =>
        match http_parse_request_line ascii_to_int l with
        | None => r1
        | Some rl =>
            match request_line_check cfg rl with
            | Some _ => r1
            | None =>
                snd (run_stream ust lres (line_step cfg) on_blank on_ioerr (on_fuel init_ust)
                       (S (length (flat r1))) B init_ust r1)
            end
        end
    end.

  Record fures := mkFu {
    fu_on_request : option (list byte);
    fu_on_response : option (list byte);
    fu_res : ures;                         (* handshake, error, bytes written to the conn *)
    fu_conn : list (list byte);            (* what the conn still delivers afterwards *)
    fu_conn_out : list (list byte) }.      (* Write calls that reached the conn *)

  Definition debug_upgrader_full (set_req set_resp : bool) (stext : N -> list byte) (cfg : ucfg)
             (B : N) (hreads : list N) (chunks : list (list byte)) (t : tail_kind) : fures :=
    (* if onRequest != nil: req, err := http.ReadRequest(bufio.NewReader(io.TeeReader(conn, &buf)))
         err == nil: body drained; onRequest(buf.Bytes()); r = io.MultiReader(&buf, conn)
         err != nil (after fix F24, d4d7004): r = io.MultiReader(bytes.NewReader(copy of buf.Bytes()),
                     io.TeeReader(conn, &buf)); reportRequest = func() { onRequest(buf.Bytes()) },
                     deferred last, so it runs when Upgrade has returned and before onResponse *)
    let '(captured, src1) := if set_req then tee_fetch hreads [] chunks else ([], chunks) in
    let parsed := parse_head captured in
    let r_in := mkReader [] (if set_req then multi_reader captured src1 else chunks) t in
    (* if onResponse != nil: w = io.MultiWriter(conn, &buf); defer onResponse(buf.Bytes()) *)
    let res := upgrader stext cfg B r_in in
    let r_end := upgrader_reader cfg B r_in in
    let '(out, resp_buf) :=
      if set_resp then multi_writer (wcut (u_out res)) [] [] else (wcut (u_out res), []) in
    let on_req := match parsed with
                  | Some _ => captured
                  | None => captured ++ conn_taken src1 (r_chunks r_end)   (* the tee kept recording *)
                  end in
    mkFu (if set_req then Some on_req else None)
         (if set_resp then Some resp_buf else None)
         res
         (if set_req then conn_left src1 (r_chunks r_end) else r_chunks r_end)
         out.

  (* the same before fix F24: onRequest(buf.Bytes()) right after ReadRequest, whatever its answer *)
  Definition debug_upgrader_full_old (set_req set_resp : bool) (stext : N -> list byte) (cfg : ucfg)
             (B : N) (hreads : list N) (chunks : list (list byte)) (t : tail_kind) : fures :=
    let '(captured, src1) := if set_req then tee_fetch hreads [] chunks else ([], chunks) in
    let r_in := mkReader [] (if set_req then multi_reader captured src1 else chunks) t in
    let res := upgrader stext cfg B r_in in
    let r_end := upgrader_reader cfg B r_in in
    let '(out, resp_buf) :=
      if set_resp then multi_writer (wcut (u_out res)) [] [] else (wcut (u_out res), []) in
    mkFu (if set_req then Some captured else None)
         (if set_resp then Some resp_buf else None)
         res
         (if set_req then conn_left src1 (r_chunks r_end) else r_chunks r_end)
         out.
End DebugWrappers.
