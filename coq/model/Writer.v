(* Writer.v — transcription of wsutil/writer.go (Writer, ControlWriter, reserve,
   headerSize, ceilPowerOfTwo, writeFrame) and of wsflate.MessageState.SetBits as
   send extension; plus the observable-history SPEC of C06/C08/C13/C16/C18.
   Definitions only. *)
Require Import Bytes Stream Check Frame Cipher Extracted.
Open Scope N_scope.

(* ------------------------------------------------------------------ destination *)
(* io.Writer that records every Write call; from call index d_fail_at on every
   call fails and delivers nothing *)
Record dest := mkDest { d_calls : list (list byte) (* newest first *); d_fail_at : option N }.
Definition dest_ncalls (d : dest) : N := len (d_calls d).
Definition dest_write (p : list byte) (d : dest) : bool (* ok *) * dest :=
  match d_fail_at d with
  | Some k => if k <=? dest_ncalls d then (false, mkDest ([] :: d_calls d) (d_fail_at d))
              else (true, mkDest (p :: d_calls d) (d_fail_at d))
  | None => (true, mkDest (p :: d_calls d) None)
  end.
Definition dest_log (d : dest) : list (list byte) := rev_append (d_calls d) [].

(* ------------------------------------------------------------------ sizes *)
Definition client_side (state : N) : bool := st_client state.
Definition mask_len (state : N) : N := if client_side state then 4 else 0.

(* reserve(state, n) *)
Definition reserve (state n : N) : N :=
  let m := mask_len state in
  if n <=? 125 + m + 2 then m + 2
  else if n <=? 65535 + m + 4 then m + 4
  else m + 10.

(* headerSize(state, n) = ws.HeaderSize(Header{Length: n, Masked: client}) *)
Definition w_header_size (state n : N) : N :=
  (if n <? 126 then 2 else if n <=? 65535 then 4 else 10) + mask_len state.

(* ceilPowerOfTwo: smear the bits to the right, add one *)
Definition ceil_pow2 (n : N) : N := if n =? 0 then 1 else 2 ^ (N.log2 n + 1).

(* ------------------------------------------------------------------ writer *)
Inductive werror := WDest | WNotEmpty | WExt | WOverflow | WNoProgress | WHang (* model: loop fuel exhausted *).
Inductive wpanic := PBufTooSmall | PGrowReduce | PHeaderSpace.

Record writer := mkW {
  w_dest : dest;
  w_state : N;
  w_op : N;
  w_exts : list bool;        (* send extensions: wsflate.MessageState, each with its compressed flag *)
  w_noflush : bool;
  w_rawlen : N;              (* len(raw) *)
  w_buflen : N;              (* len(buf) = len(raw) - reserved header bytes *)
  w_buf : list byte;         (* the n buffered payload bytes *)
  w_dirty : bool;
  w_fseq : N;
  w_err : option werror;
  w_masks : list (list byte) (* oracle for ws.NewMask(): one key per masked frame, read back from the output *)
}.

Definition w_n (w : writer) : N := len (w_buf w).
Definition w_available (w : writer) : N := w_buflen w - w_n w.
Definition w_opcode (w : writer) : N := if 0 <? w_fseq w then 0 else w_op w.

(* NewWriterBuffer + initBuf *)
Definition new_writer_buffer (d : dest) (state op rawlen : N) (masks : list (list byte)) : wpanic + writer :=
  let off := reserve state rawlen in
  if rawlen <=? off then inl PBufTooSmall
  else inr (mkW d state op [] false rawlen (rawlen - off) [] false 0 None masks).
Definition new_writer_buffer_size (d : dest) (state op n : N) masks : wpanic + writer :=
  new_writer_buffer d state op (if n <=? 2 then default_write_buffer else n) masks.
Definition new_writer_size (d : dest) (state op n : N) masks : wpanic + writer :=
  new_writer_buffer_size d state op (if 0 <? n then n + w_header_size state n else n) masks.

(* wsflate.MessageState.SetBits over the list of extensions *)
Fixpoint set_bits (exts : list bool) (h : header) : option header :=
  match exts with
  | [] => Some h
  | compressed :: rest =>
    if negb (N.land (h_rsv h) 4 =? 0) then None
    else
      let h' := if negb (op_is_data (h_op h)) || (h_op h =? 0) then h
                else if compressed
                     then mkHeader (h_fin h) (N.lor (h_rsv h) 4) (h_op h) (h_masked h) (h_mask h) (h_len h)
                     else h in
      set_bits rest h'
  end.

Definition take_mask (w : writer) : list byte * list (list byte) :=
  match w_masks w with
  | m :: r => (m, r)
  | [] => (zero_mask, [])
  end.

Definition set_dest_err (w : writer) (d : dest) (e : option werror) (masks : list (list byte)) : writer :=
  mkW d (w_state w) (w_op w) (w_exts w) (w_noflush w) (w_rawlen w) (w_buflen w) (w_buf w)
      (w_dirty w) (w_fseq w) e masks.

(* flushFragment(fin): header into the reserved space, ONE destination write *)
Definition flush_fragment_raw (fin : bool) (w : writer) : (wpanic + option werror) * writer :=
  let h0 := mkHeader fin 0 (w_opcode w) false zero_mask (Z.of_N (w_n w)) in
  match set_bits (w_exts w) h0 with
  | None => (inr (Some WExt), w)
  | Some h1 =>
    let '(key, masks') := if client_side (w_state w) then take_mask w else (zero_mask, w_masks w) in
    let h := if client_side (w_state w)
             then mkHeader (h_fin h1) (h_rsv h1) (h_op h1) true key (h_len h1) else h1 in
    let payload := if client_side (w_state w) then cipher (w_buf w) key 0 else w_buf w in
    let offset := w_rawlen w - w_buflen w in
    if offset <? Z.to_N (header_size h) then (inl PHeaderSpace, w)
    else
      match write_header h with
      | inl _ => (inl PHeaderSpace, w)
      | inr hb =>
        let '(ok, d') := dest_write (hb ++ payload) (w_dest w) in
        (inr (if ok then None else Some WDest),
         mkW d' (w_state w) (w_op w) (w_exts w) (w_noflush w) (w_rawlen w) (w_buflen w) (w_buf w)
             (w_dirty w) (w_fseq w) (w_err w) masks')
      end
  end.

Definition with_flush_result (w : writer) (e : option werror) (fin : bool) : writer :=
  mkW (w_dest w) (w_state w) (w_op w) (w_exts w) (w_noflush w) (w_rawlen w) (w_buflen w) []
      (if fin then false else w_dirty w) (if fin then 0 else w_fseq w + 1) e (w_masks w).

(* FlushFragment() *)
Definition flush_fragment (w : writer) : (wpanic + option werror) * writer :=
  if (w_n w =? 0) || (match w_err w with Some _ => true | None => false end) then (inr (w_err w), w)
  else
    let '(r, w1) := flush_fragment_raw false w in
    match r with
    | inl p => (inl p, w1)
    | inr e => (inr e, with_flush_result w1 e false)
    end.

(* Flush() *)
Definition flush (w : writer) : (wpanic + option werror) * writer :=
  if (negb (w_dirty w) && (w_n w =? 0)) || (match w_err w with Some _ => true | None => false end)
  then (inr (w_err w), w)
  else
    let '(r, w1) := flush_fragment_raw true w in
    match r with
    | inl p => (inl p, w1)
    | inr e => (inr e, with_flush_result w1 e true)
    end.

(* WriteThrough(p): header and payload as TWO destination writes (ws.WriteFrame) *)
Definition write_through (p : list byte) (w : writer) : (N * option werror) * writer :=
  match w_err w with
  | Some e => ((0, Some e), w)
  | None =>
    if negb (w_n w =? 0) then ((0, Some WNotEmpty), w)
    else
      let h0 := mkHeader false 0 (w_opcode w) false zero_mask (Z.of_N (len p)) in
      match set_bits (w_exts w) h0 with
      | None => ((0, Some WExt), set_dest_err w (w_dest w) (Some WExt) (w_masks w))  (* the error is kept: later writes report it *)
      | Some h1 =>
        let '(key, masks') := if client_side (w_state w) then take_mask w else (zero_mask, w_masks w) in
        let h := if client_side (w_state w)
                 then mkHeader (h_fin h1) (h_rsv h1) (h_op h1) true key (h_len h1) else h1 in
        let payload := if client_side (w_state w) then cipher p key 0 else p in
        match write_header h with
        | inl _ => ((0, Some WDest), w)
        | inr hb =>
          let '(ok1, d1) := dest_write hb (w_dest w) in
          let '(ok, d2) := if ok1 then dest_write payload d1 else (false, d1) in
          let e := if ok then None else Some WDest in
          (((if ok then len p else 0), e),
           mkW d2 (w_state w) (w_op w) (w_exts w) (w_noflush w) (w_rawlen w) (w_buflen w) (w_buf w)
               true (w_fseq w + 1) e masks')
        end
      end
  end.

(* Grow(n) *)
Fixpoint grow_loop (fuel : nat) (state size next_off buffered n : N) : option (N * N) :=
  if n <=? size - next_off - buffered then Some (size, next_off)
  else
    match fuel with
    | O => None
    | S f =>
      let size' := ceil_pow2 (next_off + buffered + n) in
      grow_loop f state size' (reserve state size') buffered n
    end.
Definition grow (n : N) (w : writer) : (wpanic + option werror) * writer :=
  let off := w_rawlen w - w_buflen w in
  match grow_loop 4 (w_state w) (w_rawlen w) off (w_n w) n with
  | None => (inr (Some WHang), w)
  | Some (size, next_off) =>
    if size <? w_rawlen w then (inl PGrowReduce, w)
    else if size =? w_rawlen w then (inr None, w)
    else (inr None,
          mkW (w_dest w) (w_state w) (w_op w) (w_exts w) (w_noflush w) size (size - next_off) (w_buf w)
              (w_dirty w) (w_fseq w) (w_err w) (w_masks w))
  end.

Definition set_buf (w : writer) (b : list byte) (dirty : bool) : writer :=
  mkW (w_dest w) (w_state w) (w_op w) (w_exts w) (w_noflush w) (w_rawlen w) (w_buflen w) b
      dirty (w_fseq w) (w_err w) (w_masks w).

(* Write(p): the loop *)
Fixpoint write_loop (fuel : nat) (p : list byte) (acc : N) (w : writer)
  : (wpanic + (N * option werror)) * writer :=
  if (w_available w <? len p) && (match w_err w with None => true | Some _ => false end) then
    match fuel with
    | O => (inr (acc, Some WHang), w)
    | S f =>
      if w_noflush w then
        let '(r, w1) := grow (len p) w in
        match r with
        | inl pn => (inl pn, w1)
        | inr (Some e) => (inr (acc, Some e), w1)
        | inr None => write_loop f p acc w1
        end
      else if w_n w =? 0 then
        let '((nn, _), w1) := write_through p w in
        write_loop f (drop nn p) (acc + nn) w1
      else
        let nn := N.min (w_available w) (len p) in
        let w1 := set_buf w (w_buf w ++ take nn p) (w_dirty w) in
        let '(r, w2) := flush_fragment w1 in
        match r with
        | inl pn => (inl pn, w2)
        | inr _ => write_loop f (drop nn p) (acc + nn) w2
        end
    end
  else
    match w_err w with
    | Some e => (inr (acc, Some e), w)
    | None => (inr (acc + len p, None), set_buf w (w_buf w ++ p) (w_dirty w))
    end.
Definition write (p : list byte) (w : writer) : (wpanic + (N * option werror)) * writer :=
  write_loop 8 p 0 (set_buf w (w_buf w) true).

(* ReadFrom(src) *)
Fixpoint read_from_loop (fuel : nat) (s : src) (total : N) (w : writer)
  : (wpanic + (N * option werror)) * writer * src :=
  match fuel with
  | O => (inr (total, Some WHang), w, s)
  | S f =>
    if w_available w =? 0 then
      if w_noflush w then
        let '(r, w1) := grow (w_n w) w in
        match r with
        | inl pn => (inl pn, w1, s)
        | inr (Some e) => (inr (total, Some e), w1, s)
        | inr None => read_from_loop f s total w1
        end
      else
        let '(r, w1) := flush_fragment w in
        match r with
        | inl pn => (inl pn, w1, s)
        | inr (Some e) => (inr (total, Some e), w1, s)
        | inr None => read_from_loop f s total w1
        end
    else
      let '((b, e), s') := read1 (w_available w) s in
      (* bytes accepted make the message dirty at once (fix F21): Flush must end the message even when
         the source fails after a full buffer has left as a non-final fragment *)
      let w1 := set_buf w (w_buf w ++ b) (w_dirty w || (0 <? len b)) in
      match e with
      | Some EEOF => (inr (total + len b, None), set_buf w1 (w_buf w1) true, s')
      | Some _ => (inr (total + len b, Some WDest), w1, s')   (* the source's own error *)
      | None => read_from_loop f s' (total + len b) w1
      end
  end.
Definition read_from (s : src) (w : writer) : (wpanic + (N * option werror)) * writer * src :=
  read_from_loop (S (S (2 * length (flat s) + 4))) s 0 w.

(* Reset(dest, state, op): everything but the raw buffer is as after construction *)
Definition reset_writer (d : dest) (state op : N) (w : writer) : wpanic + writer :=
  let off := reserve state (w_rawlen w) in
  if w_rawlen w <=? off then inl PBufTooSmall
  else inr (mkW d state op [] false (w_rawlen w) (w_rawlen w - off) [] false 0 None (w_masks w)).
Definition reset_op (op : N) (w : writer) : writer :=
  mkW (w_dest w) (w_state w) op (w_exts w) (w_noflush w) (w_rawlen w) (w_buflen w) []
      false 0 (w_err w) (w_masks w).
Definition set_extensions (xs : list bool) (w : writer) : writer :=
  mkW (w_dest w) (w_state w) (w_op w) xs (w_noflush w) (w_rawlen w) (w_buflen w) (w_buf w)
      (w_dirty w) (w_fseq w) (w_err w) (w_masks w).
Definition disable_flush (w : writer) : writer :=
  mkW (w_dest w) (w_state w) (w_op w) (w_exts w) true (w_rawlen w) (w_buflen w) (w_buf w)
      (w_dirty w) (w_fseq w) (w_err w) (w_masks w).

(* ------------------------------------------------------------------ histories *)
Inductive wop :=
  | WWrite (p : list byte)
  | WReadFrom (data : list byte) (sizes : list N)
  | WWriteThrough (p : list byte)
  | WFlushFragment
  | WFlush
  | WGrow (n : N)
  | WDisableFlush
  | WSetExt (xs : list bool)
  | WReset (state op : N)
  | WResetOp (op : N).

(* what the caller observes after an op: returned count, error, then the accessors *)
Record wobs := mkWO { o_n : N; o_err : option werror; o_panic : option wpanic;
                      o_buffered : N; o_available : N; o_size : N; o_calls : N }.
Definition observe (n : N) (e : option werror) (p : option wpanic) (w : writer) : wobs :=
  mkWO n e p (w_n w) (w_available w) (w_buflen w) (dest_ncalls (w_dest w)).

Fixpoint run_wops (ops : list wop) (w : writer) : list wobs * writer :=
  match ops with
  | [] => ([], w)
  | op :: rest =>
    let '(o, w1, stop) :=
      match op with
      | WWrite p =>
        let '(r, w1) := write p w in
        match r with inl pn => (observe 0 None (Some pn) w1, w1, true)
                   | inr (n, e) => (observe n e None w1, w1, false) end
      | WReadFrom data sizes =>
        let '(r, w1, _) := read_from (mkSrc (chunk_by sizes data) TEOF) w in
        match r with inl pn => (observe 0 None (Some pn) w1, w1, true)
                   | inr (n, e) => (observe n e None w1, w1, false) end
      | WWriteThrough p =>
        let '((n, e), w1) := write_through p w in (observe n e None w1, w1, false)
      | WFlushFragment =>
        let '(r, w1) := flush_fragment w in
        match r with inl pn => (observe 0 None (Some pn) w1, w1, true)
                   | inr e => (observe 0 e None w1, w1, false) end
      | WFlush =>
        let '(r, w1) := flush w in
        match r with inl pn => (observe 0 None (Some pn) w1, w1, true)
                   | inr e => (observe 0 e None w1, w1, false) end
      | WGrow n =>
        let '(r, w1) := grow n w in
        match r with inl pn => (observe 0 None (Some pn) w1, w1, true)
                   | inr e => (observe 0 e None w1, w1, false) end
      | WDisableFlush => let w1 := disable_flush w in (observe 0 None None w1, w1, false)
      | WSetExt xs => let w1 := set_extensions xs w in (observe 0 None None w1, w1, false)
      | WReset st op =>
        match reset_writer (mkDest (d_calls (w_dest w)) (d_fail_at (w_dest w))) st op w with
        | inl pn => (observe 0 None (Some pn) w, w, true)
        | inr w1 => (observe 0 None None w1, w1, false)
        end
      | WResetOp op => let w1 := reset_op op w in (observe 0 None None w1, w1, false)
      end in
    if stop then ([o], w1)
    else let '(os, w2) := run_wops rest w1 in (o :: os, w2)
  end.

(* ------------------------------------------------------------------ ControlWriter *)
Record cwriter := mkCtl { c_w : writer; c_limit : N; c_n : N }.
Definition new_control_writer (d : dest) (state op : N) masks : wpanic + cwriter :=
  match new_writer_size d state op 125 masks with
  | inl p => inl p
  | inr w => inr (mkCtl w 125 0)
  end.
Definition new_control_writer_buffer (d : dest) (state op buflen : N) masks : wpanic + cwriter :=
  let mx := 125 + w_header_size state 125 in
  match new_writer_buffer d state op (N.min buflen mx) masks with
  | inl p => inl p
  | inr w => inr (mkCtl w (w_buflen w) 0)
  end.
(* ControlWriter.Write *)
Definition control_write (p : list byte) (c : cwriter) : (wpanic + (N * option werror)) * cwriter :=
  if c_limit c <? c_n c + len p then (inr (0, Some WOverflow), c)
  else
    let '(r, w1) := write p (c_w c) in
    (r, mkCtl w1 (c_limit c) (c_n c + match r with inr (n, _) => n | inl _ => 0 end)).
Definition control_flush (c : cwriter) : (wpanic + option werror) * cwriter :=
  let '(r, w1) := flush (c_w c) in (r, mkCtl w1 (c_limit c) (c_n c)).

(* ------------------------------------------------------------------ SPEC *)
(* parse a byte string into whole frames (header codec of C01); None when the
   bytes do not end on a frame boundary *)
Record pframe := mkPF { pf_header : header; pf_payload : list byte (* as on the wire *) }.
Fixpoint parse_frames (fuel : nat) (bs : list byte) : option (list pframe) :=
  match bs with
  | [] => Some []
  | _ =>
    match fuel with
    | O => None
    | S f =>
      match rfc_parse bs with
      | PComplete h rest =>
        let n := Z.to_N (h_len h) in
        if len rest <? n then None
        else match parse_frames f (drop n rest) with
             | Some fs => Some (mkPF h (take n rest) :: fs)
             | None => None
             end
      | _ => None
      end
    end
  end.

Definition pf_unmasked (f : pframe) : list byte :=
  if h_masked (pf_header f) then mask_spec (pf_payload f) (h_mask (pf_header f)) 0 else pf_payload f.

(* one message = maximal run of frames ending with fin; [op] the configured opcode *)
Fixpoint split_messages (fs : list pframe) (cur : list pframe) : list (list pframe) * list pframe :=
  match fs with
  | [] => ([], rev_append cur [])
  | f :: r =>
    if h_fin (pf_header f) then
      let '(ms, tail) := split_messages r [] in (rev_append (f :: cur) [] :: ms, tail)
    else split_messages r (f :: cur)
  end.

(* frames of one message are well-formed for a writer on [side] with opcode [op]:
   first opcode = op, rest continuation; masked iff client; rsv = 0 except RSV1 on
   the first frame when [compressed] *)
Fixpoint msg_frames_ok (client : bool) (op : N) (compressed : bool) (first : bool) (fs : list pframe) : bool :=
  match fs with
  | [] => true
  | f :: r =>
    let h := pf_header f in
    (h_op h =? (if first then op else 0))
    && Bool.eqb (h_masked h) client
    && (h_rsv h =? (if first && compressed && negb (spec_control op) && negb (op =? 0) then 4 else 0))
    && msg_frames_ok client op compressed false r
  end.

(* ------------------------------------------------------------------ MONITORS *)
Record wstep := mkStep { s_op : wop; s_obs : wobs }.

Definition accepted_of (st : wstep) : option (list byte) :=
  match s_op st with
  | WWrite p => Some (take (o_n (s_obs st)) p)
  | WReadFrom data _ => Some (take (o_n (s_obs st)) data)
  | WWriteThrough p => Some (take (o_n (s_obs st)) p)
  | _ => None
  end.

Definition log_upto (k : N) (log : list (list byte)) : list byte := concat (take k log).
Definition frames_of (bs : list byte) : option (list pframe) := parse_frames (S (length bs)) bs.
Definition msg_payload (m : list pframe) : list byte := concat (map pf_unmasked m).

(* bytes sent form whole frames at every call boundary of the Writer API *)
Fixpoint aligned_at_ops (steps : list wstep) (log : list (list byte)) : bool :=
  match steps with
  | [] => true
  | st :: r =>
    (match frames_of (log_upto (o_calls (s_obs st)) log) with Some _ => true | None => false end)
    && aligned_at_ops r log
  end.

(* walk the history: every final flush closes exactly one message carrying the
   bytes accepted since the previous one; a flush with nothing written emits nothing;
   data that fits the buffer leaves as one frame; with flushing disabled plain
   writes emit nothing *)
Fixpoint walk_history (steps : list wstep) (msgs : list (list pframe))
         (pending : bool) (acc : list byte) (calls_before size_start : N) (plain : bool)
         (noflush : bool) (nf_msg : bool (* flushing was disabled before this message began *))
  : option (list (list pframe) * list byte) :=
  match steps with
  | [] => Some (msgs, acc)
  | st :: r =>
    let o := s_obs st in
    match s_op st with
    | WFlush =>
      if pending then
        match msgs with
        | m :: ms =>
          if bytes_eqb (msg_payload m) acc
             && (if plain && ((len acc <=? size_start) || nf_msg) then len m =? 1 else true)
          then walk_history r ms false [] (o_calls o) (o_size o) true noflush noflush
          else None
        | [] => None
        end
      else if o_calls o =? calls_before then walk_history r msgs false [] (o_calls o) (o_size o) true noflush noflush
      else None
    | WWrite _ =>
      match accepted_of st with
      | Some a =>
        if noflush && negb (o_calls o =? calls_before) then None
        else walk_history r msgs true (acc ++ a) (o_calls o) size_start plain noflush nf_msg
      | None => None
      end
    | WReadFrom _ _ | WWriteThrough _ =>
      match accepted_of st with
      | Some a => walk_history r msgs true (acc ++ a) (o_calls o) size_start false noflush nf_msg
      | None => None
      end
    | WDisableFlush => walk_history r msgs pending acc (o_calls o) size_start plain true (if pending then nf_msg else true)
    | WFlushFragment | WGrow _ => walk_history r msgs pending acc (o_calls o) size_start false noflush nf_msg
    | _ => walk_history r msgs pending acc (o_calls o) size_start plain noflush nf_msg
    end
  end.

Definition last_buffered (steps : list wstep) : N :=
  match rev_append steps [] with st :: _ => o_buffered (s_obs st) | [] => 0 end.

(* C06 (and C13 send side): histories over Write/ReadFrom/WriteThrough/FlushFragment/
   Flush/Grow/DisableFlush with a working destination *)
Definition c06_monitor (client : bool) (op : N) (compressed : bool) (size0 : N)
           (steps : list wstep) (log : list (list byte)) : bool :=
  match frames_of (concat log) with
  | None => false
  | Some fs =>
    let '(msgs, tailf) := split_messages fs [] in
    aligned_at_ops steps log
    && forallb (msg_frames_ok client op compressed true) msgs
    && msg_frames_ok client op compressed true tailf
    && match walk_history steps msgs false [] 0 size0 true false false with
       | Some ([], acc) =>
         (* the open message: frames already sent + what is still buffered *)
         bytes_eqb (msg_payload tailf) (take (len acc - last_buffered steps) acc)
       | _ => false
       end
  end.

(* C16 (write side): after the first failed destination write every later
   Write/WriteThrough/FlushFragment/Flush reports an error and no further
   destination write is attempted; what was delivered before is whole frames *)
Fixpoint after_failure (steps : list wstep) (failed : bool) (calls_at_fail : N) : bool :=
  match steps with
  | [] => true
  | st :: r =>
    let o := s_obs st in
    if failed then
      (o_calls o =? calls_at_fail)
      && (match s_op st with
          | WWrite _ | WWriteThrough _ | WFlushFragment | WFlush =>
            match o_err o with Some _ => true | None => false end
          | _ => true
          end)
      && after_failure r true calls_at_fail
    else
      match o_err o with
      | Some WDest => after_failure r true (o_calls o)
      | _ => after_failure r false 0
      end
  end.
(* what reached the peer is a PREFIX of a frame stream: whole frames followed by
   at most one frame cut short by the failed write — never a hole *)
Fixpoint frames_prefix_ok (fuel : nat) (bs : list byte) : bool :=
  match bs with
  | [] => true
  | _ =>
    match fuel with
    | O => false
    | S f =>
      match rfc_parse bs with
      | PComplete h rest =>
        let n := Z.to_N (h_len h) in
        if len rest <? n then true else frames_prefix_ok f (drop n rest)
      | PIncomplete => true
      | PMsb => false
      end
    end
  end.
Definition c16w_monitor (steps : list wstep) (log : list (list byte)) : bool :=
  after_failure steps false 0
  && frames_prefix_ok (S (length (concat log))) (concat log).

(* C08: whatever is written to a control writer, the destination receives
   nothing or one final frame of at most 125 payload bytes; a write that would
   exceed the limit fails and changes nothing *)
Definition c08_ctl_monitor (client : bool) (op : N) (writes : list (list byte * wobs)) (log : list (list byte)) : bool :=
  match frames_of (concat log) with
  | None => false
  | Some [] => true
  | Some [f] =>
    h_fin (pf_header f) && (len (pf_payload f) <=? 125) && (h_op (pf_header f) =? op)
    && Bool.eqb (h_masked (pf_header f)) client
    && bytes_eqb (pf_unmasked f)
         (concat (map (fun w => match o_err (snd w) with None => fst w | Some _ => [] end) writes))
  | Some _ => false
  end.

(* C18: a reset writer and a fresh one over a buffer of the same size produce
   the same observations and the same destination bytes for the same ops *)
Definition wobs_eqb (a b : wobs) : bool :=
  (o_n a =? o_n b)
  && (match o_err a, o_err b with None, None => true | Some _, Some _ => true | _, _ => false end)
  && (match o_panic a, o_panic b with None, None => true | Some _, Some _ => true | _, _ => false end)
  && (o_buffered a =? o_buffered b) && (o_available a =? o_available b) && (o_size a =? o_size b).
Fixpoint wobs_list_eqb (a b : list wobs) : bool :=
  match a, b with
  | [], [] => true
  | x :: a', y :: b' => wobs_eqb x y && wobs_list_eqb a' b'
  | _, _ => false
  end.
