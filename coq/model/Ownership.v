(* Ownership.v — an explicit heap + pool model of the library's buffer discipline
   (C17: no aliasing of returned data to pooled/internal memory; C19: concurrent
   sessions do not interfere through the shared pools).

   A Gallina value has no address, so aliasing is made explicit: cells live in a
   heap indexed by locations, the pool is a free list of locations, and what leaves
   an API is either an owned copy [Own bytes] or an alias [View loc off len].
   N sessions each execute a program of micro-steps; the global step function picks
   any session (free interleaving).  The concrete semantics does NOT enforce the
   discipline: a register keeps pointing at its buffer after Put (dangling slice), a
   view of a pooled buffer can be returned, a caller's slice can be overwritten.  The
   discipline is the typestate checker [check]; the theorems (OwnershipProofs.v) say
   what follows for every program it accepts, and the transcribed library paths are
   accepted by computation.

   Micro-steps and the Go idioms they transcribe:
     OGet r        pbytes.Get* / pbufio.GetReader/GetWriter / wsutil.GetWriter (stale contents)
     OAlloc r      make([]byte, n), bytes.Buffer, ioutil.ReadAll's buffer
     OArg r b      a slice/string owned by the caller (or by net/http) passed in
     OFill r b     bytes arrive in the buffer (bufio fill, io.ReadFull, header/literal writes)
     OCopy d s     copy(dst, src)
     OMask r k     ws.Cipher(buf, mask, 0) in place
     OScribble r b the CALLER overwrites its own slice (after the call it passed it to)
     OOutCopy r .. string(x), make+copy, httphead.SelectCopy, Parameters.Copy, or the
                   destination io.Writer consuming the bytes during Write
     OOutView r .. btsToString(x) / returning (a sub-slice of) the buffer itself
     OOutLit b     a value that is not buffer memory (caller's own string, package constant)
     OPut r        pbytes.Put / pbufio.Put* / wsutil.PutWriter
     ODrop r       the variable goes out of scope (memory stays with the GC / the result)
   Definitions only. *)
Require Import Bytes.
From Coq Require Import List Bool Arith.
Import ListNotations.
Open Scope nat_scope.

Definition loc := nat.
Definition reg := nat.
Definition sid := nat.
Definition bytes := list byte.

Inductive val := Own (b : bytes) | View (l : loc) (off n : nat).

Inductive op :=
  | OGet (r : reg) | OAlloc (r : reg) | OArg (r : reg) (b : bytes)
  | OFill (r : reg) (b : bytes) | OCopy (rd rs : reg) | OMask (r : reg) (k : bytes)
  | OScribble (r : reg) (b : bytes)
  | OOutCopy (r : reg) (off n : nat) | OOutView (r : reg) (off n : nat) | OOutLit (b : bytes)
  | OPut (r : reg) | ODrop (r : reg).

(* ---------- typestate: the discipline ---------- *)
Inductive kind := KPool | KFresh.
Inductive tstate :=
  | TNone
  | THeld (k : kind) (filled exported : bool)
  | TCaller (b : bytes)        (* a caller-owned slice holding b *)
  | TDead.

Definition upd {A} (f : nat -> A) (k : nat) (v : A) : nat -> A :=
  fun x => if Nat.eqb x k then v else f x.

Definition tfree (t : tstate) : bool := match t with TNone | TDead => true | _ => false end.
Definition live (t : tstate) : bool := match t with THeld _ _ _ | TCaller _ => true | _ => false end.
Definition readable (t : tstate) : bool :=
  match t with THeld _ true _ | TCaller _ => true | _ => false end.
Definition writable (t : tstate) : bool :=
  match t with THeld _ _ false => true | _ => false end.

(* typestate transfer; None = the step violates the discipline *)
Definition tnext (t : reg -> tstate) (o : op) : option (reg -> tstate) :=
  match o with
  | OGet r => if tfree (t r) then Some (upd t r (THeld KPool false false)) else None
  | OAlloc r => if tfree (t r) then Some (upd t r (THeld KFresh false false)) else None
  | OArg r b => if tfree (t r) then Some (upd t r (TCaller b)) else None
  | OFill r _ => match t r with THeld k _ false => Some (upd t r (THeld k true false)) | _ => None end
  | OCopy rd rs =>
      if readable (t rs) && negb (Nat.eqb rd rs) then
        match t rd with THeld k _ false => Some (upd t rd (THeld k true false)) | _ => None end
      else None
  | OMask r _ => match t r with THeld k true false => Some (upd t r (THeld k true false)) | _ => None end
  | OScribble r b => match t r with TCaller _ => Some (upd t r (TCaller b)) | _ => None end
  | OOutCopy r _ _ => if readable (t r) then Some (upd t r (t r)) else None
  | OOutView r _ _ => match t r with THeld KFresh true _ => Some (upd t r (THeld KFresh true true)) | _ => None end
  | OOutLit _ => Some t
  | OPut r => match t r with THeld KPool _ false => Some (upd t r TDead) | _ => None end
  | ODrop r =>
      match t r with
      | THeld k f true => Some (upd t r (THeld k f true))   (* an exported buffer now belongs to the result *)
      | THeld _ _ false | TCaller _ => Some (upd t r TDead)
      | _ => None
      end
  end.

Fixpoint check (t : reg -> tstate) (code : list op) : bool :=
  match code with
  | [] => true
  | o :: rest => match tnext t o with Some t' => check t' rest | None => false end
  end.

Definition t0 : reg -> tstate := fun _ => TNone.
Definition disciplined (code : list op) : bool := check t0 code.

(* ---------- concrete machine ---------- *)
Record sstate := mkS {
  s_code : list op;
  s_regs : reg -> option loc;
  s_ts : reg -> tstate;           (* ghost: typestate, never consulted by the semantics *)
  s_out : list val
}.

Record gstate := mkG {
  g_heap : loc -> bytes;
  g_free : list loc;              (* the pool *)
  g_next : loc;                   (* allocation frontier *)
  g_sess : sid -> sstate
}.

Definition sub (b : bytes) (off n : nat) : bytes := firstn n (skipn off b).

Fixpoint xor_cyc (k kk : bytes) (b : bytes) : bytes :=
  match b with
  | [] => []
  | x :: b' => match kk with
               | [] => match k with
                       | [] => x :: b'
                       | k0 :: k' => N.lxor x k0 :: xor_cyc k k' b'
                       end
               | k0 :: k' => N.lxor x k0 :: xor_cyc k k' b'
               end
  end.
Definition xor_key (k b : bytes) : bytes := xor_cyc k k b.

Definition read_val (h : loc -> bytes) (v : val) : bytes :=
  match v with Own b => b | View l off n => sub (h l) off n end.

Definition ghost (t : reg -> tstate) (o : op) : reg -> tstate :=
  match tnext t o with Some t' => t' | None => t end.

Definition mem_loc (l : loc) (ls : list loc) : bool := existsb (Nat.eqb l) ls.
Definition remove_loc (l : loc) (ls : list loc) : list loc := filter (fun x => negb (Nat.eqb x l)) ls.

Definition label := (sid * option loc)%type.   (* who steps; which pooled buffer a Get receives *)

Definition with_reg (s : sstate) (r : reg) (f : loc -> option gstate) : option gstate :=
  match s_regs s r with Some l => f l | None => None end.

Definition step (st : gstate) (lab : label) : option gstate :=
  let (i, c) := lab in
  let s := g_sess st i in
  match s_code s with
  | [] => None
  | o :: rest =>
    let ts' := ghost (s_ts s) o in
    let fin regs out heap free next :=
      Some (mkG heap free next (upd (g_sess st) i (mkS rest regs ts' out))) in
    match o with
    | OGet r =>
        match c with
        | Some l => if mem_loc l (g_free st)
                    then fin (upd (s_regs s) r (Some l)) (s_out s) (g_heap st) (remove_loc l (g_free st)) (g_next st)
                    else None
        | None => fin (upd (s_regs s) r (Some (g_next st))) (s_out s) (g_heap st) (g_free st) (S (g_next st))
        end
    | OAlloc r =>
        fin (upd (s_regs s) r (Some (g_next st))) (s_out s) (g_heap st) (g_free st) (S (g_next st))
    | OArg r b =>
        fin (upd (s_regs s) r (Some (g_next st))) (s_out s) (upd (g_heap st) (g_next st) b) (g_free st) (S (g_next st))
    | OFill r b =>
        with_reg s r (fun l => fin (s_regs s) (s_out s) (upd (g_heap st) l b) (g_free st) (g_next st))
    | OCopy rd rs =>
        with_reg s rd (fun ld => with_reg s rs (fun ls =>
          fin (s_regs s) (s_out s) (upd (g_heap st) ld (g_heap st ls)) (g_free st) (g_next st)))
    | OMask r k =>
        with_reg s r (fun l => fin (s_regs s) (s_out s) (upd (g_heap st) l (xor_key k (g_heap st l))) (g_free st) (g_next st))
    | OScribble r b =>
        with_reg s r (fun l => fin (s_regs s) (s_out s) (upd (g_heap st) l b) (g_free st) (g_next st))
    | OOutCopy r off n =>
        with_reg s r (fun l => fin (s_regs s) (s_out s ++ [Own (sub (g_heap st l) off n)]) (g_heap st) (g_free st) (g_next st))
    | OOutView r off n =>
        with_reg s r (fun l => fin (s_regs s) (s_out s ++ [View l off n]) (g_heap st) (g_free st) (g_next st))
    | OOutLit b =>
        fin (s_regs s) (s_out s ++ [Own b]) (g_heap st) (g_free st) (g_next st)
    | OPut r =>
        (* the register keeps pointing at the buffer: a dangling slice *)
        with_reg s r (fun l => fin (s_regs s) (s_out s) (g_heap st) (l :: g_free st) (g_next st))
    | ODrop r =>
        with_reg s r (fun l => fin (s_regs s) (s_out s) (g_heap st) (g_free st) (g_next st))
    end
  end.

(* what a session's results read as, now *)
Definition transcript (st : gstate) (i : sid) : list bytes :=
  map (read_val (g_heap st)) (s_out (g_sess st i)).

(* the location the next step of session i reads or writes *)
Definition access (st : gstate) (i : sid) : list loc :=
  let s := g_sess st i in
  let of r := match s_regs s r with Some l => [l] | None => [] end in
  match s_code s with
  | [] => []
  | o :: _ =>
    match o with
    | OFill r _ | OMask r _ | OScribble r _ | OOutCopy r _ _ | OOutView r _ _ | OPut r | ODrop r => of r
    | OCopy rd rs => of rd ++ of rs
    | OGet _ | OAlloc _ | OArg _ _ | OOutLit _ => []
    end
  end.

Definition empty_sess (code : list op) : sstate := mkS code (fun _ => None) t0 [].
Definition ginit (progs : sid -> list op) : gstate :=
  mkG (fun _ => []) [] 0 (fun i => empty_sess (progs i)).

(* ---------- a session alone, without any heap: the abstract machine ---------- *)
Record astate := mkA {
  a_code : list op;
  a_ts : reg -> tstate;
  a_cont : reg -> bytes;          (* contents of the buffer a register holds *)
  a_out : list bytes
}.

Definition astep (a : astate) : option astate :=
  match a_code a with
  | [] => None
  | o :: rest =>
    let ts' := ghost (a_ts a) o in
    match o with
    | OGet _ | OAlloc _ | OPut _ | ODrop _ => Some (mkA rest ts' (a_cont a) (a_out a))
    | OArg r b | OFill r b | OScribble r b => Some (mkA rest ts' (upd (a_cont a) r b) (a_out a))
    | OCopy rd rs => Some (mkA rest ts' (upd (a_cont a) rd (a_cont a rs)) (a_out a))
    | OMask r k => Some (mkA rest ts' (upd (a_cont a) r (xor_key k (a_cont a r))) (a_out a))
    | OOutCopy r off n | OOutView r off n => Some (mkA rest ts' (a_cont a) (a_out a ++ [sub (a_cont a r) off n]))
    | OOutLit b => Some (mkA rest ts' (a_cont a) (a_out a ++ [b]))
    end
  end.

Fixpoint arun (n : nat) (a : astate) : option astate :=
  match n with
  | O => Some a
  | S n' => match astep a with Some a' => arun n' a' | None => None end
  end.

Definition ainit (code : list op) : astate := mkA code t0 (fun _ => []) [].

(* the results of running a whole program alone *)
Definition solo_transcript (code : list op) : option (list bytes) :=
  match arun (length code) (ainit code) with Some a => Some (a_out a) | None => None end.

(* ---------- deterministic drivers (for the checker and for witnesses) ---------- *)
Fixpoint grun (st : gstate) (sched : list label) : option gstate :=
  match sched with
  | [] => Some st
  | lab :: rest => match step st lab with Some st' => grun st' rest | None => None end
  end.

(* run session i's whole program, every Get taking the pool's head when there is one *)
Fixpoint run_session (fuel : nat) (st : gstate) (i : sid) : gstate :=
  match fuel with
  | O => st
  | S f =>
    match s_code (g_sess st i) with
    | [] => st
    | _ => match step st (i, match g_free st with l :: _ => Some l | [] => None end) with
           | Some st' => run_session f st' i
           | None => match step st (i, None) with Some st' => run_session f st' i | None => st end
           end
    end
  end.

(* the poison-and-recheck experiment in the model: session 0 runs the path under test,
   then session 1 (another user of the pools) recycles buffers and overwrites them with
   the poison byte; returns session 0's transcript before and after *)
Definition poison_prog (nbuf size : nat) (p : byte) : list op :=
  flat_map (fun r => [OGet r; OFill r (repeat p size)]) (seq 0 nbuf) ++
  map OPut (seq 0 nbuf).

Definition poison_experiment (path : list op) (nbuf size : nat) (p : byte) : list bytes * list bytes :=
  let progs := fun i => match i with 0 => path | 1 => poison_prog nbuf size p | _ => [] end in
  let st1 := run_session (S (length path)) (ginit progs) 0 in
  let st2 := run_session (S (length (poison_prog nbuf size p))) st1 1 in
  (transcript st1 0, transcript st2 0).

(* ---------- the library paths, transcribed ---------- *)
(* registers: 0 = bufio reader / payload buffer, 1 = bufio writer, 2.. = temporaries *)

(* what a handshake hands back, piece by piece: copied out of the buffer, or not buffer memory *)
Inductive item := ICopy (off n : nat) | ILit (b : bytes).
Definition item_op (r : reg) (it : item) : op :=
  match it with ICopy off n => OOutCopy r off n | ILit b => OOutLit b end.

(* server.go Upgrader.Upgrade: br, bw from pbufio; request bytes arrive in br; the selected
   subprotocol is string(selected) (http.go btsSelectProtocol), extensions chosen by the
   deprecated Extension callback are copied by httphead.SelectCopy (name and every parameter),
   an option accepted through Negotiate (wsflate.Extension) is built from package constants
   (Parameters.Option); the response goes through bw; deferred PutWriter, PutReader *)
Definition path_upgrade (req : bytes) (items : list item) (resp : bytes) : list op :=
  [OGet 0; OGet 1; OFill 0 req] ++ map (item_op 0) items ++
  [OFill 1 resp; OOutCopy 1 0 (length resp); OPut 1; OPut 0].

(* HTTPUpgrader: the header values are net/http's strings (strToBytes view of a GC string);
   strSelectProtocol returns string(v); extensions through SelectCopy *)
Definition path_httpupgrade (hdr : bytes) (items : list item) : list op :=
  [OArg 0 hdr] ++ map (item_op 0) items ++ [ODrop 0].

(* dialer.go Dialer.Upgrade: the protocol is the caller's own string; for extensions
   matchSelectedExtensions keeps the caller's Name and copies the parameters out of the
   response buffer (Parameters.Copy into a made slice) *)
Definition path_dial (req resp : bytes) (items : list item) : list op :=
  [OGet 0; OGet 1; OFill 1 req; OOutCopy 1 0 (length req); OFill 0 resp] ++
  map (item_op 0) items ++ [OPut 1; OPut 0].

(* wsutil ControlHandler.HandleClose: p := pbytes.GetLen; io.ReadFull into p;
   ws.ParseCloseFrameData copies the reason (string(payload[2:])); the echo is written; Put *)
Definition path_handle_close (payload : bytes) : list op :=
  [OGet 0; OFill 0 payload; OOutCopy 0 2 (length payload - 2); OOutCopy 0 0 2; OPut 0].

(* wsutil.ReadMessage / ReadData: the payload is read into a slice made for it
   (make / bytes.Buffer / ioutil.ReadAll) which is returned itself *)
Definition path_read_message_at (r : reg) (payload : bytes) : list op :=
  [OAlloc r; OFill r payload; OOutView r 0 (length payload); ODrop r].
Definition path_read_message (payload : bytes) : list op := path_read_message_at 0 payload.

(* NOT a library-owned path — the documented-unsafe variant, kept as the positive control of
   the experiment: ParseCloseFrameDataUnsafe on a pooled buffer *)
Definition path_close_unsafe (payload : bytes) : list op :=
  [OGet 0; OFill 0 payload; OOutView 0 2 (length payload - 2); OPut 0].

(* wsutil.writeFrame / Writer.WriteThrough, client side: payload := pbytes.GetLen; copy;
   MaskFrameInPlace on the copy; WriteFrame (header, payload) to dest; Put *)
Definition path_write_client (p hdr key : bytes) : list op :=
  [OArg 0 p; OGet 2; OCopy 2 0; OMask 2 key; OOutLit hdr; OOutCopy 2 0 (length p); OPut 2; ODrop 0].
(* server side: the caller's slice goes to dest.Write directly *)
Definition path_write_server (p hdr : bytes) : list op :=
  [OArg 0 p; OOutLit hdr; OOutCopy 0 0 (length p); ODrop 0].
(* wsutil.CipherWriter.Write: cp := pbytes.GetLen; copy; Cipher; w.Write(cp); Put *)
Definition path_cipher_writer (p key : bytes) : list op :=
  [OArg 0 p; OGet 2; OCopy 2 0; OMask 2 key; OOutCopy 2 0 (length p); OPut 2; ODrop 0].
(* ws.MaskFrame / MaskFrameWith / UnmaskFrame: p := make; copy; cipher; the new slice is returned *)
Definition path_mask_frame (p key : bytes) : list op :=
  [OArg 0 p; OAlloc 2; OCopy 2 0; OMask 2 key; OOutView 2 0 (length p); ODrop 2; ODrop 0].
(* wsutil.Writer.Write then the caller reuses its slice, then Flush: Write copies into the
   writer's buffer (3), Flush masks (client) and writes the buffer *)
Definition path_writer_write_flush (p junk hdr key : bytes) (client : bool) : list op :=
  [OAlloc 3; OArg 0 p; OCopy 3 0; OScribble 0 junk] ++
  (if client then [OMask 3 key] else []) ++ [OOutLit hdr; OOutCopy 3 0 (length p); ODrop 0; ODrop 3].

(* the property's monitor on an observation of the Go code: what was read before equals what
   is read after the recycling *)
Fixpoint bytes_list_eqb (a b : list bytes) : bool :=
  match a, b with
  | [], [] => true
  | x :: a', y :: b' => bytes_eqb x y && bytes_list_eqb a' b'
  | _, _ => false
  end.
Definition c17_stable_monitor (before after : list bytes) : bool := bytes_list_eqb before after.
