(* WriterRF.v — Writer histories that also contain ReadFrom from a FAILING source
   (an io.Reader that delivers its bytes, in any chunking, and then returns an error
   other than io.EOF).  A wrapper around the history type of Writer.v; the runner
   reuses run_wops for the plain operations.  Definitions only. *)
Require Import Bytes Stream Check Frame Cipher Extracted Writer.
Open Scope N_scope.

Inductive wopx :=
  | XOp (o : wop)
  | XReadFromFail (data : list byte) (sizes : list N).

(* [data] cut as by [sizes] (Stream.chunk_by), then the failure *)
Definition fail_src (data : list byte) (sizes : list N) : src := mkSrc (chunk_by sizes data) TFail.

(* as run_wops: one observation per operation, the run stops at a panic *)
Fixpoint run_wopsx (ops : list wopx) (w : writer) : list wobs * writer :=
  match ops with
  | [] => ([], w)
  | XOp o :: rest =>
    match run_wops [o] w with
    | ([ob], w1) =>
      match o_panic ob with
      | Some _ => ([ob], w1)
      | None => let '(os, w2) := run_wopsx rest w1 in (ob :: os, w2)
      end
    | r => r
    end
  | XReadFromFail data sizes :: rest =>
    let '(r, w1, _) := read_from (fail_src data sizes) w in
    match r with
    | inl pn => ([observe 0 None (Some pn) w1], w1)
    | inr (n, e) => let '(os, w2) := run_wopsx rest w1 in (observe n e None w1 :: os, w2)
    end
  end.

(* the same history with every failing source replaced by one that ends with io.EOF
   after the same bytes in the same chunking *)
Definition as_eof (o : wopx) : wop :=
  match o with XOp o => o | XReadFromFail data sizes => WReadFrom data sizes end.

(* the observations with the reported error blanked: the history monitors of C06 judge
   counts, sizes and destination calls, never the error value *)
Definition noerr (o : wobs) : wobs :=
  mkWO (o_n o) None (o_panic o) (o_buffered o) (o_available o) (o_size o) (o_calls o).
