(* ReaderStreamC13.v — vocabulary for the stream-level statements of C13 (receive
   side) and C18 (reader clause): one data message whose first frame carries
   reserved bits, a frame list with the reserved bits of ONE frame replaced, the
   interleaved control events with the message's compressed flag, the frames that
   follow the first complete message, and the Reader that a constructor would
   build around a given wsflate.MessageState.  Definitions only. *)
Require Import Bytes Stream Utf8Spec Check Frame Cipher Utf8Dfa Extracted Reader ReaderStream.
Open Scope N_scope.

(* ------------------------------------------------------------------ one data message, RSV bits on its first frame *)
(* [msg_frames] of ReaderStream.v with the reserved bits [rsv0] (RSV1 = 4, RSV2 = 2,
   RSV3 = 1) on the FIRST frame; every other frame (continuations, interleaved
   control frames as given in [l]) is as there *)
Definition msg_frames_rsv (rsv0 op : N) (k0 : option (list byte)) (p0 : list byte) (l : list frag) : list sframe :=
  mkSF (match l with [] => true | _ => false end) rsv0 op k0 p0 :: cont_frames l.

(* the RSV1 bit of a 3-bit reserved field *)
Definition rsv1_bit (rsv : N) : bool := negb (N.land rsv 4 =? 0).

(* the interleaved control frames as the callback sees them while the
   MessageState flag is [b] *)
Definition msg_ctl_events_c (b : bool) (l : list frag) : list event :=
  map (fun f => mkEv (sf_op f) (sf_payload f) true b) (concat (map fr_ctl l)).
(* the same for an arbitrary piece of a message: its control frames, in order *)
Definition inter_events (b : bool) (fs : list sframe) : list event :=
  map (fun f => mkEv (sf_op f) (sf_payload f) true b) (filter (fun f => spec_control (sf_op f)) fs).

(* ------------------------------------------------------------------ one frame with other reserved bits *)
Definition set_rsv (r : N) (f : sframe) : sframe :=
  mkSF (sf_fin f) r (sf_op f) (sf_key f) (sf_payload f).
(* the frame list with the reserved bits of frame number [i] (from 0) replaced by [r] *)
Fixpoint set_rsv_at (i : nat) (r : N) (fs : list sframe) {struct fs} : list sframe :=
  match fs with
  | [] => []
  | f :: t => match i with O => set_rsv r f :: t | S j => f :: set_rsv_at j r t end
  end.

(* ------------------------------------------------------------------ C18: what follows the current message *)
(* the frames after the first final data frame (control frames do not end a message) *)
Fixpoint after_msg (fs : list sframe) : list sframe :=
  match fs with
  | [] => []
  | f :: t => if spec_control (sf_op f) then after_msg t else if sf_fin f then t else after_msg t
  end.

(* wsutil.Reader{Source: s, State: state, SkipHeaderCheck: skip, CheckUTF8: chk,
   MaxFrameSize: max, OnIntermediate: cb, Extensions: [ms]} where [ms] is a
   *wsflate.MessageState whose flag currently is [flag] (the MessageState is an
   object of its own: a Reader built anew may be handed the one already in use);
   without extension the model keeps the field at false *)
Definition new_reader_ms (s : src) (state : N) (skip chk : bool) (max : Z) (ext : bool) (cb : cbkind)
           (flag : bool) : reader :=
  mkR s state skip chk max ext flag cb 0 false 0 false zero_mask 0 false 0 0 [].

(* the Reader is where reset() leaves it and no message is open: every per-message
   field has its initial value *)
Definition at_rest (r : reader) : Prop := reset r = r /\ st_fragmented (r_state r) = false.

(* the freshly constructed Reader with the configuration, source and MessageState of [r] *)
Definition fresh_of (r : reader) : reader :=
  new_reader_ms (r_src r) (r_state r) (r_skip r) (r_check_utf8 r) (r_max r) (r_ext r) (r_cb r) (r_compressed r).

(* a drive result with [pre] put in front of its events (what the Reader had logged before) *)
Definition with_events_before (pre : list event) (d : drive_result) : drive_result :=
  mkDR (pre ++ dr_events d) (dr_partial d) (dr_err d).

(* the observable state after a script: what a caller can still ask the Reader and
   its MessageState for — the compressed flag and what OnIntermediate recorded *)
Definition flag_and_log (r : reader) : bool * list event := (r_compressed r, r_log r).

(* the frames after the FIRST message of a frame list (a control frame standing
   alone is a message of its own) *)
Definition after_first (fs : list sframe) : list sframe :=
  match fs with
  | [] => []
  | f :: t => if sf_fin f then t else after_msg t
  end.

(* C18, what "reads the next message exactly as a new reader would" means for a
   Reader [r2] of configuration [c] (header checks on, recording OnIntermediate)
   when the frames [rest] are still to come and its MessageState flag is [flag]:
   - its source holds exactly the wire bytes of [rest];
   - it is at rest, and the Reader a constructor builds over its source,
     configuration and MessageState is the one written out below;
   - the NextFrame / read-to-EOF loop from it, with ANY caller buffers and fuel,
     gives the result that loop gives from the new Reader: same messages and
     interleaved control events (flags included), same leftover bytes, same final
     error — after the events [r2] had logged before;
   - EVERY sequence of NextFrame / Read / Discard calls returns from it what it
     returns from a Reader built by [new_reader] (fresh MessageState). *)
Definition reads_on_as_new (c : rcfg) (rest : list sframe) (flag : bool) (r2 : reader) : Prop :=
  let fresh := new_reader_ms (r_src r2) (c_state c) false (c_check_utf8 c) (c_max c) (c_ext c) CbReadAll flag in
  wf_src (r_src r2) /\ tl (r_src r2) = TEOF /\ flat (r_src r2) = wire rest /\
  at_rest r2 /\ r_compressed r2 = flag /\ fresh_of r2 = fresh /\
  (forall fuel bufs, drive fuel bufs r2 = with_events_before (r_log r2) (drive fuel bufs fresh)) /\
  (forall ops, fst (run_script ops r2) =
               fst (run_script ops (new_reader (r_src r2) (c_state c) false (c_check_utf8 c) (c_max c) (c_ext c) CbReadAll))).
