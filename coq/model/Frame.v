(* Frame.v — transcription of write.go (HeaderSize, WriteHeader, WriteFrame),
   read.go (ReadHeader, ReadFrame), frame.go (CompileFrame) and the textual
   duplicate wsutil/reader.go:readHeader; plus the RFC 6455 §5.2 layout SPEC.
   Definitions only. *)
Require Import Bytes Stream Check.
Open Scope N_scope.

(* ---------- SPEC: RFC 6455 §5.2 ---------- *)
Definition b2n (b : bool) : N := if b then 1 else 0.

Definition rfc_len_form (l : Z) : N * list byte :=
  if (l <=? 125)%Z then (Z.to_N l, [])
  else if (l <=? 65535)%Z then (126, be_bytes 2 (Z.to_N l))
  else (127, be_bytes 8 (Z.to_N l)).

Definition rfc_header (h : header) : list byte :=
  let '(l7, ext) := rfc_len_form (h_len h) in
  [128 * b2n (h_fin h) + 16 * h_rsv h + h_op h; 128 * b2n (h_masked h) + l7]
  ++ ext ++ (if h_masked h then h_mask h else []).

Definition zero_mask : list byte := [0; 0; 0; 0].
(* the header as the decoders return it: Mask is the zero array when unmasked *)
Definition norm_header (h : header) : header :=
  mkHeader (h_fin h) (h_rsv h) (h_op h) (h_masked h)
           (if h_masked h then h_mask h else zero_mask) (h_len h).

Inductive parse_result :=
  | PComplete (h : header) (rest : list byte)
  | PIncomplete
  | PMsb.

(* inverse relation on ARBITRARY byte strings (minimal or not) *)
Definition rfc_parse_tail (fin : bool) (rsv op : N) (masked : bool) (l7 extn : N) (r : list byte)
  : parse_result :=
  let need := extn + (if masked then 4 else 0) in
  if len r <? need then PIncomplete
  else
    let ext := take extn r in
    if (l7 =? 127) && (128 <=? nthb ext 0) then PMsb
    else
      let l := if l7 <? 126 then l7 else be_val ext in
      let mask := if masked then take 4 (drop extn r) else zero_mask in
      PComplete (mkHeader fin rsv op masked mask (Z.of_N l)) (drop need r).
Definition extn_of (l7 : N) : N := if l7 =? 126 then 2 else if l7 =? 127 then 8 else 0.
Definition rfc_parse (bs : list byte) : parse_result :=
  match bs with
  | b0 :: b1 :: r =>
    rfc_parse_tail (128 <=? b0) ((b0 / 16) mod 8) (b0 mod 16) (128 <=? b1) (b1 mod 128)
                   (extn_of (b1 mod 128)) r
  | _ => PIncomplete
  end.

(* ---------- MODEL: write.go ---------- *)
Inductive werr := WErrLength.

(* HeaderSize; -1 for malformed *)
Definition header_size (h : header) : Z :=
  let n := if (h_len h <? 126)%Z then Some 2%Z
           else if (h_len h <=? 65535)%Z then Some 4%Z
           else if (h_len h <=? 9223372036854775807)%Z then Some 10%Z else None in
  match n with
  | None => (-1)%Z
  | Some n => if h_masked h then (n + 4)%Z else n
  end.

Definition byte_of_z (z : Z) : byte := Z.to_N (z mod 256).

(* WriteHeader: the bytes passed to the single w.Write call *)
Definition write_header (h : header) : werr + list byte :=
  let b0 := N.lor (N.lor (if h_fin h then 128 else 0) (N.shiftl (h_rsv h) 4 mod 256)) (h_op h) in
  let body :=
    if (h_len h <=? 125)%Z then Some (byte_of_z (h_len h), [])
    else if (h_len h <=? 65535)%Z then Some (126, be_bytes 2 (Z.to_N (h_len h mod 65536)))
    else if (h_len h <=? 9223372036854775807)%Z then Some (127, be_bytes 8 (Z.to_N (h_len h mod 18446744073709551616)))
    else None in
  match body with
  | None => inl WErrLength
  | Some (b1, ext) =>
    let b1' := if h_masked h then N.lor b1 128 else b1 in
    inr ([b0; b1'] ++ ext ++ (if h_masked h then firstn 4 (h_mask h) else []))
  end.

(* ---------- MODEL: read.go ReadHeader ---------- *)
Inductive herr := HIo (e : rerr) | HMsb | HLenUnexpected.

Definition parse_first2 (b0 b1 : byte) : header * N (* length7 *) * N (* extra *) :=
  let fin := negb (N.land b0 128 =? 0) in
  let rsv := N.shiftr (N.land b0 112) 4 in
  let op := N.land b0 15 in
  let masked := negb (N.land b1 128 =? 0) in
  let l7 := N.land b1 127 in
  let extra := (if masked then 4 else 0) + (if l7 =? 126 then 2 else if l7 =? 127 then 8 else 0) in
  (mkHeader fin rsv op masked zero_mask (if l7 <? 126 then Z.of_N l7 else 0%Z), l7, extra).

Definition read_header (s : src) : (herr + header) * src :=
  let '((b, e), s1) := read_full 2 s in
  match e with
  | Some e => (inl (HIo e), s1)
  | None =>
    let '(h, l7, extra) := parse_first2 (nthb b 0) (nthb b 1) in
    if extra =? 0 then (inr h, s1)
    else
      let '((x, e2), s2) := read_full extra s1 in
      match e2 with
      | Some e2 => (inl (HIo e2), s2)
      | None =>
        if (l7 =? 127) && negb (N.land (nthb x 0) 128 =? 0) then (inl HMsb, s2)
        else
          let '(l, x') :=
            if l7 =? 126 then (Z.of_N (be_val (take 2 x)), drop 2 x)
            else if l7 =? 127 then (Z.of_N (be_val (take 8 x)), drop 8 x)
            else (h_len h, x) in
          let mask := if h_masked h then take 4 x' else zero_mask in
          (inr (mkHeader (h_fin h) (h_rsv h) (h_op h) (h_masked h) mask l), s2)
      end
  end.

(* wsutil/reader.go: Reader.readHeader — a textual duplicate in the source,
   transcribed separately so that an edit of one copy only shows up as a
   disagreement. *)
Definition reader_read_header (s : src) : (herr + header) * src :=
  let '((b, e), s1) := read_full 2 s in
  match e with
  | Some e => (inl (HIo e), s1)
  | None =>
    let '(h, l7, extra) := parse_first2 (nthb b 0) (nthb b 1) in
    if extra =? 0 then (inr h, s1)
    else
      let '((x, e2), s2) := read_full extra s1 in
      match e2 with
      | Some e2 => (inl (HIo e2), s2)
      | None =>
        if (l7 =? 127) && negb (N.land (nthb x 0) 128 =? 0) then (inl HMsb, s2)
        else
          let '(l, x') :=
            if l7 =? 126 then (Z.of_N (be_val (take 2 x)), drop 2 x)
            else if l7 =? 127 then (Z.of_N (be_val (take 8 x)), drop 8 x)
            else (h_len h, x) in
          let mask := if h_masked h then take 4 x' else zero_mask in
          (inr (mkHeader (h_fin h) (h_rsv h) (h_op h) (h_masked h) mask l), s2)
      end
  end.

(* ---------- frames ---------- *)
Record frame := mkFrame { f_header : header; f_payload : list byte }.

(* WriteFrame: two destination writes (header, payload); CompileFrame = their concatenation *)
Definition write_frame (f : frame) : werr + list (list byte) :=
  match write_header (f_header f) with
  | inl e => inl e
  | inr hb => inr [hb; f_payload f]
  end.
Definition compile_frame (f : frame) : werr + list byte :=
  match write_frame f with inl e => inl e | inr ws => inr (concat ws) end.

(* ReadFrame: header, then exactly Length payload bytes *)
Definition read_frame (s : src) : (herr + frame) * src :=
  let '(r, s1) := read_header s in
  match r with
  | inl e => (inl e, s1)
  | inr h =>
    if (0 <? h_len h)%Z then
      let '((p, e), s2) := read_full (Z.to_N (h_len h)) s1 in
      match e with
      | Some e => (inl (HIo e), s2)
      | None => (inr (mkFrame h p), s2)
      end
    else (inr (mkFrame h []), s1)
  end.

(* header well-formedness of the property's quantifier *)
Definition wf_header (h : header) : Prop :=
  h_rsv h < 8 /\ h_op h < 16 /\ (0 <= h_len h <= 9223372036854775807)%Z /\
  length (h_mask h) = 4%nat /\ wf_bytes (h_mask h).
Definition wf_headerb (h : header) : bool :=
  (h_rsv h <? 8) && (h_op h <? 16) && (0 <=? h_len h)%Z && (h_len h <=? 9223372036854775807)%Z
  && (len (h_mask h) =? 4) && wf_bytesb (h_mask h).

Definition header_eqb (a b : header) : bool :=
  Bool.eqb (h_fin a) (h_fin b) && (h_rsv a =? h_rsv b) && (h_op a =? h_op b)
  && Bool.eqb (h_masked a) (h_masked b) && bytes_eqb (h_mask a) (h_mask b) && (h_len a =? h_len b)%Z.

(* MONITORS on Go observations *)
(* encoder: bytes written, reported size *)
Definition c01_enc_monitor (h : header) (out : list byte) (size : Z) : bool :=
  bytes_eqb out (rfc_header h) && (size =? Z.of_N (len out))%Z.
(* decoder on arbitrary bytes: outcome class 0 = ok, 1 = io error, 2 = msb, 3 = other;
   consumed = bytes taken from the source *)
Definition c01_dec_monitor (bs : list byte) (cls : N) (h : header) (consumed : N) : bool :=
  match rfc_parse bs with
  | PComplete h' rest => (cls =? 0) && header_eqb h h' && (consumed + len rest =? len bs)
  | PIncomplete => cls =? 1
  | PMsb => cls =? 2
  end.
