(* HsHttp.v — transcription of the HTTP helpers of gobwas/ws used by both handshakes:
   util.go (asciiToInt, pow, bsplit3, btrim, canonicalizeHeaderKey, btsHasToken),
   http.go (httpParseVersion / RequestLine / ResponseLine / HeaderLine, selectors,
   negotiateExtensions, response and request writers), nonce.go (accept value),
   bytes.EqualFold against the fixed ASCII words the code compares with.
   Definitions only. *)
Require Import Bytes HsBase64 HsSha1 HsHttpHead.
From Coq Require Import String Ascii.
Open Scope N_scope.

(* string literals as byte lists *)
Fixpoint bs (s : string) : list byte :=
  match s with
  | EmptyString => []
  | String a r => N_of_ascii a :: bs r
  end.
Definition crlf : list byte := [13; 10].

(* ---------- Go int: 64-bit two's complement ---------- *)
Definition wrap64 (z : Z) : Z := ((z + 9223372036854775808) mod 18446744073709551616 - 9223372036854775808)%Z.
Definition max_int : Z := 9223372036854775807%Z.

(* util.go: pow (square-and-multiply; the loop runs over the bits of b, low bit first) *)
Fixpoint pow64_pos (a p : Z) (b : positive) : Z :=
  match b with
  | xH => wrap64 (p * a)
  | xO b' => pow64_pos (wrap64 (a * a)) p b'
  | xI b' => pow64_pos (wrap64 (a * a)) (wrap64 (p * a)) b'
  end.
Definition pow64 (a : Z) (b : N) : Z :=
  match b with N0 => 1%Z | Npos p => pow64_pos a 1 p end.

(* util.go: asciiToInt as it was before fix F4a: any byte 0x30..0x3f counts as a digit
   0..15, the sum wraps around.  Kept for the refutation lemma and the regression kind. *)
Fixpoint ascii_to_int_wrap_loop (l : list byte) (ret : Z) : option Z :=
  match l with
  | [] => Some ret
  | c :: r =>
      if N.land c 240 =? 48
      then ascii_to_int_wrap_loop r (wrap64 (ret + wrap64 (Z.of_N (N.land c 15) * pow64 10 (len r))))
      else None
  end.
Definition ascii_to_int_wrap (l : list byte) : option Z :=
  match l with [] => None | _ => ascii_to_int_wrap_loop l 0 end.

(* util.go: asciiToInt after fix F4a: decimal digits only, overflow is an error *)
Fixpoint ascii_to_int_loop (l : list byte) (ret : Z) : option Z :=
  match l with
  | [] => Some ret
  | c :: r =>
      if (48 <=? c) && (c <=? 57) then
        let d := Z.of_N (c - 48) in
        if ((max_int - d) / 10 <? ret)%Z then None
        else ascii_to_int_loop r (ret * 10 + d)%Z
      else None
  end.
Definition ascii_to_int (l : list byte) : option Z :=
  match l with [] => None | _ => ascii_to_int_loop l 0 end.

(* bytes.IndexByte as a split *)
Fixpoint split_byte (c : byte) (l : list byte) : option (list byte * list byte) :=
  match l with
  | [] => None
  | b :: r =>
      if b =? c then Some ([], r)
      else match split_byte c r with
           | Some (x, y) => Some (b :: x, y)
           | None => None
           end
  end.

(* util.go: bsplit3 *)
Definition bsplit3 (l : list byte) (sep : byte) : list byte * list byte * list byte :=
  match split_byte sep l with
  | None => (l, [], [])
  | Some (x, r) =>
      match split_byte sep r with
      | None => (l, [], [])
      | Some (y, z) => (x, y, z)
      end
  end.

(* util.go: btrim (SP and HT on both sides) *)
Definition is_blank (c : byte) : bool := (c =? 32) || (c =? 9).
Fixpoint drop_blank (l : list byte) : list byte :=
  match l with
  | c :: r => if is_blank c then drop_blank r else l
  | [] => []
  end.
Definition btrim (l : list byte) : list byte := rev (drop_blank (rev (drop_blank l))).

(* util.go: canonicalizeHeaderKey *)
Fixpoint canon_key (upper : bool) (k : list byte) : list byte :=
  match k with
  | [] => []
  | c :: r =>
      (if upper && (97 <=? c) && (c <=? 122) then c - 32
       else if negb upper && (65 <=? c) && (c <=? 90) then c + 32
       else c) :: canon_key (c =? 45) r
  end.
Definition canonicalize (k : list byte) : list byte := canon_key true k.

(* bytes.EqualFold(v, w) / strings.EqualFold for a fixed word w of lower-case ASCII
   letters: ASCII case-insensitive equality, plus the two non-ASCII runes whose simple
   case folding is an ASCII letter: U+212A KELVIN SIGN (e2 84 aa) ~ k, U+017F LATIN SMALL
   LETTER LONG S (c5 bf) ~ s.  (Go folds by Unicode simple case folding.) *)
Fixpoint equal_fold_word (v w : list byte) : bool :=
  match w with
  | [] => match v with [] => true | _ => false end
  | c :: w' =>
      match v with
      | [] => false
      | x :: v' =>
          if (x =? c) || (x + 32 =? c) then equal_fold_word v' w'
          else if (c =? 107) && (x =? 226) then
            match v' with
            | 132 :: 170 :: v'' => equal_fold_word v'' w'
            | _ => false
            end
          else if (c =? 115) && (x =? 197) then
            match v' with
            | 191 :: v'' => equal_fold_word v'' w'
            | _ => false
            end
          else false
      end
  end.
(* plain ASCII case-insensitive equality with a lower-case word (the reading of the RFC) *)
Fixpoint equal_fold_ascii (v w : list byte) : bool :=
  match v, w with
  | [], [] => true
  | x :: v', c :: w' => ((x =? c) || ((65 <=? x) && (x <=? 90) && (x + 32 =? c))) && equal_fold_ascii v' w'
  | _, _ => false
  end.

(* util.go: btsHasToken(header, token), token a lower-case ASCII word *)
Definition bts_has_token (header token : list byte) : bool :=
  fst (scan_tokens bool (fun _ v => let h := equal_fold_word v token in (h, negb h)) header false).

(* ---------- http.go parsers ---------- *)
Definition http_parse_version (ati : list byte -> option Z) (b : list byte) : option (Z * Z) :=
  if bytes_eqb b (bs "HTTP/1.0") then Some (1, 0)%Z
  else if bytes_eqb b (bs "HTTP/1.1") then Some (1, 1)%Z
  else if len b <? 8 then None
  else if negb (bytes_eqb (firstn 5 b) (bs "HTTP/")) then None
  else
    match split_byte 46 (skipn 5 b) with
    | None => None
    | Some (ma, mi) =>
        match ati ma with
        | None => None
        | Some major => match ati mi with
                        | None => None
                        | Some minor => Some (major, minor)
                        end
        end
    end.

Record req_line := mkReqLine { rl_method : list byte; rl_uri : list byte; rl_major : Z; rl_minor : Z }.
Definition http_parse_request_line (ati : list byte -> option Z) (line : list byte) : option req_line :=
  let '(m, u, proto) := bsplit3 line 32 in
  match http_parse_version ati proto with
  | Some (ma, mi) => Some (mkReqLine m u ma mi)
  | None => None
  end.

Record resp_line := mkRespLine { sl_major : Z; sl_minor : Z; sl_status : Z; sl_reason : list byte }.

Definition http_parse_header_line (line : list byte) : option (list byte * list byte) :=
  match split_byte 58 line with
  | None => None
  | Some (k, v) => Some (canonicalize (btrim k), btrim v)
  end.

(* ---------- header names ---------- *)
Definition h_host := bs "Host".
Definition h_upgrade := bs "Upgrade".
Definition h_connection := bs "Connection".
Definition h_sec_version_c := bs "Sec-Websocket-Version".
Definition h_sec_protocol_c := bs "Sec-Websocket-Protocol".
Definition h_sec_extensions_c := bs "Sec-Websocket-Extensions".
Definition h_sec_key_c := bs "Sec-Websocket-Key".
Definition h_sec_accept_c := bs "Sec-Websocket-Accept".

Inductive hkind := KHost | KUpgrade | KConnection | KSecVersion | KSecKey
                 | KSecProtocol | KSecExtensions | KSecAccept | KOther.
Definition classify (k : list byte) : hkind :=
  if bytes_eqb k h_host then KHost
  else if bytes_eqb k h_upgrade then KUpgrade
  else if bytes_eqb k h_connection then KConnection
  else if bytes_eqb k h_sec_version_c then KSecVersion
  else if bytes_eqb k h_sec_key_c then KSecKey
  else if bytes_eqb k h_sec_protocol_c then KSecProtocol
  else if bytes_eqb k h_sec_extensions_c then KSecExtensions
  else if bytes_eqb k h_sec_accept_c then KSecAccept
  else KOther.

(* ---------- selectors ---------- *)
(* http.go: btsSelectProtocol / strSelectProtocol *)
Definition select_protocol (h : list byte) (check : list byte -> bool) : list byte * bool :=
  let '(sel, ok) := scan_tokens (option (list byte))
                      (fun a v => if check v then (Some v, false) else (a, true)) h None in
  match sel with
  | Some v => if ok then (v, true) else ([], ok)
  | None => ([], ok)
  end.

(* an error that makes the upgrader answer with an HTTP error response
   (ConnectionRejectedError; a plain error is code 0, no header) *)
Record rej := mkRej { rj_code : N; rj_header : list byte; rj_reason : list byte }.

(* http.go: negotiateMaybe / negotiateExtensions; f returns an option (zero = declined) or an error *)
Inductive neg_res := NegOk (o : hopt) | NegErr (e : rej).
Definition malformed_request : rej := mkRej 400 [] (bs "malformed HTTP request").

Definition negotiate_maybe (f : hopt -> neg_res) (cur : hopt) (dest : list hopt) : list hopt * option rej :=
  if opt_size cur =? 0 then (dest, None)
  else match f cur with
       | NegErr e => ([], Some e)
       | NegOk o => if 0 <? opt_size o then (dest ++ [o], None) else (dest, None)
       end.
Record neg_acc := mkNeg { ng_index : option N; ng_cur : hopt; ng_dest : list hopt; ng_err : option rej }.
Definition neg_it (f : hopt -> neg_res) (a : neg_acc) (i : N) (name : list byte)
           (attr : option (list byte)) (val : list byte) : neg_acc * control :=
  let same := match ng_index a with Some j => j =? i | None => false end in
  let step1 :=
    if same then inl a
    else let '(d, e) := negotiate_maybe f (ng_cur a) (ng_dest a) in
         match e with
         | Some _ => inr (mkNeg (ng_index a) (ng_cur a) d e)
         | None => inl (mkNeg (Some i) (mkOpt name []) d None)
         end in
  match step1 with
  | inr a' => (a', CBreak)
  | inl a1 =>
      (match attr with
       | Some k => mkNeg (ng_index a1) (opt_set (ng_cur a1) k val) (ng_dest a1) (ng_err a1)
       | None => a1
       end, CContinue)
  end.
Definition negotiate_extensions (f : hopt -> neg_res) (h : list byte) (dest : list hopt)
  : list hopt * option rej :=
  let '(a, ok) := scan_options neg_acc (neg_it f) h (mkNeg None opt_zero dest None) in
  if negb ok then ([], Some malformed_request)
  else negotiate_maybe f (ng_cur a) (ng_dest a).

(* ---------- nonce.go ---------- *)
Definition ws_guid := bs "258EAFA5-E914-47DA-95CA-C5AB0DC85B11".
Definition accept_of_key (key : list byte) : list byte := base64 (sha1 (key ++ ws_guid)).

(* ---------- strconv.Itoa for non-negative numbers ---------- *)
Fixpoint itoa_fuel (fuel : nat) (n : N) (acc : list byte) : list byte :=
  match fuel with
  | O => acc
  | S f => let acc' := (48 + n mod 10) :: acc in
           if n <? 10 then acc' else itoa_fuel f (n / 10) acc'
  end.
(* fuel: a number has at most as many digits as its value + 1 *)
Definition itoa (n : N) : list byte := itoa_fuel (S (N.to_nat n)) n [].

(* ---------- response writers ---------- *)
Record handshake := mkHs { hs_protocol : list byte; hs_exts : list hopt }.
Definition text_head_upgrade :=
  bs "HTTP/1.1 101 Switching Protocols" ++ crlf ++ bs "Upgrade: websocket" ++ crlf
  ++ bs "Connection: Upgrade" ++ crlf.

(* http.go: httpWriteResponseUpgrade; [hdr] = what the HandshakeHeader(s) write *)
Definition write_response_upgrade (nonce : list byte) (hs : handshake) (hdr : list byte) : list byte :=
  text_head_upgrade
  ++ bs "Sec-WebSocket-Accept: " ++ accept_of_key nonce ++ crlf
  ++ (match hs_protocol hs with [] => [] | p => bs "Sec-WebSocket-Protocol: " ++ p ++ crlf end)
  ++ (match hs_exts hs with [] => [] | es => bs "Sec-WebSocket-Extensions: " ++ write_options es ++ crlf end)
  ++ hdr ++ crlf.

(* http.go: httpWriteResponseError = writeStatusText, custom headers, writeErrorText.
   [stext] is net/http's StatusText. *)
Definition write_response_error (stext : N -> list byte) (code : N) (hdr reason : list byte) : list byte :=
  bs "HTTP/1.1 " ++ itoa code ++ [32] ++ stext code ++ crlf
  ++ bs "Content-Type: text/plain; charset=utf-8" ++ crlf
  ++ hdr
  ++ bs "Content-Length: " ++ itoa (len reason) ++ crlf ++ crlf ++ reason.
