(* Negotiate.v — transcription of wsflate/parameters.go (Parameters.Parse, Option,
   bitsFromASCII, setBits, setBool) and wsflate/extension.go (Extension.Negotiate,
   Accepted, Reset), plus the SPEC of C14: well-formed offers and the legal answers
   of RFC 7692 section 7.1, and the boolean monitors evaluated on what the Go code
   answered.  Definitions only.

   httphead.Option is (Name, Parameters); httphead.Parameters is an ordered list of
   (key, value) pairs: Set appends, ForEach visits in order and stops when the
   callback returns false.  A valueless parameter has an empty value. *)
Require Import Bytes.
Open Scope N_scope.

Definition param := (list byte * list byte)%type.

(* 'permessage-deflate' *)
Definition ext_name : list byte := [112; 101; 114; 109; 101; 115; 115; 97; 103; 101; 45; 100; 101; 102; 108; 97; 116; 101].
(* 'server_no_context_takeover' *)
Definition k_snct : list byte := [115; 101; 114; 118; 101; 114; 95; 110; 111; 95; 99; 111; 110; 116; 101; 120; 116; 95; 116; 97; 107; 101; 111; 118; 101; 114].
(* 'client_no_context_takeover' *)
Definition k_cnct : list byte := [99; 108; 105; 101; 110; 116; 95; 110; 111; 95; 99; 111; 110; 116; 101; 120; 116; 95; 116; 97; 107; 101; 111; 118; 101; 114].
(* 'server_max_window_bits' *)
Definition k_smwb : list byte := [115; 101; 114; 118; 101; 114; 95; 109; 97; 120; 95; 119; 105; 110; 100; 111; 119; 95; 98; 105; 116; 115].
(* 'client_max_window_bits' *)
Definition k_cmwb : list byte := [99; 108; 105; 101; 110; 116; 95; 109; 97; 120; 95; 119; 105; 110; 100; 111; 119; 95; 98; 105; 116; 115].

Definition is_empty {A} (l : list A) : bool := match l with [] => true | _ => false end.
Definition is_some {A} (o : option A) : bool := match o with Some _ => true | None => false end.

(* ================= the code ================= *)

(* Parameters struct; WindowBits is a byte: 0 = undefined, 1 = "present without value" *)
Record params := mkParams { p_snct : bool; p_cnct : bool; p_smwb : N; p_cmwb : N }.
Definition params0 : params := mkParams false false 0 0.
Definition set_snct p b := mkParams b (p_cnct p) (p_smwb p) (p_cmwb p).
Definition set_cnct p b := mkParams (p_snct p) b (p_smwb p) (p_cmwb p).
Definition set_smwb p n := mkParams (p_snct p) (p_cnct p) n (p_cmwb p).
Definition set_cmwb p n := mkParams (p_snct p) (p_cnct p) (p_smwb p) n.
Definition params_eqb (a b : params) : bool :=
  Bool.eqb (p_snct a) (p_snct b) && Bool.eqb (p_cnct a) (p_cnct b)
  && (p_smwb a =? p_smwb b) && (p_cmwb a =? p_cmwb b).

(* var windowBits [8][]byte, filled by init() with strconv.Itoa(i+8) *)
Definition window_bits : list (list byte) :=
  [[56]; [57]; [49; 48]; [49; 49]; [49; 50]; [49; 51]; [49; 52]; [49; 53]].

(* isValidBits *)
Definition is_valid_bits (x : N) : bool := (8 <=? x) && (x <=? 15).

(* bitsFromASCII: look the value up in the windowBits table (index i -> i+8) *)
Fixpoint bits_lookup (tab : list (list byte)) (i : N) (v : list byte) : option N :=
  match tab with
  | [] => None
  | b :: r => if bytes_eqb v b then Some (i + 8) else bits_lookup r (i + 1) v
  end.
Definition bits_from_ascii (v : list byte) : option N := bits_lookup window_bits 0 v.

(* switch string(key) *)
Inductive kclass := KCmwb | KSmwb | KCnct | KSnct | KOther.
Definition classify (k : list byte) : kclass :=
  if bytes_eqb k k_cmwb then KCmwb
  else if bytes_eqb k k_smwb then KSmwb
  else if bytes_eqb k k_cnct then KCnct
  else if bytes_eqb k k_snct then KSnct
  else KOther.

(* the iota constants of Parse *)
Definition seen_bit (c : kclass) : N :=
  match c with KCmwb => 1 | KSmwb => 2 | KCnct => 4 | KSnct => 8 | KOther => 0 end.
(* seen&m != 0 *)
Definition has_bit (seen m : N) : bool := negb (N.land seen m =? 0).

Inductive perr := Dup | Invalid | Unexpected.

(* one call of the ForEach callback: new params, new seen, error (= callback returned false) *)
Definition parse_step (k v : list byte) (p : params) (seen : N) : params * N * option perr :=
  match classify k with
  | KCmwb =>
      if has_bit seen 1 then (p, seen, Some Dup)
      else
        let seen := N.lor seen 1 in
        if is_empty v then (set_cmwb p 1, seen, None)
        else match bits_from_ascii v with
             | Some n => (set_cmwb p n, seen, None)
             | None => (set_cmwb p 0, seen, Some Invalid)
             end
  | KSmwb =>
      if is_empty v then (p, seen, Some Invalid)
      else if has_bit seen 2 then (p, seen, Some Dup)
      else
        let seen := N.lor seen 2 in
        match bits_from_ascii v with
        | Some n => (set_smwb p n, seen, None)
        | None => (set_smwb p 0, seen, Some Invalid)
        end
  | KCnct =>
      if negb (is_empty v) then (p, seen, Some Invalid)
      else if has_bit seen 4 then (p, seen, Some Dup)
      else (set_cnct p true, N.lor seen 4, None)
  | KSnct =>
      if negb (is_empty v) then (p, seen, Some Invalid)
      else if has_bit seen 8 then (p, seen, Some Dup)
      else (set_snct p true, N.lor seen 8, None)
  | KOther => (p, seen, Some Unexpected)
  end.

Fixpoint parse_loop (l : list param) (p : params) (seen : N) : params * option perr :=
  match l with
  | [] => (p, None)
  | (k, v) :: r =>
      match parse_step k v p seen with
      | (p', seen', None) => parse_loop r p' seen'
      | (p', _, Some e) => (p', Some e)
      end
  end.

(* Parameters.Parse: *p = Parameters{}; seen = 0; ForEach.  The params value is what
   the receiver holds afterwards (also when an error is returned). *)
Definition parse (l : list param) : params * option perr := parse_loop l params0 0.

(* setBool / setBits / Option.  None = the panic of setBits on an invalid value. *)
Definition set_bool (name : list byte) (flag : bool) (o : list param) : list param :=
  if flag then o ++ [(name, [])] else o.
Definition set_bits (name : list byte) (bits : N) (o : option (list param)) : option (list param) :=
  match o with
  | None => None
  | Some l =>
      if bits =? 0 then Some l
      else if bits =? 1 then Some (l ++ [(name, [])])
      else if is_valid_bits bits then Some (l ++ [(name, nth (N.to_nat (bits - 8)) window_bits [])])
      else None
  end.
Definition option_of (p : params) : option (list param) :=
  set_bits k_cmwb (p_cmwb p)
    (set_bits k_smwb (p_smwb p)
      (Some (set_bool k_cnct (p_cnct p) (set_bool k_snct (p_snct p) [])))).

(* Extension *)
Record ext := mkExt { e_cfg : params; e_accepted : bool; e_params : params }.
Definition new_ext (cfg : params) : ext := mkExt cfg false params0.
(* Reset *)
Definition reset (n : ext) : ext := mkExt (e_cfg n) false params0.
(* Accepted *)
Definition accepted (n : ext) : params * bool := (e_params n, e_accepted n).

(* result of Negotiate: error / zero option / option named permessage-deflate / panic *)
Inductive answer := AErr (e : perr) | AEmpty | AOpt (o : list param) | APanic.

Definition defined (b : N) : bool := 0 <? b.

(* Extension.Negotiate *)
Definition negotiate (n : ext) (name : list byte) (ps : list param) : ext * answer :=
  if negb (bytes_eqb name ext_name) then (n, AEmpty)
  else if e_accepted n then (n, AEmpty)
  else
    let want := e_cfg n in
    let (p, err) := parse ps in
    let n1 := mkExt (e_cfg n) (e_accepted n) p in
    match err with
    | Some e => (n1, AErr e)
    | None =>
        if defined (p_smwb p) && (negb (defined (p_smwb want)) || (p_smwb p <? p_smwb want))
        then (n1, AEmpty)
        else if p_cmwb p <? p_cmwb want then (n1, AEmpty)
        else if p_snct p && negb (p_snct want) then (n1, AEmpty)
        else
          let n2 := mkExt (e_cfg n) true p in
          match option_of want with
          | Some o => (n2, AOpt o)
          | None => (n2, APanic)
          end
    end.

Definition offer := (list byte * list param)%type.

(* a handshake: Negotiate called on every offer in the client's order *)
Fixpoint negotiate_all (n : ext) (offers : list offer) : ext * list answer :=
  match offers with
  | [] => (n, [])
  | (name, ps) :: r =>
      let (n1, a) := negotiate n name ps in
      let (n2, rest) := negotiate_all n1 r in
      (n2, a :: rest)
  end.

(* scripts with Reset in between (pooled reuse) *)
Inductive op := ONeg (o : offer) | OReset.
Fixpoint run_ops (n : ext) (ops : list op) : ext * list answer :=
  match ops with
  | [] => (n, [])
  | ONeg (name, ps) :: r =>
      let (n1, a) := negotiate n name ps in
      let (n2, rest) := run_ops n1 r in
      (n2, a :: rest)
  | OReset :: r => run_ops (reset n) r
  end.

(* the answer of a new negotiator with configuration cfg to one offer *)
Definition fresh (cfg : params) (o : offer) : answer :=
  snd (negotiate (new_ext cfg) (fst o) (snd o)).
Definition is_opt (a : answer) : bool := match a with AOpt _ => true | _ => false end.
Definition accepts (cfg : params) (o : offer) : bool := is_opt (fresh cfg o).

(* ================= the SPEC ================= *)

(* a handshake answers every offer as a new negotiator would, up to and including the
   first offer such a negotiator accepts; every later offer gets the empty answer *)
Fixpoint first_acceptable (cfg : params) (offers : list offer) : list answer :=
  match offers with
  | [] => []
  | o :: r =>
      let a := fresh cfg o in
      a :: (if is_opt a then map (fun _ => AEmpty) r else first_acceptable cfg r)
  end.

Fixpoint memb (k : list byte) (ks : list (list byte)) : bool :=
  match ks with [] => false | x :: r => bytes_eqb k x || memb k r end.
Fixpoint nodupb (ks : list (list byte)) : bool :=
  match ks with [] => true | x :: r => negb (memb x r) && nodupb r end.
Fixpoint lookup (k : list byte) (l : list param) : option (list byte) :=
  match l with
  | [] => None
  | (k', v) :: r => if bytes_eqb k k' then Some v else lookup k r
  end.
Definition keys (l : list param) : list (list byte) := map fst l.

(* RFC 7692 7.1.2: "a decimal integer value without leading zeroes between 8 to 15" *)
Definition dec_digits (n : N) : list byte :=
  if n <? 10 then [48 + n] else [48 + n / 10; 48 + n mod 10].
Definition spec_bits (v : list byte) : option N :=
  find (fun n => bytes_eqb v (dec_digits n)) [8; 9; 10; 11; 12; 13; 14; 15].

(* a parameter that may appear in an offer, with a value it may have *)
Definition value_ok (k v : list byte) : bool :=
  if bytes_eqb k k_smwb then is_some (spec_bits v)
  else if bytes_eqb k k_cmwb then is_empty v || is_some (spec_bits v)
  else if bytes_eqb k k_snct then is_empty v
  else if bytes_eqb k k_cnct then is_empty v
  else false.
(* known names only, well-formed values, no name twice *)
Definition wf_offer (l : list param) : bool :=
  forallb (fun kv => value_ok (fst kv) (snd kv)) l && nodupb (keys l).

Definition bits_val (v : list byte) : N := match spec_bits v with Some n => n | None => 0 end.
(* what a well-formed parameter list says *)
Definition meaning (l : list param) : params :=
  mkParams (memb k_snct (keys l)) (memb k_cnct (keys l))
    (match lookup k_smwb l with Some v => bits_val v | None => 0 end)
    (match lookup k_cmwb l with Some v => if is_empty v then 1 else bits_val v | None => 0 end).

(* RFC 7692 7.1 as the property states it; [off] and [ans] are raw parameter lists *)
Definition legal_answer (off ans : list param) : bool :=
  (* the response is itself a well-formed parameter list *)
  wf_offer ans
  (* server_max_window_bits requested => present and not larger *)
  && match lookup k_smwb off with
     | None => true
     | Some vo =>
         match spec_bits vo, lookup k_smwb ans with
         | Some o, Some va => match spec_bits va with Some a => a <=? o | None => false end
         | _, _ => false
         end
     end
  (* client_max_window_bits only if offered, with a value, not larger than an offered value *)
  && match lookup k_cmwb ans with
     | None => true
     | Some va =>
         match spec_bits va, lookup k_cmwb off with
         | Some c, Some vo =>
             is_empty vo || match spec_bits vo with Some o => c <=? o | None => false end
         | _, _ => false
         end
     end
  (* server_no_context_takeover requested => present *)
  && (negb (memb k_snct (keys off)) || memb k_snct (keys ans))
  (* every window value in 8..15 *)
  && match lookup k_smwb ans with Some va => is_some (spec_bits va) | None => true end.

(* configurations of the property: window fields 0 (unset) or 8..15 *)
Definition win_ok (n : N) : bool := (n =? 0) || is_valid_bits n.
Definition cfg_ok (c : params) : bool := win_ok (p_smwb c) && win_ok (p_cmwb c).
(* parameter values an offer can mean: client_max_window_bits may also be valueless (1) *)
Definition offer_params_ok (p : params) : bool :=
  win_ok (p_smwb p) && ((p_cmwb p =? 1) || win_ok (p_cmwb p)).

(* ---------- monitors, evaluated on what the Go code answered ---------- *)

(* one Negotiate call on a negotiator that has not accepted anything yet *)
Definition c14_single_monitor (name : list byte) (ps : list param) (a : answer) : bool :=
  match a with
  | AOpt o => bytes_eqb name ext_name && wf_offer ps && legal_answer ps o
  | AErr _ => bytes_eqb name ext_name && negb (wf_offer ps)
  | AEmpty => negb (bytes_eqb name ext_name) || wf_offer ps
  | APanic => false
  end.

Fixpoint params_list_eqb (a b : list param) : bool :=
  match a, b with
  | [], [] => true
  | (k, v) :: a', (k', v') :: b' => bytes_eqb k k' && bytes_eqb v v' && params_list_eqb a' b'
  | _, _ => false
  end.
(* equality of the observable part of answers (the error class is not observable) *)
Definition answer_eqb (a b : answer) : bool :=
  match a, b with
  | AErr _, AErr _ => true
  | AEmpty, AEmpty => true
  | AOpt x, AOpt y => params_list_eqb x y
  | APanic, APanic => true
  | _, _ => false
  end.

(* a history on one negotiator.  Each step is either a Reset (None) or a Negotiate with
   the answer of a NEW negotiator of the same configuration to that offer and the answer
   observed in the history.  Until something is accepted the history answers as a new
   negotiator would; the first accepted offer gets that answer; afterwards every offer
   gets the empty answer, until Reset. *)
Fixpoint c14_history_monitor (acc : bool) (steps : list (option (answer * answer))) : bool :=
  match steps with
  | [] => true
  | None :: r => c14_history_monitor false r
  | Some (fr, seq) :: r =>
      if acc then answer_eqb seq AEmpty && c14_history_monitor true r
      else answer_eqb seq fr && c14_history_monitor (is_opt fr) r
  end.
(* pairs a script and the answers observed for it with the answers of new negotiators *)
Fixpoint history_steps (cfg : params) (ops : list op) (answers : list answer)
  : list (option (answer * answer)) :=
  match ops with
  | [] => []
  | OReset :: r => None :: history_steps cfg r answers
  | ONeg o :: r =>
      match answers with
      | a :: ar => Some (fresh cfg o, a) :: history_steps cfg r ar
      | [] => []
      end
  end.
Definition count_opts (l : list answer) : nat := length (filter is_opt l).

(* Parse observed directly: accepted iff well-formed, and then the parameters are the meaning *)
Definition c14_parse_monitor (ps : list param) (ok : bool) (p : params) : bool :=
  if ok then wf_offer ps && params_eqb p (meaning ps) else negb (wf_offer ps).

(* Option then Parse, observed: encoded list is well-formed, means p, parses back to p *)
Definition c14_encode_monitor (p : params) (enc : list param) (ok : bool) (back : params) : bool :=
  wf_offer enc && params_eqb (meaning enc) p && ok && params_eqb back p.
