(* ReadData.v — model of helper.go:readData (ReadData, ReadClientData/Text/Binary,
   ReadServerData/Text/Binary) on top of the Reader and Handler models, and the SPEC of
   what one call must do (C04 entry points, C08 inline control handling).
   Definitions only.

   Modelling note: the Go code answers an intermediate control frame inside the
   OnIntermediate callback, while the payload is being read. Here the reader runs with the
   read-all-and-record callback and the replies are produced right after the enclosing
   read/discard step from the newly recorded control events, in stream order, stopping
   at the first close (or handler error) — the replies written, their order and the
   result are the same; only the moment differs (the destination sees nothing else). *)
Require Import Bytes Stream Utf8Spec Check Frame Cipher Utf8Dfa Extracted Reader Writer Handler.
Open Scope N_scope.

Inductive rd_result :=
  | RDData (op : N) (p : list byte)
  | RDHandler (r : hresult)      (* ClosedError / protocol error / write error from the control handler *)
  | RDErr (e : rerror).

(* ControlFrameHandler(w, state)(h, r) on an already unmasked, completely read payload *)
Definition handle_payload (state : N) (op : N) (p : list byte) (masks : list (list byte)) (d : dest)
  : hresult * dest * list (list byte) :=
  let h := mkHeader true 0 op false zero_mask (Z.of_N (len p)) in
  let '(res, d') := handle state false h p TEOF [] masks d in
  (* a client consumes one key per reply frame *)
  let wrote := negb (dest_ncalls d' =? dest_ncalls d) in
  (res, d', if client_side state && wrote then List.tl masks else masks).

(* answer the control events recorded since [from], in order; stop at the first non-nil result *)
Fixpoint answer_events (state : N) (evs : list event) (masks : list (list byte)) (d : dest)
  : option hresult * dest * list (list byte) :=
  match evs with
  | [] => (None, d, masks)
  | ev :: rest =>
    let '(res, d', masks') := handle_payload state (ev_op ev) (ev_payload ev) masks d in
    match res with
    | HNil => answer_events state rest masks' d'
    | r => (Some r, d', masks')
    end
  end.

Definition new_events (before : nat) (r : reader) : list event := skipn before (r_log r).

Fixpoint read_data (fuel : nat) (want : N) (state : N) (r : reader) (d : dest) (masks : list (list byte))
  : rd_result * dest * reader :=
  match fuel with
  | O => (RDErr ROutOfFuel, d, r)
  | S f =>
    let nlog := length (r_log r) in
    let '((h, e), r1) := next_frame r in
    match e with
    | Some e => (RDErr e, d, r1)
    | None =>
      if op_is_control (h_op h) then
        (* controlHandler(hdr, &rd): the payload is read through the Reader *)
        let '((p, e2), r2) := read_to_eof fuel [4096] [4096] r1 [] in
        match e2 with
        | RIo EEOF =>
          let '(res, d', masks') := handle_payload state (h_op h) p masks d in
          match res with
          | HNil => read_data f want state r2 d' masks'
          | res => (RDHandler res, d', r2)
          end
        | e2 => (RDErr e2, d, r2)
        end
      else if N.land (h_op h) want =? 0 then
        let '(e2, r2) := discard (S (length (flat (r_src r1)))) r1 in
        let '(hr, d', masks') := answer_events state (new_events nlog r2) masks d in
        match hr, e2 with
        | Some res, _ => (RDHandler res, d', r2)
        | None, Some e2 => (RDErr e2, d', r2)
        | None, None => read_data f want state r2 d' masks'
        end
      else
        let '((p, e2), r2) := read_to_eof fuel [512] [512] r1 [] in
        let '(hr, d', masks') := answer_events state (new_events nlog r2) masks d in
        match hr, e2 with
        | Some res, _ => (RDHandler res, d', r2)
        | None, RIo EEOF => (RDData (h_op h) p, d', r2)
        | None, e2 => (RDErr e2, d', r2)
        end
    end
  end.

Definition read_data_call (fuel : nat) (want state : N) (s : src) (masks : list (list byte))
  : rd_result * list (list byte) :=
  let r := new_reader s state false true 0 false CbReadAll in
  let '(res, d, _) := read_data fuel want state r (mkDest [] None) masks in
  (res, dest_log d).

(* ------------------------------------------------------------------ SPEC *)
(* from the frame-sequence spec's events: the replies owed, in order, and the result *)
Inductive rx_result := XData (op : N) (p : list byte) | XClosed (code : N) (reason : list byte) | XProto.
Record xreply := mkXR { x_op : N; x_payload : list byte; x_any_proto : bool }.

Fixpoint rx_walk (want : N) (evs : list event) (acc : list xreply) : list xreply * option rx_result :=
  match evs with
  | [] => (rev_append acc [], None)
  | e :: r =>
    if ev_op e =? 9 then rx_walk want r (mkXR 10 (ev_payload e) false :: acc)
    else if ev_op e =? 10 then rx_walk want r acc
    else if ev_op e =? 8 then
      match ev_payload e with
      | [] => (rev_append (mkXR 8 [] false :: acc) [], Some (XClosed 1005 []))
      | p =>
        let '(code, reason) := parse_close p in
        if (2 <=? len p) && match check_close code reason with None => true | Some _ => false end
        then (rev_append (mkXR 8 (take 2 p) false :: acc) [], Some (XClosed code reason))
        else (rev_append (mkXR 8 [] true :: acc) [], Some XProto)
      end
    else if negb (N.land (ev_op e) want =? 0) then (rev_append acc [], Some (XData (ev_op e) (ev_payload e)))
    else rx_walk want r acc
  end.

Definition xreply_ok (state : N) (x : xreply) (f : pframe) : bool :=
  reply_frame_ok state f && (h_op (pf_header f) =? x_op x) &&
  if x_any_proto x then
    let '(rc, _) := parse_close (pf_unmasked f) in (rc =? 1002) || (rc =? 1007)
  else bytes_eqb (pf_unmasked f) (x_payload x).
Fixpoint xreplies_ok (state : N) (xs : list xreply) (fs : list pframe) : bool :=
  match xs, fs with
  | [], [] => true
  | x :: xs', f :: fs' => xreply_ok state x f && xreplies_ok state xs' fs'
  | _, _ => false
  end.

Definition rx_result_matches (x : option rx_result) (r : rd_result) : bool :=
  match x, r with
  | Some (XData op p), RDData op' p' => (op =? op') && bytes_eqb p p'
  | Some (XClosed c rs), RDHandler (HClosed c' rs') => (c =? c') && bytes_eqb rs rs'
  | Some XProto, RDHandler (HProto _) => true
  | None, RDErr _ => true
  | _, _ => false
  end.

(* MONITOR for one ReadData call on the wire bytes of a complete valid frame sequence *)
Definition rx_monitor (state want : N) (fs : list sframe) (res : rd_result) (log : list (list byte)) : bool :=
  let sp := spec_run (mkCfg state true 0 false) 0 None [] fs in
  let '(xs, xr) := rx_walk want (sr_events sp) [] in
  match frames_of (concat log) with
  | None => false
  | Some rf => xreplies_ok state xs rf && rx_result_matches xr res
  end.
