(* Check.v — transcription of check.go (CheckHeader, CheckCloseFrameData),
   frame.go (opcode / status-code predicates, NewCloseFrameBody) and
   read.go (ParseCloseFrameData), plus the independent rule-set SPEC of C03.
   Definitions only. *)
Require Import Bytes Utf8Spec.
Open Scope N_scope.

(* ---------- header ---------- *)
Record header := mkHeader {
  h_fin : bool; h_rsv : N; h_op : N; h_masked : bool; h_mask : list byte; h_len : Z }.

(* ws.State bits *)
Definition st_server (s : N) := N.testbit s 0.
Definition st_client (s : N) := N.testbit s 1.
Definition st_extended (s : N) := N.testbit s 2.
Definition st_fragmented (s : N) := N.testbit s 3.

(* frame.go: OpCode predicates, transcribed *)
Definition op_is_control (c : N) : bool := negb (N.land c 8 =? 0).
Definition op_is_data (c : N) : bool := N.land c 8 =? 0.
Definition op_is_reserved (c : N) : bool :=
  ((3 <=? c) && (c <=? 7)) || ((11 <=? c) && (c <=? 15)).

Inductive rule :=
  | ReservedOp | ControlTooLong | ControlNotFinal | RsvWithoutExt
  | MaskRequired | MaskUnexpected | ContinuationExpected | ContinuationUnexpected.

Definition rule_eqb (a b : rule) : bool :=
  match a, b with
  | ReservedOp, ReservedOp | ControlTooLong, ControlTooLong
  | ControlNotFinal, ControlNotFinal | RsvWithoutExt, RsvWithoutExt
  | MaskRequired, MaskRequired | MaskUnexpected, MaskUnexpected
  | ContinuationExpected, ContinuationExpected
  | ContinuationUnexpected, ContinuationUnexpected => true
  | _, _ => false
  end.

Definition max_control_payload : Z := 125.

(* check.go: CheckHeader — ordered cascade, first error wins *)
Definition check_header (h : header) (s : N) : option rule :=
  if op_is_reserved (h_op h) then Some ReservedOp
  else if op_is_control (h_op h) && (max_control_payload <? h_len h)%Z then Some ControlTooLong
  else if op_is_control (h_op h) && negb (h_fin h) then Some ControlNotFinal
  else if negb (h_rsv h =? 0) && negb (st_extended s) then Some RsvWithoutExt
  else if st_server s && negb (h_masked h) then Some MaskRequired
  else if st_client s && h_masked h then Some MaskUnexpected
  else if st_fragmented s && negb (op_is_control (h_op h)) && negb (h_op h =? 0)
    then Some ContinuationExpected
  else if negb (st_fragmented s) && (h_op h =? 0) then Some ContinuationUnexpected
  else None.

(* SPEC: the rules of the property statement, each judged on its own. *)
Definition spec_control (c : N) : bool := (8 <=? c) && (c <=? 15).
Definition spec_reserved (c : N) : bool :=
  negb ((c =? 0) || (c =? 1) || (c =? 2) || (c =? 8) || (c =? 9) || (c =? 10)).
Definition rule_broken (r : rule) (h : header) (s : N) : bool :=
  match r with
  | ReservedOp => spec_reserved (h_op h)
  | ControlTooLong => spec_control (h_op h) && (125 <? h_len h)%Z
  | ControlNotFinal => spec_control (h_op h) && negb (h_fin h)
  | RsvWithoutExt => negb (h_rsv h =? 0) && negb (st_extended s)
  | MaskRequired => st_server s && negb (h_masked h)
  | MaskUnexpected => st_client s && h_masked h
  | ContinuationExpected =>
      st_fragmented s && negb (spec_control (h_op h)) && negb (h_op h =? 0)
  | ContinuationUnexpected => negb (st_fragmented s) && (h_op h =? 0)
  end.
Definition all_rules : list rule :=
  [ReservedOp; ControlTooLong; ControlNotFinal; RsvWithoutExt;
   MaskRequired; MaskUnexpected; ContinuationExpected; ContinuationUnexpected].
Definition broken (h : header) (s : N) : list rule :=
  filter (fun r => rule_broken r h s) all_rules.

(* monitor for an observed verdict (None = accepted) *)
Definition c03_header_monitor (h : header) (s : N) (verdict : option rule) : bool :=
  match verdict with
  | None => match broken h s with [] => true | _ => false end
  | Some r => rule_broken r h s
  end.

(* ---------- status codes (frame.go) ---------- *)
Definition in_range (lo hi c : N) : bool := (lo <=? c) && (c <=? hi).
Definition sc_not_used c := in_range 0 999 c.
Definition sc_protocol_spec c := in_range 1000 2999 c.
Definition sc_application_spec c := in_range 3000 3999 c.
Definition sc_private_spec c := in_range 4000 4999 c.
Definition sc_protocol_defined (c : N) : bool :=
  (c =? 1000) || (c =? 1001) || (c =? 1002) || (c =? 1003) || (c =? 1007) || (c =? 1008)
  || (c =? 1009) || (c =? 1010) || (c =? 1011) || (c =? 1005) || (c =? 1006) || (c =? 1015).
Definition sc_protocol_reserved (c : N) : bool := (c =? 1005) || (c =? 1006) || (c =? 1015).

Inductive close_err := NotInUse | AppLevel | NoMeaning | Unknown | BadUtf8.

(* check.go: CheckCloseFrameData; [reason_ok] is utf8.ValidString(reason) *)
Definition check_close_gen (c : N) (reason_ok : bool) : option close_err :=
  if sc_not_used c then Some NotInUse
  else if sc_protocol_reserved c then Some AppLevel
  else if c =? 1004 then Some NoMeaning
  else if sc_protocol_spec c && negb (sc_protocol_defined c) then Some Unknown
  else if negb reason_ok then Some BadUtf8
  else None.
Definition check_close (c : N) (reason : list byte) : option close_err :=
  check_close_gen c (valid_utf8 reason).

(* SPEC sets of the property statement *)
Definition must_accept (c : N) : bool :=
  in_range 1000 1003 c || in_range 1007 1011 c || in_range 3000 4999 c.
Definition left_open (c : N) : bool := in_range 1012 1014 c || (5000 <=? c).
Definition must_refuse (c : N) : bool := negb (must_accept c) && negb (left_open c).

Definition c03_close_monitor (c : N) (reason : list byte) (accepted : bool) : bool :=
  if accepted then negb (must_refuse c) && valid_utf8 reason
  else negb (must_accept c && valid_utf8 reason).

(* ---------- close body ---------- *)
(* frame.go: NewCloseFrameBody (crop to 123), PutCloseFrameBody *)
Definition new_close_body (c : N) (reason : list byte) : list byte :=
  be_bytes 2 c ++ firstn 123 reason.
(* read.go: ParseCloseFrameData *)
Definition parse_close (p : list byte) : N * list byte :=
  match p with
  | a :: b :: r => (be_val [a; b], r)
  | _ => (0, [])
  end.

Definition c03_body_monitor (c : N) (reason body : list byte) (pc : N) (pr : list byte) : bool :=
  (len body <=? 125) && (pc =? c) && bytes_eqb pr (firstn 123 reason)
  && (len body =? N.min (2 + len reason) 125).
