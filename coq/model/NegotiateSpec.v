(* C14: the acceptability the property speaks of ("the first acceptable one in the client's order"), read off the
   MEANING of an offer's parameter list and the server's configuration alone - not off the negotiator. Proved equal to
   what a new negotiator accepts in proofs/NegotiateAccept.v; extracted and used by the checker to name an acceptable
   offer that the Go code declined. *)
Require Import Bytes Negotiate.
Open Scope N_scope.

(* a permessage-deflate offer is acceptable to a server configured [cfg] when its parameter list is well-formed and
   - a requested server_max_window_bits limit can be met: the server has a window configured and it is not larger;
   - the client window the server insists on is not larger than what the client offered (an offer without
     client_max_window_bits counts 0, one without a value counts 1: a server that insists on a client window
     declines both);
   - a requested server_no_context_takeover is part of the server's configuration *)
Definition acceptable (cfg : params) (ps : list param) : bool :=
  wf_offer ps &&
  negb (defined (p_smwb (meaning ps)) && (negb (defined (p_smwb cfg)) || (p_smwb (meaning ps) <? p_smwb cfg))) &&
  negb (p_cmwb (meaning ps) <? p_cmwb cfg) &&
  negb (p_snct (meaning ps) && negb (p_snct cfg)).

