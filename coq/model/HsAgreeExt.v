(* HsAgreeExt.v — the vocabulary of the agreement theorem with extension offers (C11):
   boolean well-formedness of option lists, the dialer / upgrader configurations the theorem
   ranges over, what an Extension filter / a Negotiate table answers to a list of offers.
   Definitions only. *)
Require Import Bytes HsBase64 HsSha1 HsBufio HsHttpHead HsHttp HsUpgrader HsDialer.
Open Scope N_scope.

(* a non-empty HTTP token *)
Definition tokb (t : list byte) : bool :=
  negb (match t with [] => true | _ => false end) && forallb oct_token t.
(* parameter: token attribute, value a token or absent (RFC 6455 9.1 extension-param, the
   quoted-string form excluded) *)
Definition wf_param (kv : list byte * list byte) : bool := tokb (fst kv) && forallb oct_token (snd kv).
Definition wf_opt (o : hopt) : bool := tokb (o_name o) && forallb wf_param (o_params o).
Definition wf_opts (os : list hopt) : bool := forallb wf_opt os.

(* the configurations: subprotocols and extension offers on the client; a subprotocol selector and
   the deprecated Extension filter and/or a Negotiate function on the server; no extra headers,
   no objecting callbacks *)
Definition dcfgx (ps : list (list byte)) (exts : list hopt) : dcfg :=
  mkDcfg ps exts [] [] (fun _ _ => false).
Definition ucfgx (sel : option (list byte -> bool)) (ext : option (hopt -> bool))
           (neg : option (hopt -> neg_res)) : ucfg :=
  mkUcfg [] sel ext neg (fun _ => None) (fun _ => None) (fun _ _ => None) None.

(* what a Negotiate function contributes for one offer: its answer unless that is the zero
   Option (= declined) *)
Definition neg_answer (f : hopt -> neg_res) (o : hopt) : list hopt :=
  match f o with
  | NegOk o' => if 0 <? opt_size o' then [o'] else []
  | NegErr _ => []
  end.
Definition neg_answers (f : hopt -> neg_res) (os : list hopt) : list hopt := flat_map (neg_answer f) os.

(* the option's name is the name of one of the offers *)
Definition offered (exts : list hopt) (o : hopt) : bool :=
  existsb (fun w => bytes_eqb (o_name o) (o_name w)) exts.

(* the table returns no error on the offers and every answer is a well-formed option *)
Definition neg_total (f : hopt -> neg_res) (exts : list hopt) : bool :=
  forallb (fun o => match f o with NegOk _ => true | NegErr _ => false end) exts.
Definition neg_answers_wf (f : hopt -> neg_res) (exts : list hopt) : bool :=
  neg_total f exts && wf_opts (neg_answers f exts).
(* ... and carries the name of an offer (echo, or another well-formed option of an offered name) *)
Definition neg_table_ok (f : hopt -> neg_res) (exts : list hopt) : bool :=
  neg_answers_wf f exts && forallb (offered exts) (neg_answers f exts).

Definition ext_ok (neg : option (hopt -> neg_res)) (exts : list hopt) : bool :=
  wf_opts exts && match neg with Some f => neg_table_ok f exts | None => true end.

(* the extensions both sides end up with: Negotiate wins over Extension (server.go) *)
Definition agreed_exts (ext : option (hopt -> bool)) (neg : option (hopt -> neg_res))
           (exts : list hopt) : list hopt :=
  match neg with
  | Some f => neg_answers f exts
  | None => match ext with Some check => filter check exts | None => [] end
  end.
