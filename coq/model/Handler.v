(* Handler.v — transcription of wsutil/handler.go (ControlHandler.Handle,
   HandlePing/HandlePong/HandleClose, closeWithProtocolError) on top of the
   Writer model, and the SPEC of the automatic control replies (C08).
   Definitions only. *)
Require Import Bytes Stream Utf8Spec Check Frame Cipher Extracted Writer.
Open Scope N_scope.

Inductive hresult :=
  | HNil                                   (* nil *)
  | HClosed (code : N) (reason : list byte) (* wsutil.ClosedError *)
  | HProto (e : close_err)                 (* the protocol error of CheckCloseFrameData *)
  | HIoErr (e : rerr)                      (* source error *)
  | HWriteErr                              (* destination / control writer error *)
  | HNotControl
  | HPanic.

(* ws.WriteHeader(dst, Header{Fin: true, OpCode: op, Masked: client}) — zero mask *)
Definition write_empty_control (op state : N) (d : dest) : bool * dest :=
  match write_header (mkHeader true 0 op (client_side state) zero_mask 0) with
  | inr hb => dest_write hb d
  | inl _ => (false, d)
  end.

(* the source as the handler reads it: [avail] bytes can be read, then [tail];
   [unmask] = server side and source ciphering not disabled *)
Definition read_source (need : N) (avail : list byte) (t : tail) (unmask : bool) (key : list byte)
  : list byte * option rerr :=
  let '((b, e), _) := read_full need (whole avail t) in
  ((if unmask then cipher b key 0 else b), e).

(* closeWithProtocolError(err): close frame 1002 + error text; the reply is
   built by NewCloseFrameBody and (client side) masked *)
Definition close_with_protocol_error (state : N) (text : list byte) (masks : list (list byte)) (d : dest)
  : bool * dest :=
  let body := new_close_body 1002 text in
  let key := match masks with m :: _ => m | [] => zero_mask end in
  let client := client_side state in
  let h := mkHeader true 0 8 client (if client then key else zero_mask) (Z.of_N (len body)) in
  match write_header h with
  | inl _ => (false, d)
  | inr hb =>
    let '(ok1, d1) := dest_write hb d in
    if ok1 then dest_write (if client then cipher body key 0 else body) d1 else (false, d1)
  end.

(* error texts of check.go, needed because they travel in the reply *)
Definition ascii (s : list N) := s.
Definition close_err_text (e : close_err) : list byte :=
  match e with
  | NotInUse => [115;116;97;116;117;115;32;99;111;100;101;32;105;115;32;110;111;116;32;105;110;32;117;115;101]
  | AppLevel => [115;116;97;116;117;115;32;99;111;100;101;32;105;115;32;111;110;108;121;32;97;112;112;108;105;99;97;116;105;111;110;32;108;101;118;101;108]
  | NoMeaning => [115;116;97;116;117;115;32;99;111;100;101;32;104;97;115;32;110;111;32;109;101;97;110;105;110;103;32;121;101;116]
  | Unknown => [115;116;97;116;117;115;32;99;111;100;101;32;105;115;32;110;111;116;32;100;101;102;105;110;101;100;32;105;110;32;115;112;101;99]
  | BadUtf8 => [105;110;118;97;108;105;100;32;117;116;102;56;32;115;101;113;117;101;110;99;101;32;105;110;32;99;108;111;115;101;32;114;101;97;115;111;110]
  end.

(* Handle(h): [chunks] = how the source hands out the payload (each chunk becomes
   one ControlWriter.Write in io.Copy, unless the source is a bytes.Reader =
   one chunk) *)
Definition handle (state : N) (unmask : bool) (h : header) (avail : list byte) (t : tail)
           (copy_sizes : list N) (masks : list (list byte)) (d : dest) : hresult * dest :=
  let n := Z.to_N (h_len h) in
  if h_op h =? 9 then
    if n =? 0 then
      let '(ok, d1) := write_empty_control 10 state d in ((if ok then HNil else HWriteErr), d1)
    else
      match new_control_writer_buffer d state 10 (n + w_header_size state n) masks with
      | inl _ => (HPanic, d)
      | inr c0 =>
        let '(data, e) := read_source n avail t unmask (h_mask h) in
        (* io.Copy: one Write per chunk read *)
        let pieces := chunk_by copy_sizes data in
        let step (acc : option cwriter * bool) (p : list byte) :=
          match acc with
          | (Some c, true) =>
            let '(r, c1) := control_write p c in
            match r with
            | inr (_, None) => (Some c1, true)
            | _ => (Some c1, false)
            end
          | _ => acc
          end in
        match fold_left step pieces (Some c0, true) with
        | (Some c1, true) =>
          match e with
          | Some e => (HIoErr e, w_dest (c_w c1))
          | None =>
            let '(r, c2) := control_flush c1 in
            match r with
            | inr None => (HNil, w_dest (c_w c2))
            | _ => (HWriteErr, w_dest (c_w c2))
            end
          end
        | (Some c1, false) => (HWriteErr, w_dest (c_w c1))
        | _ => (HPanic, d)
        end
      end
  else if h_op h =? 10 then
    if n =? 0 then (HNil, d)
    else
      let '(_, e) := read_source n avail t false (h_mask h) in
      (match e with Some e => HIoErr e | None => HNil end, d)
  else if h_op h =? 8 then
    if n =? 0 then
      let '(ok, d1) := write_empty_control 8 state d in
      ((if ok then HClosed 1005 [] else HWriteErr), d1)
    else
      let '(data, e) := read_source n avail t unmask (h_mask h) in
      match e with
      | Some e => (HIoErr e, d)
      | None =>
        let '(code, reason) := parse_close data in
        match check_close code reason with
        | Some ce =>
          let '(_, d1) := close_with_protocol_error state (close_err_text ce) masks d in (HProto ce, d1)
        | None =>
          match new_control_writer_buffer d state 8 (n + w_header_size state n) masks with
          | inl _ => (HPanic, d)
          | inr c0 =>
            let '(r, c1) := control_write (take 2 data) c0 in
            match r with
            | inr (_, None) =>
              let '(r2, c2) := control_flush c1 in
              match r2 with
              | inr None => (HClosed code reason, w_dest (c_w c2))
              | _ => (HWriteErr, w_dest (c_w c2))
              end
            | _ => (HWriteErr, w_dest (c_w c1))
            end
          end
        end
      end
  else (HNotControl, d).

(* ------------------------------------------------------------------ SPEC / MONITOR *)
(* the reply RFC 6455 asks for, judged on the destination bytes and the result
   reported to the caller; [payload] is the UNMASKED payload of the received frame *)
Definition peer_state (state : N) : N := if client_side state then 1 else 2.

Definition reply_frame_ok (state : N) (f : pframe) : bool :=
  let h := pf_header f in
  (match check_header h (peer_state state) with None => true | Some _ => false end)
  && h_fin h && (len (pf_payload f) <=? 125) && (h_rsv h =? 0)
  && Bool.eqb (h_masked h) (client_side state).

Definition c08_reply_monitor (state op : N) (payload : list byte) (log : list (list byte)) (res : hresult) : bool :=
  match frames_of (concat log) with
  | None => false
  | Some fs =>
    forallb (reply_frame_ok state) fs &&
    if op =? 9 then
      match fs, res with
      | [f], HNil => (h_op (pf_header f) =? 10) && bytes_eqb (pf_unmasked f) payload
      | _, _ => false
      end
    else if op =? 10 then
      match fs, res with [], HNil => true | _, _ => false end
    else if op =? 8 then
      match fs with
      | [f] =>
        (h_op (pf_header f) =? 8) &&
        let body := pf_unmasked f in
        match payload with
        | [] => match body, res with [], HClosed 1005 [] => true | _, _ => false end
        | _ =>
          let '(code, reason) := parse_close payload in
          let valid := (2 <=? len payload) && match check_close code reason with None => true | Some _ => false end in
          let '(rcode, rreason) := parse_close body in
          (* the reply's own payload must be acceptable to the peer's close check *)
          (match check_close rcode rreason with None => true | Some _ => false end) && (2 <=? len body) &&
          if valid then
            (rcode =? code) &&
            match res with HClosed c r => (c =? code) && bytes_eqb r reason | _ => false end
          else
            ((rcode =? 1002) || (rcode =? 1007)) &&
            match res with HProto _ => true | _ => false end
        end
      | _ => false
      end
    else false
  end.
