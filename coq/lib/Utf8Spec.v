(* Utf8Spec.v — the standard definition of well-formed UTF-8 (Unicode Table 3-7):
   no overlongs, no surrogates, nothing above U+10FFFF.  This is a SPEC. *)
Require Import Bytes.
Open Scope N_scope.

Definition in_rng (lo hi b : N) : bool := (lo <=? b) && (b <=? hi).
Definition cont := in_rng 128 191.

Fixpoint valid_utf8 (l : list byte) : bool :=
  match l with
  | [] => true
  | b0 :: r =>
    if b0 <=? 127 then valid_utf8 r
    else if in_rng 194 223 b0 then
      match r with b1 :: r1 => cont b1 && valid_utf8 r1 | _ => false end
    else if b0 =? 224 then
      match r with b1 :: b2 :: r2 => in_rng 160 191 b1 && cont b2 && valid_utf8 r2 | _ => false end
    else if in_rng 225 236 b0 || in_rng 238 239 b0 then
      match r with b1 :: b2 :: r2 => cont b1 && cont b2 && valid_utf8 r2 | _ => false end
    else if b0 =? 237 then
      match r with b1 :: b2 :: r2 => in_rng 128 159 b1 && cont b2 && valid_utf8 r2 | _ => false end
    else if b0 =? 240 then
      match r with b1 :: b2 :: b3 :: r3 => in_rng 144 191 b1 && cont b2 && cont b3 && valid_utf8 r3 | _ => false end
    else if in_rng 241 243 b0 then
      match r with b1 :: b2 :: b3 :: r3 => cont b1 && cont b2 && cont b3 && valid_utf8 r3 | _ => false end
    else if b0 =? 244 then
      match r with b1 :: b2 :: b3 :: r3 => in_rng 128 143 b1 && cont b2 && cont b3 && valid_utf8 r3 | _ => false end
    else false
  end.
