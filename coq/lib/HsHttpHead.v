(* HsHttpHead.v — github.com/gobwas/httphead v0.1.0 as used by gobwas/ws: octet table,
   Scanner (tokens, separators, quoted strings), ScanTokens, ScanOptions,
   OptionSelector.Select (flags = SelectCopy), Option with its parameter list, WriteOptions.
   A dependency outside the repository: modelled from its source, validated by its own
   correspondence kinds (HHTOK, HHOPT, HHWR).  Definitions only.

   Deliberate abstraction: a '(' (RFC 2616 comment) is the terminal item IParen.  Both
   ScanTokens and ScanOptions return false for a comment whether or not it is terminated;
   the only difference (an extra trailing callback for an unterminated comment) is visible
   only in the option list returned next to an error, which no property fixes. *)
Require Import Bytes.
Open Scope N_scope.

(* octet.go: the table is filled for c in 32..255 only, so HT (9) carries no flag *)
Definition oct_space (c : byte) : bool := c =? 32.
Definition oct_sep (c : byte) : bool :=
  (c =? 40) || (c =? 41) || (c =? 60) || (c =? 62) || (c =? 64) || (c =? 44) || (c =? 59)
  || (c =? 58) || (c =? 34) || (c =? 47) || (c =? 91) || (c =? 93) || (c =? 63) || (c =? 61)
  || (c =? 123) || (c =? 125) || (c =? 92) || (c =? 32).
Definition oct_control (c : byte) : bool := c =? 127.
Definition oct_token (c : byte) : bool := (32 <=? c) && (c <=? 126) && negb (oct_sep c).

(* lexer.go: SkipSpace *)
Fixpoint skip_space (l : list byte) : list byte :=
  match l with
  | a :: r =>
      match r with
      | b :: c :: r' =>
          if (a =? 13) && (b =? 10) && oct_space c then skip_space r'
          else if oct_space a then skip_space r else l
      | _ => if oct_space a then skip_space r else l
      end
  | [] => []
  end.

Fixpoint span (p : byte -> bool) (l : list byte) : list byte * list byte :=
  match l with
  | c :: r => if p c then let (a, b) := span p r in (c :: a, b) else ([], l)
  | [] => ([], [])
  end.

(* lexer.go: ScanUntil(data, dquote) — first quote not preceded by a backslash
   (a quote after an escaped backslash counts as escaped too: that is what the code does) *)
Fixpoint scan_until_quote (prev_bs : bool) (l : list byte) : option (list byte * list byte) :=
  match l with
  | [] => None
  | c :: r =>
      if (c =? 34) && negb prev_bs then Some ([], r)
      else match scan_until_quote (c =? 92) r with
           | Some (s, rest) => Some (c :: s, rest)
           | None => None
           end
  end.

(* lexer.go: RemoveByte(data, '\\') — all backslashes go; when the byte before the last
   one is a backslash the last byte is lost as well (loop bound len-1) *)
Definition remove_backslash (d : list byte) : list byte :=
  let d' := match rev d with
            | _ :: 92 :: _ => removelast d
            | _ => d
            end in
  filter (fun c => negb (c =? 92)) d'.

Inductive item :=
  | IToken (b : list byte) | ISep (c : byte) | IString (b : list byte)
  | IParen       (* '(' : comment; every caller answers false *)
  | IBad.        (* lexer error: Next() = false with err set *)

(* Scanner.Next: None = end of data *)
Definition next_item (data : list byte) : option (item * list byte) :=
  match skip_space data with
  | [] => None
  | c :: r =>
      if c =? 34 then
        match scan_until_quote false r with
        | Some (s, rest) => Some (IString (remove_backslash s), rest)
        | None => Some (IBad, [])
        end
      else if c =? 40 then Some (IParen, [])
      else if (c =? 92) || (c =? 41) then Some (IBad, [])
      else if oct_sep c then Some (ISep c, r)
      else if oct_token c then let (t, rest) := span oct_token (c :: r) in Some (IToken t, rest)
      else Some (IBad, [])
  end.

Fixpoint lex_fuel (fuel : nat) (data : list byte) : list item :=
  match fuel with
  | O => []
  | S f =>
      match next_item data with
      | None => []
      | Some (IBad, _) => [IBad]
      | Some (IParen, _) => [IParen]
      | Some (x, rest) => x :: lex_fuel f rest
      end
  end.
(* every Next consumes at least one byte *)
Definition lex (data : list byte) : list item := lex_fuel (S (length data)) data.

(* ---------- ScanTokens ---------- *)
Section ScanTokens.
  Variable A : Type.
  Variable it : A -> list byte -> A * bool.      (* new accumulator, continue? *)
  Fixpoint scan_tokens_loop (items : list item) (a : A) (ok : bool) : A * bool :=
    match items with
    | [] => (a, ok)
    | IToken t :: r =>
        let (a', cont) := it a t in
        if cont then scan_tokens_loop r a' true else (a', true)
    | ISep c :: r => if c =? 44 then scan_tokens_loop r a ok else (a, false)
    | _ => (a, false)
    end.
  Definition scan_tokens (data : list byte) (a : A) : A * bool :=
    scan_tokens_loop (lex data) a false.
End ScanTokens.

(* all tokens of a well-formed list (callback never stops) *)
Definition token_list (data : list byte) : list (list byte) * bool :=
  scan_tokens _ (fun acc t => (acc ++ [t], true)) data [].

(* ---------- Option and its parameter list ---------- *)
Record hopt := mkOpt { o_name : list byte; o_params : list (list byte * list byte) }.
Definition params_size (ps : list (list byte * list byte)) : N :=
  fold_right (fun kv acc => len (fst kv) + len (snd kv) + acc) 0 ps.
Definition opt_size (o : hopt) : N := len (o_name o) + params_size (o_params o).
Definition opt_zero : hopt := mkOpt [] [].
Definition opt_set (o : hopt) (k v : list byte) : hopt := mkOpt (o_name o) (o_params o ++ [(k, v)]).

(* ---------- ScanOptions ---------- *)
Inductive so_state := StKey | StParamBeforeName | StParamName | StParamBeforeValue | StParamValue.
Inductive control := CContinue | CBreak.

Record so_vars := mkSo {
  so_st : so_state; so_index : N; so_key : list byte; so_param : option (list byte);
  so_value : list byte; so_must : bool }.

(* one lexer item: new variables, call flag, growIndex; None = "return false" *)
Definition so_trans (x : item) (v : so_vars) : option (so_vars * bool * N) :=
  match x with
  | IToken t =>
      match so_st v with
      | StKey | StParamBeforeName =>
          Some (mkSo StParamBeforeName (so_index v) t (so_param v) (so_value v) true, false, 0)
      | StParamName =>
          Some (mkSo StParamBeforeValue (so_index v) (so_key v) (Some t) (so_value v) true, false, 0)
      | StParamValue =>
          Some (mkSo StParamBeforeName (so_index v) (so_key v) (so_param v) t (so_must v), true, 0)
      | StParamBeforeValue => None
      end
  | IString s =>
      match so_st v with
      | StParamValue =>
          Some (mkSo StParamBeforeName (so_index v) (so_key v) (so_param v) s (so_must v), true, 0)
      | _ => None
      end
  | ISep c =>
      if c =? 44 then
        match so_st v with
        | StKey => Some (v, false, 0)
        | StParamBeforeName =>
            if so_must v
            then Some (mkSo StKey (so_index v) (so_key v) (so_param v) (so_value v) (so_must v), true, 1)
            else Some (mkSo StKey (so_index v + 1) (so_key v) (so_param v) (so_value v) (so_must v), false, 0)
        | StParamBeforeValue =>
            Some (mkSo StKey (so_index v) (so_key v) (so_param v) (so_value v) (so_must v), true, 1)
        | _ => None
        end
      else if c =? 59 then
        match so_st v with
        | StParamBeforeName =>
            Some (mkSo StParamName (so_index v) (so_key v) (so_param v) (so_value v) (so_must v), false, 0)
        | StParamBeforeValue =>
            Some (mkSo StParamName (so_index v) (so_key v) (so_param v) (so_value v) (so_must v), true, 0)
        | _ => None
        end
      else if c =? 61 then
        match so_st v with
        | StParamBeforeValue =>
            Some (mkSo StParamValue (so_index v) (so_key v) (so_param v) (so_value v) (so_must v), false, 0)
        | _ => None
        end
      else None
  | IParen | IBad => None
  end.

Section ScanOptions.
  Variable A : Type.
  (* it(index, option, attribute, value); attribute = None is Go's nil *)
  Variable it : A -> N -> list byte -> option (list byte) -> list byte -> A * control.

  Definition so_finish (v : so_vars) (ok lexerr : bool) (a : A) : A * bool :=
    if so_must v
    then (fst (it a (so_index v) (so_key v) (so_param v) (so_value v)), negb lexerr)
    else (a, ok && negb lexerr).

  Fixpoint scan_options_loop (items : list item) (v : so_vars) (ok : bool) (a : A) : A * bool :=
    match items with
    | [] => so_finish v ok false a
    | IBad :: _ => so_finish v ok true a
    | IParen :: _ => (a, false)
    | x :: rest =>
        match so_trans x v with
        | None => (a, false)
        | Some (v', call, grow) =>
            if call then
              match it a (so_index v') (so_key v') (so_param v') (so_value v') with
              | (a', CBreak) => (a', true)
              | (a', CContinue) =>
                  scan_options_loop rest
                    (mkSo (so_st v') (so_index v' + grow) (so_key v') None [] false) true a'
              end
            else scan_options_loop rest v' ok a
        end
    end.

  Definition scan_options (data : list byte) (a : A) : A * bool :=
    scan_options_loop (lex data) (mkSo StKey 0 [] None [] false) false a.
End ScanOptions.

(* ParseOptions-like view: the options of a header value, in order *)
Record po_acc := mkPo { po_index : option N; po_opts : list hopt }.
Definition po_it (a : po_acc) (idx : N) (name : list byte) (attr : option (list byte)) (val : list byte)
  : po_acc * control :=
  let a1 := match po_index a with
            | Some i => if i =? idx then a else mkPo (Some idx) (po_opts a ++ [mkOpt name []])
            | None => mkPo (Some idx) (po_opts a ++ [mkOpt name []])
            end in
  let a2 := match attr with
            | Some k => mkPo (po_index a1)
                             (match rev (po_opts a1) with
                              | o :: r => rev r ++ [opt_set o k val]
                              | [] => []
                              end)
            | None => a1
            end in
  (a2, CContinue).
Definition parse_options (data : list byte) : list hopt * bool :=
  let (a, ok) := scan_options _ po_it data (mkPo None []) in (po_opts a, ok).

(* ---------- OptionSelector{Flags: SelectCopy, Check: check}.Select ---------- *)
Record sel_acc := mkSel { sel_cur : hopt; sel_has : bool; sel_index : option N; sel_opts : list hopt }.
Definition sel_it (check : hopt -> bool) (a : sel_acc) (idx : N) (name : list byte)
           (attr : option (list byte)) (val : list byte) : sel_acc * control :=
  let same := match sel_index a with Some i => i =? idx | None => false end in
  let a1 := if same then a
            else
              let opts := if sel_has a && check (sel_cur a) then sel_opts a ++ [sel_cur a] else sel_opts a in
              mkSel (mkOpt name []) true (Some idx) opts in
  let a2 := match attr with
            | Some k => mkSel (opt_set (sel_cur a1) k val) (sel_has a1) (sel_index a1) (sel_opts a1)
            | None => a1
            end in
  (a2, CContinue).
Definition select_options (check : hopt -> bool) (data : list byte) (options : list hopt)
  : list hopt * bool :=
  let (a, ok) := scan_options _ (sel_it check) data (mkSel opt_zero false None options) in
  let opts := if sel_has a && check (sel_cur a) then sel_opts a ++ [sel_cur a] else sel_opts a in
  (opts, ok).

(* ---------- writer.go: WriteOptions ---------- *)
Fixpoint escape_quoted (l : list byte) : list byte :=
  match l with
  | [] => []
  | c :: r => if oct_control c || (c =? 34) then 92 :: c :: escape_quoted r else c :: escape_quoted r
  end.
Definition write_token_sanitized (b : list byte) : list byte :=
  if forallb oct_token b then b else 34 :: escape_quoted b ++ [34].
Fixpoint write_params (ps : list (list byte * list byte)) : list byte :=
  match ps with
  | [] => []
  | (k, v) :: r =>
      59 :: write_token_sanitized k
      ++ (match v with [] => [] | _ => 61 :: write_token_sanitized v end)
      ++ write_params r
  end.
Definition write_option (o : hopt) : list byte :=
  write_token_sanitized (o_name o) ++ write_params (o_params o).
Fixpoint write_options (os : list hopt) : list byte :=
  match os with
  | [] => []
  | [o] => write_option o
  | o :: r => write_option o ++ 44 :: write_options r
  end.
