(* HsBufio.v — an io.Reader that delivers its bytes in arbitrary chunks (the chunking
   oracle), Go's bufio.Reader (fill / ReadSlice with ErrBufferFull / Buffered) on top of
   it, and util.go:readLine transcribed over both.  Also the flat view of a reader and the
   flat specification of "next line".  Definitions only; proofs in HsBufioProofs.v.

   Reader contract assumed for the transport: Read returns (n>0, nil) or (0, err); an
   empty chunk stands for a (0, nil) read, which bufio.fill retries. *)
Require Import Bytes.
Open Scope N_scope.

(* how the transport ends once its chunks are exhausted: io.EOF or another error *)
Inductive tail_kind := TEof | TFail.

(* bufio.Reader state: the unread part of its buffer (buf[r:w]) and the transport *)
Record reader := mkReader {
  r_pending : list byte;
  r_chunks : list (list byte);
  r_tail : tail_kind }.

Definition flat (r : reader) : list byte := r_pending r ++ concat (r_chunks r).

(* first '\n': (bytes up to and including it, bytes after it) *)
Fixpoint split_nl (l : list byte) : option (list byte * list byte) :=
  match l with
  | [] => None
  | b :: r =>
      if b =? 10 then Some ([b], r)
      else match split_nl r with
           | Some (x, y) => Some (b :: x, y)
           | None => None
           end
  end.

(* util.go:readLine, the cut of "\n" or "\r\n" from a line that ends in '\n' *)
Definition cut_eol (l : list byte) : list byte :=
  match rev l with
  | _ :: 13 :: r => rev r
  | _ :: r => rev r
  | [] => []
  end.

Inductive line_res :=
  | LOk (line : list byte)
  | LErr (t : tail_kind) (partial : list byte)   (* I/O error; the bytes read so far *)
  | LFuel.                                       (* out of fuel: excluded by read_line_flat *)

(* readLine's outer loop merged with ReadSlice's inner loop.
   [line] = bytes accumulated over ErrBufferFull rounds, [pending] = buf[r:w]. *)
Fixpoint read_line_fuel (fuel : nat) (B : N) (line pending : list byte)
         (chunks : list (list byte)) (t : tail_kind) : line_res * reader :=
  match fuel with
  | O => (LFuel, mkReader pending chunks t)
  | S f =>
      match split_nl pending with
      | Some (l, rest) =>                       (* delimiter found in the buffer *)
          (LOk (cut_eol (line ++ l)), mkReader rest chunks t)
      | None =>
          if B <=? len pending then              (* Buffered() >= len(buf): ErrBufferFull, *)
            read_line_fuel f B (line ++ pending) [] chunks t  (* readLine copies and goes on *)
          else
            match chunks with
            | [] => (LErr t (line ++ pending), mkReader [] [] t)   (* Read -> (0, err) *)
            | c :: cs =>                         (* fill: one Read into buf[w:] *)
                let k := B - len pending in
                if len c <=? k then read_line_fuel f B line (pending ++ c) cs t
                else read_line_fuel f B line (pending ++ take k c) (drop k c :: cs) t
            end
      end
  end.

Definition read_line_measure (pending : list byte) (chunks : list (list byte)) : nat :=
  (2 * length (concat chunks) + length chunks + 2)%nat.

Definition read_line (B : N) (r : reader) : line_res * reader :=
  read_line_fuel (read_line_measure (r_pending r) (r_chunks r)) B [] (r_pending r) (r_chunks r) (r_tail r).

(* ---- flat view: all complete raw lines (each ending in '\n') and the unterminated rest ---- *)
Fixpoint raw_lines_acc (cur : list byte) (l : list byte) : list (list byte) * list byte :=
  match l with
  | [] => ([], rev cur)
  | b :: r =>
      if b =? 10 then
        let (ls, rem) := raw_lines_acc [] r in (rev (b :: cur) :: ls, rem)
      else raw_lines_acc (b :: cur) r
  end.
Definition raw_lines (l : list byte) : list (list byte) * list byte := raw_lines_acc [] l.

(* ---- a line-driven machine: the shape shared by the header loops of Upgrader.Upgrade
   and Dialer.Upgrade.  [step] handles a non-blank line and either continues with a new
   state or stops with a result; a blank line ends the loop; an I/O error ends it. ---- *)
Section Machine.
  Variables (S R : Type).
  Variable step : S -> list byte -> S + R.
  Variable on_blank : S -> R.
  Variable on_ioerr : S -> tail_kind -> list byte -> R.
  Variable on_fuel : R.

  Fixpoint run_stream (fuel : nat) (B : N) (s : S) (r : reader) : R * reader :=
    match fuel with
    | O => (on_fuel, r)
    | Datatypes.S f =>
        match read_line B r with
        | (LOk line, r') =>
            match line with
            | [] => (on_blank s, r')
            | _ => match step s line with
                   | inl s' => run_stream f B s' r'
                   | inr res => (res, r')
                   end
            end
        | (LErr t p, r') => (on_ioerr s t p, r')
        | (LFuel, r') => (on_fuel, r')
        end
    end.

  (* the same loop over the flat view: raw lines, unterminated rest, tail *)
  Fixpoint run_lines (s : S) (ls : list (list byte)) (rem : list byte) (t : tail_kind)
    : R * option (list (list byte)) :=      (* result, raw lines left unread (None: I/O error) *)
    match ls with
    | [] => (on_ioerr s t rem, None)
    | l :: ls' =>
        match cut_eol l with
        | [] => (on_blank s, Some ls')
        | line => match step s line with
                  | inl s' => run_lines s' ls' rem t
                  | inr res => (res, Some ls')
                  end
        end
    end.
End Machine.

(* pbufio.GetReader(conn, nonZero(size, dflt)): power-of-two classes 256..65536 are
   pooled (size rounded up), other sizes are allocated as asked; bufio's minimum is 16 *)
Fixpoint ceil_pow2_from (fuel : nat) (p n : N) : N :=
  match fuel with
  | O => p
  | S f => if n <=? p then p else ceil_pow2_from f (2 * p) n
  end.
Definition ceil_pow2 (n : N) : N := if n <=? 2 then n else ceil_pow2_from 64 1 n.
Definition pool_buf_size (requested dflt : N) : N :=
  let s := if requested =? 0 then dflt else requested in
  let c := ceil_pow2 s in
  let n := if (256 <=? c) && (c <=? 65536) then c else s in
  N.max n 16.
