(* Bytes.v — bytes as N < 256, big/little endian, basic list helpers.
   Definitions only plus small structural lemmas used everywhere. *)
From Coq Require Export NArith ZArith List Bool Lia.
From Coq Require Import ZifyBool ZifyN ZifyNat.
Export ListNotations.
Open Scope N_scope.

Definition byte := N.
Definition wf_byte (b : byte) : Prop := b < 256.
Definition wf_bytes (l : list byte) : Prop := Forall wf_byte l.
Definition wf_byteb (b : byte) : bool := b <? 256.
Definition wf_bytesb (l : list byte) : bool := forallb wf_byteb l.

Definition len {A} (l : list A) : N := N.of_nat (length l).
Definition take {A} (n : N) (l : list A) := firstn (N.to_nat n) l.
Definition drop {A} (n : N) (l : list A) := skipn (N.to_nat n) l.

(* big-endian value of a byte list *)
Fixpoint be_val (l : list byte) : N :=
  match l with
  | [] => 0
  | b :: r => b * 256 ^ len r + be_val r
  end.

(* big-endian encoding on w bytes *)
Fixpoint be_bytes (w : nat) (v : N) : list byte :=
  match w with
  | O => []
  | S w' => (v / 256 ^ N.of_nat w') mod 256 :: be_bytes w' v
  end.

(* little-endian *)
Fixpoint le_val (l : list byte) : N :=
  match l with
  | [] => 0
  | b :: r => b + 256 * le_val r
  end.
Fixpoint le_bytes (w : nat) (v : N) : list byte :=
  match w with
  | O => []
  | S w' => v mod 256 :: le_bytes w' (v / 256)
  end.

Definition nthb (l : list byte) (i : N) : byte := nth (N.to_nat i) l 0.

(* equality on byte lists, boolean *)
Fixpoint bytes_eqb (a b : list byte) : bool :=
  match a, b with
  | [], [] => true
  | x :: a', y :: b' => (x =? y) && bytes_eqb a' b'
  | _, _ => false
  end.
