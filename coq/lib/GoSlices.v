(* GoSlices.v — the (trusted, hand-written) target vocabulary of the source translator v2
   (`harness translate2` -> gen/Translated2.v).  Definitions only; keep them tiny.

   Values
     Go integers            Z   (a value of a Go integer type is meant to lie in the type's range;
                                 the translator wraps after + - * << unary- ^ and narrowing conversions)
     Go bool                bool
     Go []byte              list Z, every element in 0..255.  A slice of a slice is a VALUE (sub-list):
                            no sharing is modelled; nil and the empty slice are both [].
     Go error               option g_error (generated), nil = None
   Results
     res A = Ok a | Panic | OutOfFuel.   Panic = a Go run-time panic (index or slice bounds);
     OutOfFuel = a loop ran longer than the fuel the translator chose; both are distinct from every
     normal result and are excluded by the theorems of proofs/Translated2Ok.v.
   Bounds (Go spec, "Index expressions", "Slice expressions"):
     b[i]    panics unless 0 <= i < len(b)
     b[i:j]  panics unless 0 <= i <= j <= cap(b).  cap is not modelled; go_slice demands j <= len(b).
             Since len(b) <= cap(b), go_slice panics whenever Go does (and in the additional case
             len < j <= cap, which the no-panic theorems therefore also exclude); whenever go_slice
             does not panic, Go does not either and returns these very bytes. *)
From Coq Require Import ZArith List Bool.
Import ListNotations.
Open Scope Z_scope.

Inductive res (A : Type) : Type := Ok (a : A) | Panic | OutOfFuel.
Arguments Ok {A} a.
Arguments Panic {A}.
Arguments OutOfFuel {A}.

Definition bind {A B : Type} (m : res A) (f : A -> res B) : res B :=
  match m with Ok a => f a | Panic => Panic | OutOfFuel => OutOfFuel end.

Declare Scope go_scope.
Delimit Scope go_scope with go.
Notation "x <- e ;; k" := (bind e (fun x => k))
  (at level 61, e at next level, right associativity) : go_scope.
Notation "' p <- e ;; k" := (bind e (fun p => k))
  (at level 61, p pattern, e at next level, right associativity) : go_scope.

(* what one evaluation of `condition; body; post` of a for loop does *)
Inductive step (S R : Type) : Type := Continue (s : S) | Break (s : S) | Return (r : R).
Arguments Continue {S R} s.
Arguments Break {S R} s.
Arguments Return {S R} r.

(* for loop: inl s = left normally with state s, inr r = `return r` from inside the loop *)
Fixpoint go_loop {S R : Type} (fuel : nat) (body : S -> res (step S R)) (s : S) : res (S + R) :=
  match fuel with
  | O => OutOfFuel
  | Datatypes.S fuel' =>
      match body s with
      | Ok (Continue s') => go_loop fuel' body s'
      | Ok (Break s') => Ok (inl s')
      | Ok (Return r) => Ok (inr r)
      | Panic => Panic
      | OutOfFuel => OutOfFuel
      end
  end.

(* integer wrap-around, as in gen/Translated.v *)
Definition wrap_u (k x : Z) : Z := x mod 2 ^ k.
Definition wrap_s (k x : Z) : Z := (x + 2 ^ (k - 1)) mod 2 ^ k - 2 ^ (k - 1).

(* len(b) *)
Definition go_len (b : list Z) : Z := Z.of_nat (length b).

(* b[i] *)
Definition go_index (b : list Z) (i : Z) : res Z :=
  if (0 <=? i) && (i <? go_len b) then Ok (nth (Z.to_nat i) b 0) else Panic.

(* b[i:j]  (b[i:] = go_slice b i (go_len b), b[:j] = go_slice b 0 j) *)
Definition go_slice (b : list Z) (i j : Z) : res (list Z) :=
  if (0 <=? i) && (i <=? j) && (j <=? go_len b)
  then Ok (firstn (Z.to_nat (j - i)) (skipn (Z.to_nat i) b))
  else Panic.

(* b[i] = v, as a new value *)
Definition go_set_index (b : list Z) (i v : Z) : res (list Z) :=
  if (0 <=? i) && (i <? go_len b)
  then Ok (firstn (Z.to_nat i) b ++ v :: skipn (Datatypes.S (Z.to_nat i)) b)
  else Panic.

(* bytes.IndexByte(b, c): index of the first c, -1 if there is none *)
Fixpoint go_index_byte (b : list Z) (c : Z) : Z :=
  match b with
  | [] => -1
  | x :: r => if x =? c then 0
              else let k := go_index_byte r c in if k <? 0 then -1 else k + 1
  end.

(* bytes.Equal(a, b) *)
Fixpoint go_bytes_equal (a b : list Z) : bool :=
  match a, b with
  | [], [] => true
  | x :: a', y :: b' => (x =? y) && go_bytes_equal a' b'
  | _, _ => false
  end.

(* err != nil *)
Definition go_is_err {E : Type} (e : option E) : bool :=
  match e with Some _ => true | None => false end.

(* every element is a byte *)
Definition go_bytes (b : list Z) : Prop := Forall (fun x => 0 <= x < 256) b.
(* the length of a Go slice is an int *)
Definition go_fits (b : list Z) : Prop := go_len b <= 9223372036854775807.
