(* LTS.v — labelled transition systems given by an executable step function:
   runs, the invariant rule, finite closure certificates (a table of states
   closed under [step] contains every reachable state — model checking inside
   the kernel, lifted to runs of any length by induction), executable trace
   acceptance with hidden steps (subset construction), bounded "can reach" and
   "must reach" searches with their soundness lemmas.
   No axioms; all recursion structural (on the trace or on explicit fuel). *)
From Coq Require Import List Bool Arith Lia PArith FMapPositive.
Import ListNotations.

Set Implicit Arguments.

Section LTS.
  Variables state label : Type.
  Variable step : state -> label -> option state.

  Inductive run : state -> list label -> state -> Prop :=
  | run_nil : forall s, run s [] s
  | run_cons : forall s l s' tr s'', step s l = Some s' -> run s' tr s'' -> run s (l :: tr) s''.

  Lemma run_app : forall s1 t1 s2 t2 s3, run s1 t1 s2 -> run s2 t2 s3 -> run s1 (t1 ++ t2) s3.
  Proof.
    intros s1 t1 s2 t2 s3 H1; induction H1 as [|s l s' tr s'' Hs H1 IH]; intros H2; simpl; auto.
    econstructor; eauto.
  Qed.

  Lemma run_snoc : forall s1 t s2 l s3, run s1 t s2 -> step s2 l = Some s3 -> run s1 (t ++ [l]) s3.
  Proof. intros. eapply run_app; eauto. econstructor; eauto. constructor. Qed.

  Lemma run_app_inv : forall t1 t2 s1 s3, run s1 (t1 ++ t2) s3 -> exists s2, run s1 t1 s2 /\ run s2 t2 s3.
  Proof.
    induction t1 as [|l t1 IH]; intros t2 s1 s3 H; simpl in H.
    - exists s1; split; [constructor|assumption].
    - inversion H as [|? ? s' ? ? Hs Hr]; subst.
      destruct (IH _ _ _ Hr) as [s2 [Ha Hb]]. exists s2; split; [econstructor; eauto|assumption].
  Qed.

  (* the invariant rule: unbounded, by induction over the run *)
  Theorem invariant_rule : forall (P : state -> Prop) s0,
    P s0 -> (forall s l s', P s -> step s l = Some s' -> P s') ->
    forall tr s, run s0 tr s -> P s.
  Proof.
    intros P s0 H0 Hstep tr s Hr. induction Hr as [|s l s' tr s'' Hs Hr IH]; auto.
    apply IH. eapply Hstep; eauto.
  Qed.


  (* deterministic execution of a label list (for witnesses) *)
  Fixpoint exec (s : state) (tr : list label) : option state :=
    match tr with
    | [] => Some s
    | l :: tr' => match step s l with Some s' => exec s' tr' | None => None end
    end.

  Lemma exec_run : forall tr s s', exec s tr = Some s' -> run s tr s'.
  Proof.
    induction tr as [|l tr IH]; intros s s' H; simpl in H.
    - inversion H; subst; constructor.
    - destruct (step s l) as [s1|] eqn:Hs; [|discriminate]. econstructor; eauto.
  Qed.

  (* ---------- finite closure certificate ---------- *)
  Variable key : state -> positive.          (* any hash; correctness does not depend on it *)
  Variable eqb : state -> state -> bool.
  Hypothesis eqb_eq : forall a b, eqb a b = true -> a = b.
  Variable labels : list label.
  Hypothesis labels_all : forall l, In l labels.

  Definition table := PositiveMap.t (list state).

  Definition mem (s : state) (T : table) : bool :=
    match PositiveMap.find (key s) T with
    | Some b => existsb (eqb s) b
    | None => false
    end.

  Definition all_states (T : table) : list state :=
    flat_map (fun kb => snd kb) (PositiveMap.elements T).

  Lemma mem_in : forall s T, mem s T = true -> In s (all_states T).
  Proof.
    intros s T H. unfold mem in H.
    destruct (PositiveMap.find (key s) T) as [b|] eqn:Hf; [|discriminate].
    apply existsb_exists in H. destruct H as [x [Hin Hx]]. apply eqb_eq in Hx; subst x.
    unfold all_states. apply in_flat_map. exists (key s, b). split; [|exact Hin].
    apply PositiveMap.elements_correct. exact Hf.
  Qed.

  Definition insert (s : state) (T : table) : table :=
    match PositiveMap.find (key s) T with
    | Some b => PositiveMap.add (key s) (s :: b) T
    | None => PositiveMap.add (key s) [s] T
    end.

  Definition succs (s : state) : list state :=
    flat_map (fun l => match step s l with Some s' => [s'] | None => [] end) labels.

  (* worklist exploration; only used to COMPUTE a candidate table, whose closure
     is then checked by [closedb] — no theorem about [explore] is needed *)
  Fixpoint explore (fuel : nat) (work : list state) (T : table) : table * bool :=
    match fuel with
    | O => (T, match work with [] => true | _ => false end)
    | S f =>
      match work with
      | [] => (T, true)
      | s :: w => if mem s T then explore f w T else explore f (succs s ++ w) (insert s T)
      end
    end.

  Definition closedb (T : table) : bool :=
    forallb (fun s => forallb (fun s' => mem s' T) (succs s)) (all_states T).

  Lemma succs_spec : forall s l s', step s l = Some s' -> In s' (succs s).
  Proof.
    intros s l s' H. unfold succs. apply in_flat_map. exists l. split; [apply labels_all|].
    rewrite H. left; reflexivity.
  Qed.

  Theorem closed_step : forall T, closedb T = true ->
    forall s, In s (all_states T) -> forall l s', step s l = Some s' -> In s' (all_states T).
  Proof.
    intros T Hc s Hin l s' Hs. unfold closedb in Hc. rewrite forallb_forall in Hc.
    specialize (Hc s Hin). rewrite forallb_forall in Hc. apply mem_in. apply Hc.
    eapply succs_spec; eauto.
  Qed.

  (* every state reachable by a run of ANY length lies in a closed table *)
  Theorem reach_in_table : forall T s0, closedb T = true -> mem s0 T = true ->
    forall tr s, run s0 tr s -> In s (all_states T).
  Proof.
    intros T s0 Hc H0 tr s Hr.
    apply (invariant_rule (fun s => In s (all_states T))) with (s0 := s0) (tr := tr); auto.
    - apply mem_in; assumption.
    - intros; eapply closed_step; eauto.
  Qed.

  Theorem table_forall : forall (P : state -> bool) T,
    forallb P (all_states T) = true -> forall s, In s (all_states T) -> P s = true.
  Proof. intros P T H s Hin. rewrite forallb_forall in H. auto. Qed.

  (* ---------- bounded searches over a sub-alphabet ---------- *)
  Variable goal : state -> bool.

  (* [can_reach sched n s]: following the scheduler's choice for at most n steps hits goal *)
  Variable sched : state -> option label.
  Fixpoint can_reach (n : nat) (s : state) : bool :=
    goal s ||
    match n with
    | O => false
    | S n' => match sched s with
              | Some l => match step s l with Some s' => can_reach n' s' | None => false end
              | None => false
              end
    end.

  Fixpoint sched_trace (n : nat) (s : state) : list label :=
    if goal s then [] else
    match n with
    | O => []
    | S n' => match sched s with
              | Some l => match step s l with Some s' => l :: sched_trace n' s' | None => [] end
              | None => []
              end
    end.

  Theorem can_reach_sound : forall (ok : label -> bool),
    (forall s l, sched s = Some l -> ok l = true) ->
    forall n s, can_reach n s = true ->
    exists tr s', run s tr s' /\ goal s' = true /\ Forall (fun l => ok l = true) tr /\ length tr <= n.
  Proof.
    intros ok Hok n; induction n as [|n IH]; intros s H; simpl in H.
    - rewrite orb_false_r in H. exists [], s. repeat split; auto. constructor.
    - destruct (goal s) eqn:Hg.
      + exists [], s. repeat split; auto. constructor. simpl; lia.
      + simpl in H. destruct (sched s) as [l|] eqn:Hsch; [|discriminate].
        destruct (step s l) as [s'|] eqn:Hst; [|discriminate].
        destruct (IH _ H) as [tr [s'' [Hr [Hgo [Hall Hlen]]]]].
        exists (l :: tr), s''. repeat split; auto.
        * econstructor; eauto.
        * constructor; eauto.
        * simpl; lia.
  Qed.

  (* [must_reach sub n s]: EVERY maximal path over the sub-alphabet [sub] reaches goal
     within n steps, and never deadlocks before *)
  Variable sub : list label.
  Definition sub_succs (s : state) : list state :=
    flat_map (fun l => match step s l with Some s' => [s'] | None => [] end) sub.

  Fixpoint must_reach (n : nat) (s : state) : bool :=
    goal s ||
    match n with
    | O => false
    | S n' => match sub_succs s with
              | [] => false
              | ss => forallb (must_reach n') ss
              end
    end.

  Lemma sub_succs_spec : forall s l s', In l sub -> step s l = Some s' -> In s' (sub_succs s).
  Proof.
    intros s l s' Hin H. unfold sub_succs. apply in_flat_map. exists l. split; auto.
    rewrite H; left; reflexivity.
  Qed.

  (* no deadlock short of the goal, and every sub-path of length n has met the goal *)
  Theorem must_reach_sound : forall n s, must_reach n s = true ->
    (goal s = true \/ exists l s', In l sub /\ step s l = Some s') /\
    (forall tr s', run s tr s' -> Forall (fun l => In l sub) tr -> length tr = n ->
       exists t1 t2 sm, tr = t1 ++ t2 /\ run s t1 sm /\ goal sm = true).
  Proof.
    induction n as [|n IH]; intros s H; simpl in H.
    - rewrite orb_false_r in H. split; [left; assumption|].
      intros tr s' Hr _ Hlen. exists [], tr, s. repeat split; auto. constructor.
    - destruct (goal s) eqn:Hg.
      + split; [left; reflexivity|]. intros tr s' Hr _ _. exists [], tr, s. repeat split; auto. constructor.
      + simpl in H. destruct (sub_succs s) as [|x xs] eqn:Hss; [discriminate|].
        split.
        * right. assert (Hin : In x (sub_succs s)) by (rewrite Hss; left; reflexivity).
          unfold sub_succs in Hin. apply in_flat_map in Hin. destruct Hin as [l [Hl Hx]].
          destruct (step s l) as [s1|] eqn:Hst; [|destruct Hx].
          exists l, s1. split; auto.
        * intros tr s' Hr Hall Hlen. destruct tr as [|l tr]; [discriminate|].
          inversion Hr as [|? ? s1 ? ? Hst Hr']; subst. inversion Hall as [|? ? Hl Hall']; subst.
          assert (Hin : In s1 (sub_succs s)) by (eapply sub_succs_spec; eauto).
          rewrite Hss in Hin. change (forallb (must_reach n) (x :: xs) = true) in H.
          rewrite forallb_forall in H. specialize (H _ Hin).
          destruct (IH _ H) as [_ IH2].
          destruct (IH2 tr s' Hr' Hall') as [t1 [t2 [sm [He [Hr1 Hgm]]]]]; [simpl in Hlen; lia|].
          exists (l :: t1), t2, sm. subst tr. repeat split; auto. econstructor; eauto.
  Qed.

  (* ---------- trace acceptance with hidden labels ---------- *)
  Variable visible : label -> bool.
  Variable hidden : list label.
  Hypothesis hidden_invisible : forall l, In l hidden -> visible l = false.

  Fixpoint dedup (l : list state) : list state :=
    match l with
    | [] => []
    | x :: r => if existsb (eqb x) r then dedup r else x :: dedup r
    end.

  Lemma dedup_in : forall l x, In x (dedup l) -> In x l.
  Proof.
    induction l as [|a l IH]; simpl; intros x H; auto.
    destruct (existsb (eqb a) l); [right; auto|]. destruct H as [H|H]; [left; assumption|right; auto].
  Qed.

  Definition hstep_all (S : list state) : list state :=
    flat_map (fun s => flat_map (fun l => match step s l with Some s' => [s'] | None => [] end) hidden) S.

  (* states reachable from S by at most n hidden steps *)
  Fixpoint hclosure (n : nat) (S : list state) : list state :=
    match n with
    | O => S
    | Datatypes.S n' => match S with [] => [] | _ => dedup (S ++ hclosure n' (dedup (hstep_all S))) end
    end.

  Definition vstep (l : label) (S : list state) : list state :=
    flat_map (fun s => match step s l with Some s' => [s'] | None => [] end) S.

  Fixpoint accept_from (n : nat) (S : list state) (tr : list label) : list state :=
    match tr with
    | [] => S
    | l :: tr' => if visible l then accept_from n (hclosure n (vstep l S)) tr' else []
    end.

  Definition accept_states (n : nat) (s0 : state) (tr : list label) : list state :=
    accept_from n (hclosure n [s0]) tr.

  Definition accepts (n : nat) (s0 : state) (tr : list label) : bool :=
    match accept_states n s0 tr with [] => false | _ => true end.

  (* length of the longest accepted prefix: for diagnostics *)
  Fixpoint accepted_prefix (n : nat) (S : list state) (tr : list label) (k : nat) : nat :=
    match tr with
    | [] => k
    | l :: tr' => if visible l then
                    match hclosure n (vstep l S) with
                    | [] => k
                    | S' => accepted_prefix n S' tr' (Datatypes.S k)
                    end
                  else k
    end.

  Lemma hstep_all_spec : forall S x, In x (hstep_all S) ->
    exists s l, In s S /\ In l hidden /\ step s l = Some x.
  Proof.
    intros S x H. unfold hstep_all in H. apply in_flat_map in H. destruct H as [s [Hs H]].
    apply in_flat_map in H. destruct H as [l [Hl H]].
    destruct (step s l) as [s'|] eqn:Hst; [|destruct H]. destruct H as [H|[]]; subst.
    exists s, l. auto.
  Qed.

  (* x in the closure: reached from some member of S by hidden steps only *)
  Lemma hclosure_sound : forall n S x, In x (hclosure n S) ->
    exists s tr, In s S /\ run s tr x /\ filter visible tr = [].
  Proof.
    induction n as [|n IH]; intros S x H; simpl in H.
    - exists x, []. repeat split; auto. constructor.
    - destruct S as [|a S']; [destruct H|]. apply dedup_in in H. apply in_app_or in H. destruct H as [H|H].
      + exists x, []. repeat split; auto. constructor.
      + destruct (IH _ _ H) as [s [tr [Hs [Hr Hf]]]]. apply dedup_in in Hs.
        destruct (hstep_all_spec _ _ Hs) as [s0 [l [Hs0 [Hl Hst]]]].
        exists s0, (l :: tr). repeat split; auto.
        * econstructor; eauto.
        * simpl. rewrite (hidden_invisible _ Hl). exact Hf.
  Qed.

  Lemma vstep_spec : forall l S x, In x (vstep l S) -> exists s, In s S /\ step s l = Some x.
  Proof.
    intros l S x H. unfold vstep in H. apply in_flat_map in H. destruct H as [s [Hs H]].
    destruct (step s l) as [s'|] eqn:Hst; [|destruct H]. destruct H as [H|[]]; subst. eauto.
  Qed.

  Lemma accept_from_sound : forall n tr S x, In x (accept_from n S tr) ->
    exists s full, In s S /\ run s full x /\ filter visible full = tr.
  Proof.
    induction tr as [|l tr IH]; intros S x H; simpl in H.
    - exists x, []. repeat split; auto. constructor.
    - destruct (visible l) eqn:Hv; [|destruct H].
      destruct (IH _ _ H) as [s1 [f1 [Hs1 [Hr1 Hf1]]]].
      destruct (hclosure_sound _ _ _ Hs1) as [s2 [f2 [Hs2 [Hr2 Hf2]]]].
      destruct (vstep_spec _ _ _ Hs2) as [s3 [Hs3 Hst]].
      exists s3, (l :: f2 ++ f1). repeat split; auto.
      + econstructor; eauto. eapply run_app; eauto.
      + simpl. rewrite Hv. rewrite filter_app, Hf2, Hf1. reflexivity.
  Qed.

  (* an accepted trace is the visible projection of a real run of the LTS *)
  Theorem accepts_sound : forall n s0 tr, accepts n s0 tr = true ->
    exists full s, run s0 full s /\ filter visible full = tr.
  Proof.
    intros n s0 tr H. unfold accepts in H.
    destruct (accept_states n s0 tr) as [|x xs] eqn:Ha; [discriminate|].
    assert (Hin : In x (accept_states n s0 tr)) by (rewrite Ha; left; reflexivity).
    unfold accept_states in Hin.
    destruct (accept_from_sound _ _ _ _ Hin) as [s1 [f1 [Hs1 [Hr1 Hf1]]]].
    destruct (hclosure_sound _ _ _ Hs1) as [s2 [f2 [Hs2 [Hr2 Hf2]]]].
    destruct Hs2 as [Hs2|[]]; subst s2.
    exists (f2 ++ f1), x. split; [eapply run_app; eauto|].
    rewrite filter_app, Hf2, Hf1. reflexivity.
  Qed.

  (* and every final state the acceptor tracks is the end of such a run *)
  Theorem accept_states_sound : forall n s0 tr x, In x (accept_states n s0 tr) ->
    exists full, run s0 full x /\ filter visible full = tr.
  Proof.
    intros n s0 tr x Hin. unfold accept_states in Hin.
    destruct (accept_from_sound _ _ _ _ Hin) as [s1 [f1 [Hs1 [Hr1 Hf1]]]].
    destruct (hclosure_sound _ _ _ Hs1) as [s2 [f2 [Hs2 [Hr2 Hf2]]]].
    destruct Hs2 as [Hs2|[]]; subst s2.
    exists (f2 ++ f1). split; [eapply run_app; eauto|].
    rewrite filter_app, Hf2, Hf1. reflexivity.
  Qed.

  (* ---------- completeness of the acceptor, given a bound on hidden chains ---------- *)
  Hypothesis eqb_refl : forall a, eqb a a = true.

  Lemma dedup_complete : forall l x, In x l -> In x (dedup l).
  Proof.
    induction l as [|a l IH]; simpl; intros x H; auto.
    destruct (existsb (eqb a) l) eqn:He.
    - destruct H as [H|H]; [subst|auto]. apply existsb_exists in He. destruct He as [y [Hy Hey]].
      apply eqb_eq in Hey; subst y. auto.
    - destruct H as [H|H]; [left; assumption|right; auto].
  Qed.

  Lemma hstep_all_complete : forall S s l x, In s S -> In l hidden -> step s l = Some x -> In x (hstep_all S).
  Proof.
    intros S s l x Hs Hl Hst. unfold hstep_all. apply in_flat_map. exists s; split; auto.
    apply in_flat_map. exists l; split; auto. rewrite Hst; left; reflexivity.
  Qed.

  Lemma hclosure_complete : forall n S s tr x, In s S -> run s tr x ->
    Forall (fun l => In l hidden) tr -> length tr <= n -> In x (hclosure n S).
  Proof.
    induction n as [|n IH]; intros S s tr x Hs Hr Hall Hlen.
    - destruct tr; [|simpl in Hlen; lia]. inversion Hr; subst. exact Hs.
    - simpl. destruct S as [|a S']; [destruct Hs|]. apply dedup_complete. apply in_or_app.
      destruct tr as [|l tr].
      + inversion Hr; subst. left; exact Hs.
      + right. inversion Hr as [|? ? s1 ? ? Hst Hr']; subst. inversion Hall; subst.
        eapply IH with (s := s1) (tr := tr); eauto.
        * apply dedup_complete. eapply hstep_all_complete; eauto.
        * simpl in Hlen; lia.
  Qed.

  Lemma vstep_complete : forall l S s x, In s S -> step s l = Some x -> In x (vstep l S).
  Proof.
    intros l S s x Hs Hst. unfold vstep. apply in_flat_map. exists s; split; auto.
    rewrite Hst; left; reflexivity.
  Qed.

  (* ---------- completeness of the acceptor on an invariant set ---------- *)
  Variable P : state -> Prop.
  Hypothesis P_step : forall s l s', P s -> step s l = Some s' -> P s'.
  Variable hm : state -> nat.
  Hypothesis hm_dec : forall s l s', P s -> In l hidden -> step s l = Some s' -> hm s' < hm s.
  Hypothesis label_split : forall l, visible l = false -> In l hidden.

  Lemma P_run : forall s tr x, P s -> run s tr x -> P x.
  Proof. intros s tr x Hp Hr. induction Hr; eauto. Qed.

  Lemma hidden_chain_len : forall s tr x, P s -> run s tr x ->
    Forall (fun l => In l hidden) tr -> length tr <= hm s.
  Proof.
    intros s tr x Hp Hr. induction Hr as [|s l s' tr s'' Hst Hr IH]; intros Hall; simpl; [lia|].
    inversion Hall; subst. assert (hm s' < hm s) by (eapply hm_dec; eauto).
    assert (length tr <= hm s') by (apply IH; eauto). lia.
  Qed.

  Lemma split_hidden_prefix : forall full : list label,
    Forall (fun l => In l hidden) full \/
    exists h l rest, full = h ++ l :: rest /\ Forall (fun l => In l hidden) h /\ visible l = true.
  Proof.
    induction full as [|a full IH]; [left; constructor|].
    destruct (visible a) eqn:Hv.
    - right. exists [], a, full. repeat split; auto.
    - destruct IH as [IH|[h [l [rest [He [Hh Hl]]]]]].
      + left. constructor; auto.
      + right. exists (a :: h), l, rest. subst full. repeat split; auto.
  Qed.

  Lemma filter_hidden_nil : forall tr, Forall (fun l => In l hidden) tr -> filter visible tr = [].
  Proof.
    induction tr as [|a tr IH]; intros H; simpl; auto. inversion H; subst.
    rewrite (hidden_invisible _ H2). auto.
  Qed.

  Lemma accept_from_complete : forall n, (forall s, P s -> hm s <= n) ->
    forall k full, length full <= k -> forall S s x, In s S -> P s -> run s full x ->
    In x (accept_from n (hclosure n S) (filter visible full)).
  Proof.
    intros n Hn. induction k as [|k IH]; intros full Hlen S s x Hs Hp Hr.
    - destruct full; [|simpl in Hlen; lia]. inversion Hr; subst. simpl.
      apply hclosure_complete with (s := x) (tr := []);
        [exact Hs | constructor | constructor | apply Nat.le_0_l].
    - destruct (split_hidden_prefix full) as [Hall|[h [l [rest [He [Hh Hl]]]]]].
      + rewrite (filter_hidden_nil Hall). simpl.
        eapply hclosure_complete; eauto.
        specialize (hidden_chain_len Hp Hr Hall). specialize (Hn _ Hp). lia.
      + subst full. apply run_app_inv in Hr. destruct Hr as [s1 [Hr1 Hr2]].
        inversion Hr2 as [|? ? s2 ? ? Hst Hr3]; subst.
        rewrite filter_app. rewrite (filter_hidden_nil Hh). simpl. rewrite Hl.
        cbn [accept_from]. rewrite Hl.
        assert (Hp1 : P s1) by (eapply P_run; eauto).
        assert (H1 : In s1 (hclosure n S)).
        { eapply hclosure_complete; eauto.
          specialize (hidden_chain_len Hp Hr1 Hh). specialize (Hn _ Hp). lia. }
        eapply IH with (s := s2); eauto.
        * rewrite app_length in Hlen. simpl in Hlen. lia.
        * eapply vstep_complete; eauto.
  Qed.

  (* every run from an invariant state is accepted (through its visible projection),
     and its final state is among the tracked states *)
  Theorem accept_complete : forall n, (forall s, P s -> hm s <= n) ->
    forall s0 full x, P s0 -> run s0 full x -> In x (accept_states n s0 (filter visible full)).
  Proof.
    intros n Hn s0 full x Hp Hr. unfold accept_states.
    eapply accept_from_complete with (k := length full) (s := s0); eauto. left; reflexivity.
  Qed.
End LTS.
