(* HsBase64.v — RFC 4648 section 4 base64 encoding (standard alphabet, '=' padding).
   This is a SPEC (definition), validated against Go's encoding/base64 by correspondence. *)
Require Import Bytes.
Open Scope N_scope.

(* RFC 4648 Table 1 *)
Definition b64_char (v : N) : byte :=
  if v <? 26 then 65 + v            (* A-Z *)
  else if v <? 52 then 97 + (v - 26) (* a-z *)
  else if v <? 62 then 48 + (v - 52) (* 0-9 *)
  else if v =? 62 then 43            (* + *)
  else 47.                           (* / *)

Fixpoint base64 (l : list byte) : list byte :=
  match l with
  | a :: b :: c :: r =>
      b64_char (a / 4) :: b64_char ((a mod 4) * 16 + b / 16)
      :: b64_char ((b mod 16) * 4 + c / 64) :: b64_char (c mod 64) :: base64 r
  | [a; b] =>
      [b64_char (a / 4); b64_char ((a mod 4) * 16 + b / 16); b64_char ((b mod 16) * 4); 61]
  | [a] => [b64_char (a / 4); b64_char ((a mod 4) * 16); 61; 61]
  | [] => []
  end.
