(* Stream.v — an io.Reader as a list of non-empty chunks plus a tail behaviour.
   "For any way the transport splits the bytes" = forall chunks with concat fixed.
   io.ReadFull transcribed as structural recursion on the chunk list. *)
Require Import Bytes.
From Coq Require Import ZifyBool ZifyN ZifyNat.
Open Scope N_scope.

Inductive tail := TEOF | TFail.
Record src := mkSrc { chunks : list (list byte); tl : tail }.
Definition flat (s : src) : list byte := concat (chunks s).
Definition wf_chunks (cs : list (list byte)) : Prop := Forall (fun c => c <> []) cs.
Definition wf_src (s : src) : Prop := wf_chunks (chunks s).

Inductive rerr := EEOF | EUnexpected | EFail.

(* one Read(p) with len p = k > 0: at most k bytes from the head chunk *)
Definition read1 (k : N) (s : src) : (list byte * option rerr) * src :=
  match chunks s with
  | [] => (([], Some (match tl s with TEOF => EEOF | TFail => EFail end)), s)
  | c :: cs' =>
    if k <? len c then ((take k c, None), mkSrc (drop k c :: cs') (tl s))
    else ((c, None), mkSrc cs' (tl s))
  end.

(* io.ReadFull(r, buf) with len buf = need *)
Fixpoint read_full_aux (need : N) (got : bool) (cs : list (list byte)) (t : tail)
  : (list byte * option rerr) * list (list byte) :=
  if need =? 0 then (([], None), cs) else
  match cs with
  | [] => (([], Some (match t with TFail => EFail | TEOF => if got then EUnexpected else EEOF end)), [])
  | c :: cs' =>
    if need <=? len c then
      ((take need c, None), (if need =? len c then cs' else drop need c :: cs'))
    else
      (* io.ReadAtLeast: ErrUnexpectedEOF only when n > 0 BYTES were read — an idle
         (0, nil) read (an empty chunk) does not count *)
      let '((r, e), rest) := read_full_aux (need - len c) (got || negb (len c =? 0)) cs' t in ((c ++ r, e), rest)
  end.
Definition read_full (need : N) (s : src) : (list byte * option rerr) * src :=
  let '(r, rest) := read_full_aux need false (chunks s) (tl s) in (r, mkSrc rest (tl s)).

(* canonical chunkings used in examples and by the harness *)
Definition whole (bs : list byte) (t : tail) : src := mkSrc (match bs with [] => [] | _ => [bs] end) t.
Definition bytewise (bs : list byte) (t : tail) : src := mkSrc (map (fun b => [b]) bs) t.

(* split a flat list according to a list of positive sizes (cycled by the caller);
   sizes that are 0 are treated as 1; the remainder goes in a last chunk *)
Fixpoint chunk_by (sizes : list N) (bs : list byte) : list (list byte) :=
  match bs with
  | [] => []
  | _ =>
    match sizes with
    | [] => [bs]
    | k :: ks =>
      let k' := if k =? 0 then 1 else k in
      take k' bs :: chunk_by ks (drop k' bs)
    end
  end.
