(* Inflate.v — RFC 1951 (DEFLATE) decoder as an executable specification: bit reader
   (LSB first), stored blocks, fixed and dynamic Huffman blocks with canonical codes,
   length/distance pairs copied from the output produced so far.  Recursion is structural
   (Huffman tree, counters) or on explicit fuel; running out of fuel is the distinct
   result [OutOfFuel].  Also a stored-block ENCODER (sync-flushed, RFC 7692 style).
   Definitions only; the facts proved about them are in proofs/InflateProofs.v. *)
Require Import Bytes.
Open Scope N_scope.

(* ---------- bit stream: bytes, least significant bit first ---------- *)
Record bstream := mkBS { bs_bytes : list byte; bs_pos : N }.   (* bs_pos in 0..7 *)

Definition get_bit (s : bstream) : option (bool * bstream) :=
  match bs_bytes s with
  | [] => None
  | b :: r =>
      Some (N.testbit b (bs_pos s),
            if bs_pos s =? 7 then mkBS r 0 else mkBS (bs_bytes s) (bs_pos s + 1))
  end.

(* n bits as a number, first bit read = least significant (RFC 1951 3.1.1) *)
Fixpoint get_bits (n : nat) (s : bstream) : option (N * bstream) :=
  match n with
  | O => Some (0, s)
  | S n' =>
      match get_bit s with
      | None => None
      | Some (b, s1) =>
          match get_bits n' s1 with
          | None => None
          | Some (v, s2) => Some ((if b then 1 else 0) + 2 * v, s2)
          end
      end
  end.

(* skip to the next byte boundary: the bytes that remain *)
Definition align (s : bstream) : list byte :=
  if bs_pos s =? 0 then bs_bytes s else tl (bs_bytes s).

(* ---------- Huffman codes (RFC 1951 3.2.2) ---------- *)
Inductive htree := HEmpty | HLeaf (sym : N) | HNode (z o : htree).

(* insert a code given most significant bit first *)
Fixpoint hinsert (t : htree) (code : list bool) (sym : N) : option htree :=
  match code with
  | [] => match t with HEmpty => Some (HLeaf sym) | _ => None end
  | b :: r =>
      match t with
      | HLeaf _ => None
      | HEmpty =>
          match hinsert HEmpty r sym with
          | Some t' => Some (if b then HNode HEmpty t' else HNode t' HEmpty)
          | None => None
          end
      | HNode z o =>
          if b then match hinsert o r sym with Some o' => Some (HNode z o') | None => None end
          else match hinsert z r sym with Some z' => Some (HNode z' o) | None => None end
      end
  end.

(* the [len] low bits of [code], most significant first *)
Fixpoint code_bits (len : nat) (code : N) : list bool :=
  match len with
  | O => []
  | S l => N.testbit code (N.of_nat l) :: code_bits l code
  end.

Definition count_len (lens : list N) (b : N) : N :=
  len (filter (fun l => l =? b) lens).

(* next_code[bits], bits = 1..15: code = (code + bl_count[bits-1]) << 1, bl_count[0] = 0 *)
Fixpoint next_code (lens : list N) (bits : nat) : N :=
  match bits with
  | O => 0
  | S O => 0
  | S b => 2 * (next_code lens b + count_len lens (N.of_nat b))
  end.
Definition next_codes (lens : list N) : list N :=
  map (next_code lens) (seq 0 16).

Fixpoint set_nth (l : list N) (i : nat) (v : N) : list N :=
  match l, i with
  | [], _ => []
  | _ :: r, O => v :: r
  | x :: r, S i' => x :: set_nth r i' v
  end.

(* assign codes to symbols in order, each taking next_code[len]++ *)
Fixpoint build_tree (lens : list N) (sym : N) (nexts : list N) (t : htree) : option htree :=
  match lens with
  | [] => Some t
  | l :: r =>
      if l =? 0 then build_tree r (sym + 1) nexts t
      else
        let i := N.to_nat l in
        let c := nth i nexts 0 in
        match hinsert t (code_bits i c) sym with
        | Some t' => build_tree r (sym + 1) (set_nth nexts i (c + 1)) t'
        | None => None
        end
  end.
Definition huffman (lens : list N) : option htree :=
  build_tree lens 0 (next_codes lens) HEmpty.

(* decode one symbol: walk the tree, one bit per level *)
Fixpoint hdecode (t : htree) (s : bstream) : option (N * bstream) :=
  match t with
  | HEmpty => None
  | HLeaf sym => Some (sym, s)
  | HNode z o =>
      match get_bit s with
      | None => None
      | Some (b, s') => if b then hdecode o s' else hdecode z s'
      end
  end.

(* ---------- length and distance codes (RFC 1951 3.2.5) ---------- *)
Definition len_base : list N :=
  [3; 4; 5; 6; 7; 8; 9; 10; 11; 13; 15; 17; 19; 23; 27; 31; 35; 43; 51; 59; 67; 83; 99; 115; 131; 163; 195; 227; 258].
Definition len_extra : list nat :=
  [0; 0; 0; 0; 0; 0; 0; 0; 1; 1; 1; 1; 2; 2; 2; 2; 3; 3; 3; 3; 4; 4; 4; 4; 5; 5; 5; 5; 0]%nat.
Definition dist_base : list N :=
  [1; 2; 3; 4; 5; 7; 9; 13; 17; 25; 33; 49; 65; 97; 129; 193; 257; 385; 513; 769; 1025; 1537; 2049; 3073;
   4097; 6145; 8193; 12289; 16385; 24577].
Definition dist_extra : list nat :=
  [0; 0; 0; 0; 1; 1; 2; 2; 3; 3; 4; 4; 5; 5; 6; 6; 7; 7; 8; 8; 9; 9; 10; 10; 11; 11; 12; 12; 13; 13]%nat.

Inductive res (A : Type) := Ok (a : A) | Bad | OutOfFuel.
Arguments Ok {A} a.
Arguments Bad {A}.
Arguments OutOfFuel {A}.

(* copy [n] bytes starting [dist] back; [out] is the output so far, most recent first *)
Fixpoint copy_back (n : nat) (dist : nat) (out : list byte) : option (list byte) :=
  match n with
  | O => Some out
  | S n' =>
      match nth_error out (dist - 1) with
      | Some b => copy_back n' dist (b :: out)
      | None => None
      end
  end.
(* the same, a slice at a time when the ranges do not overlap *)
Definition copy_match (n dist : nat) (out : list byte) : option (list byte) :=
  if (n <=? dist)%nat then
    let seg := firstn n (skipn (dist - n) out) in
    if (length seg =? n)%nat then Some (seg ++ out) else None
  else copy_back n dist out.

(* the literal/length + distance loop of one compressed block *)
Fixpoint inflate_codes (fuel : nat) (lt dt : htree) (s : bstream) (out : list byte)
  : res (bstream * list byte) :=
  match fuel with
  | O => OutOfFuel
  | S f =>
      match hdecode lt s with
      | None => Bad
      | Some (sym, s1) =>
          if sym <? 256 then inflate_codes f lt dt s1 (sym :: out)
          else if sym =? 256 then Ok (s1, out)
          else
            let i := N.to_nat (sym - 257) in
            match nth_error len_base i, nth_error len_extra i with
            | Some lb, Some le =>
                match get_bits le s1 with
                | None => Bad
                | Some (ev, s2) =>
                    match hdecode dt s2 with
                    | None => Bad
                    | Some (dsym, s3) =>
                        let j := N.to_nat dsym in
                        match nth_error dist_base j, nth_error dist_extra j with
                        | Some db, Some de =>
                            match get_bits de s3 with
                            | None => Bad
                            | Some (dv, s4) =>
                                match copy_match (N.to_nat (lb + ev)) (N.to_nat (db + dv)) out with
                                | Some out' => inflate_codes f lt dt s4 out'
                                | None => Bad
                                end
                            end
                        | _, _ => Bad
                        end
                    end
                end
            | _, _ => Bad
            end
      end
  end.

(* fixed Huffman codes (3.2.6) *)
Definition fixed_lit_lens : list N :=
  repeat 8 144 ++ repeat 9 112 ++ repeat 7 24 ++ repeat 8 8.
Definition fixed_dist_lens : list N := repeat 5 30.

(* dynamic block header (3.2.7) *)
Definition clen_order : list nat :=
  [16; 17; 18; 0; 8; 7; 9; 6; 10; 5; 11; 4; 12; 3; 13; 2; 14; 1; 15]%nat.

Fixpoint read_clens (n : nat) (order : list nat) (s : bstream) (acc : list N) : option (list N * bstream) :=
  match n, order with
  | O, _ => Some (acc, s)
  | S n', i :: r =>
      match get_bits 3 s with
      | None => None
      | Some (v, s1) => read_clens n' r s1 (set_nth acc i v)
      end
  | S _, [] => None
  end.

(* the HLIT + HDIST code lengths, run-length coded; [acc] most recent first *)
Fixpoint read_lens (fuel : nat) (ct : htree) (want : nat) (s : bstream) (acc : list N)
  : option (list N * bstream) :=
  if (want <=? length acc)%nat then Some (rev acc, s)
  else
    match fuel with
    | O => None
    | S f =>
        match hdecode ct s with
        | None => None
        | Some (sym, s1) =>
            if sym <? 16 then read_lens f ct want s1 (sym :: acc)
            else if sym =? 16 then
              match acc, get_bits 2 s1 with
              | prev :: _, Some (v, s2) => read_lens f ct want s2 (repeat prev (N.to_nat (3 + v)) ++ acc)
              | _, _ => None
              end
            else if sym =? 17 then
              match get_bits 3 s1 with
              | Some (v, s2) => read_lens f ct want s2 (repeat 0 (N.to_nat (3 + v)) ++ acc)
              | None => None
              end
            else if sym =? 18 then
              match get_bits 7 s1 with
              | Some (v, s2) => read_lens f ct want s2 (repeat 0 (N.to_nat (11 + v)) ++ acc)
              | None => None
              end
            else None
        end
    end.

Definition read_dynamic (s : bstream) : option (htree * htree * bstream) :=
  match get_bits 5 s with
  | None => None
  | Some (hlit, s1) =>
      match get_bits 5 s1 with
      | None => None
      | Some (hdist, s2) =>
          match get_bits 4 s2 with
          | None => None
          | Some (hclen, s3) =>
              match read_clens (N.to_nat (hclen + 4)) clen_order s3 (repeat 0 19) with
              | None => None
              | Some (clens, s4) =>
                  match huffman clens with
                  | None => None
                  | Some ct =>
                      let nl := N.to_nat (hlit + 257) in
                      let nd := N.to_nat (hdist + 1) in
                      match read_lens 400 ct (nl + nd) s4 [] with
                      | None => None
                      | Some (lens, s5) =>
                          if negb (length lens =? nl + nd)%nat then None
                          else
                            match huffman (firstn nl lens), huffman (skipn nl lens) with
                            | Some lt, Some dt => Some (lt, dt, s5)
                            | _, _ => None
                            end
                      end
                  end
              end
          end
      end
  end.

(* stored block (3.2.4): LEN, NLEN = one's complement of LEN, then LEN bytes *)
Definition stored_block (s : bstream) (out : list byte) : option (bstream * list byte) :=
  match align s with
  | l0 :: l1 :: n0 :: n1 :: r =>
      let ln := l0 + 256 * l1 in
      if negb (ln + (n0 + 256 * n1) =? 65535) then None
      else
        let k := N.to_nat ln in
        if (length r <? k)%nat then None
        else Some (mkBS (skipn k r) 0, rev_append (firstn k r) out)
  | _ => None
  end.

(* all blocks.  Returns the data and whether a final block was seen.  A stream that ends
   exactly at a block boundary without a final block (the state after a sync flush) yields
   the data so far with [false]: this is how RFC 7692 uses DEFLATE. *)
Fixpoint inflate_blocks (fuel : nat) (s : bstream) (out : list byte) : res (list byte * bool) :=
  match fuel with
  | O => OutOfFuel
  | S f =>
      match bs_bytes s with
      | [] => Ok (rev_append out [], false)
      | _ =>
          match get_bits 1 s with
          | None => Bad
          | Some (bfinal, s1) =>
              match get_bits 2 s1 with
              | None => Bad
              | Some (btype, s2) =>
                  let after (r : res (bstream * list byte)) : res (list byte * bool) :=
                    match r with
                    | Ok (s3, out') =>
                        if bfinal =? 1 then Ok (rev_append out' [], true) else inflate_blocks f s3 out'
                    | Bad => Bad
                    | OutOfFuel => OutOfFuel
                    end in
                  if btype =? 0 then
                    after (match stored_block s2 out with Some x => Ok x | None => Bad end)
                  else if btype =? 1 then
                    match huffman fixed_lit_lens, huffman fixed_dist_lens with
                    | Some lt, Some dt => after (inflate_codes f lt dt s2 out)
                    | _, _ => Bad
                    end
                  else if btype =? 2 then
                    match read_dynamic s2 with
                    | Some (lt, dt, s3) => after (inflate_codes f lt dt s3 out)
                    | None => Bad
                    end
                  else Bad
              end
          end
      end
  end.

(* every block and every symbol consumes at least one bit *)
Definition inflate_fuel (input : list byte) : nat := S (8 * length input).
Definition inflate_stream (input : list byte) : res (list byte * bool) :=
  inflate_blocks (inflate_fuel input) (mkBS input 0) [].
Definition inflate (input : list byte) : option (list byte) :=
  match inflate_stream input with Ok (d, _) => Some d | _ => None end.

(* ---------- a stored-block encoder, sync-flushed ---------- *)
Definition stored_header (final : bool) (n : N) : list byte :=
  [if final then 1 else 0; n mod 256; n / 256; (65535 - n) mod 256; (65535 - n) / 256].

Definition chunk_max : nat := N.to_nat 65535.
(* non-final stored blocks of at most 65535 bytes each *)
Fixpoint stored_chunks (fuel : nat) (m : list byte) : list byte :=
  match fuel with
  | O => []
  | S f =>
      match m with
      | [] => []
      | _ =>
          let c := firstn chunk_max m in
          stored_header false (len c) ++ c ++ stored_chunks f (skipn chunk_max m)
      end
  end.
Definition sync_tail : list byte := [0; 0; 255; 255].
Definition read_tail : list byte := [0; 0; 255; 255; 1; 0; 0; 255; 255].
(* the message in stored blocks followed by the empty stored block of a sync flush *)
Definition stored_sync (m : list byte) : list byte :=
  stored_chunks (S (length m)) m ++ 0 :: sync_tail.
(* what travels in a compressed WebSocket message: the sync-flushed output minus its tail *)
Definition stored_message (m : list byte) : list byte :=
  stored_chunks (S (length m)) m ++ [0].
