(* GoMem.v — the (trusted, hand-written) MEMORY MODEL and target vocabulary of the source translator v3
   (`harness translate3` -> gen/Translated3.v).  Definitions only; keep them small and obvious.

   World
     heap                   list (list Z): array number a holds the bytes (0..255) of one Go backing array;
                            arrays never move and never shrink; `make` appends a new array at the end.
     out                    the byte strings handed to io.Writer.Write so far, oldest first (an OBSERVATION
                            log, not memory).
   Values
     Go integers / bool     Z / bool, wrap-around explicit (wrap_u / wrap_s of GoSlices.v)
     Go []byte              slice = (array number, offset, len, cap): b[i:j] SHARES the array with b, a
                            store through either is seen through both.  nil = nil_slice (len = cap = 0).
     Go [N]byte, [N]int     list Z of length N: a VALUE (Go copies arrays on assignment and call)
     Go string              list Z: an immutable VALUE
     Go error               option g_error (generated), nil = None
     Go io.Writer/io.Reader oracles (functions), see the end of the file
     struct with a pointer receiver: a record; a []byte field is a slice value (the heap is shared), a
                            [N]byte field is a slice HANDLE (array, 0, N, N) of a heap cell owned by the object
   Computations
     M A = world -> res (A * world), res = Ok | Panic | OutOfFuel (GoSlices.v).  Panic = a Go run-time
     panic (index / slice bounds, negative make); OutOfFuel = a loop ran longer than its fuel.
   Bounds (Go spec): b[i] needs 0 <= i < len b;  b[i:j] needs 0 <= i <= j <= cap b;  a[i], a[i:j] on an
     array or string need the same against its length. *)
From Coq Require Import ZArith List Bool.
Require Import GoSlices.
Import ListNotations.
Open Scope Z_scope.

Record slice : Set := mk_slice { sl_arr : nat; sl_off : Z; sl_len : Z; sl_cap : Z }.
Definition nil_slice : slice := mk_slice 0 0 0 0.

Record world : Type := mk_world { w_heap : list (list Z); w_out : list (list Z) }.

Definition M (A : Type) : Type := world -> res (A * world).
Definition ret {A : Type} (a : A) : M A := fun w => Ok (a, w).
Definition mbind {A B : Type} (m : M A) (f : A -> M B) : M B :=
  fun w => match m w with Ok (a, w') => f a w' | Panic => Panic | OutOfFuel => OutOfFuel end.
(* a computation that does not touch the world (array / string accesses of GoSlices.v) *)
Definition lift {A : Type} (r : res A) : M A :=
  fun w => match r with Ok a => Ok (a, w) | Panic => Panic | OutOfFuel => OutOfFuel end.
Definition m_panic {A : Type} : M A := fun _ => Panic.

Declare Scope gomem_scope.
Delimit Scope gomem_scope with gomem.
Notation "x <- e ;; k" := (mbind e (fun x => k))
  (at level 61, e at next level, right associativity) : gomem_scope.
Notation "' p <- e ;; k" := (mbind e (fun p => k))
  (at level 61, p pattern, e at next level, right associativity) : gomem_scope.

(* for loop over the world: inl s = left normally with state s, inr r = `return r` inside the loop *)
Fixpoint m_loop {S R : Type} (fuel : nat) (body : S -> M (step S R)) (s : S) : M (S + R) :=
  fun w =>
  match fuel with
  | O => OutOfFuel
  | Datatypes.S fuel' =>
      match body s w with
      | Ok (Continue s', w') => m_loop fuel' body s' w'
      | Ok (Break s', w') => Ok (inl s', w')
      | Ok (Return r, w') => Ok (inr r, w')
      | Panic => Panic
      | OutOfFuel => OutOfFuel
      end
  end.

(* ---------------------------------------------------------------- lists *)
(* l with the |src| elements from position i on replaced by src (i + |src| <= |l| wherever it is used) *)
Definition list_blit (l : list Z) (i : nat) (src : list Z) : list Z :=
  firstn i l ++ src ++ skipn (i + length src) l.
(* h with array a replaced *)
Definition heap_set (h : list (list Z)) (a : nat) (c : list Z) : list (list Z) :=
  firstn a h ++ c :: skipn (S a) h.

Definition arr_of (w : world) (a : nat) : list Z := nth a (w_heap w) [].
(* the len(s) bytes a slice denotes now *)
Definition sl_bytes (w : world) (s : slice) : list Z :=
  firstn (Z.to_nat (sl_len s)) (skipn (Z.to_nat (sl_off s)) (arr_of w (sl_arr s))).
(* write src into the array of s, at index i of s *)
Definition sl_blit (w : world) (s : slice) (i : Z) (src : list Z) : world :=
  mk_world (heap_set (w_heap w) (sl_arr s) (list_blit (arr_of w (sl_arr s)) (Z.to_nat (sl_off s + i)) src))
           (w_out w).

(* a slice value the run-time can have produced in this world *)
Definition sl_valid (w : world) (s : slice) : Prop :=
  (sl_arr s < length (w_heap w))%nat /\ 0 <= sl_off s /\ 0 <= sl_len s <= sl_cap s /\
  sl_off s + sl_cap s <= Z.of_nat (length (arr_of w (sl_arr s))).

(* ---------------------------------------------------------------- slices *)
(* b[i] *)
Definition m_index (s : slice) (i : Z) : M Z := fun w =>
  if (0 <=? i) && (i <? sl_len s)
  then Ok (nth (Z.to_nat (sl_off s + i)) (arr_of w (sl_arr s)) 0, w) else Panic.
(* b[i] = v *)
Definition m_store (s : slice) (i v : Z) : M unit := fun w =>
  if (0 <=? i) && (i <? sl_len s) then Ok (tt, sl_blit w s i [v]) else Panic.
(* b[i:j]   (b[i:] = m_slice b i (sl_len b), b[:j] = m_slice b 0 j) *)
Definition m_slice (s : slice) (i j : Z) : M slice := fun w =>
  if (0 <=? i) && (i <=? j) && (j <=? sl_cap s)
  then Ok (mk_slice (sl_arr s) (sl_off s + i) (j - i) (sl_cap s - i), w) else Panic.
(* make([]byte, n): a new zeroed array, number = the old size of the heap *)
Definition m_make (n : Z) : M slice := fun w =>
  if (0 <=? n) && (n <=? 9223372036854775807)
  then Ok (mk_slice (length (w_heap w)) 0 n n,
           mk_world (w_heap w ++ [repeat 0 (Z.to_nat n)]) (w_out w))
  else Panic.
(* []byte(str): a new array holding a copy *)
Definition m_of_list (l : list Z) : M slice := fun w =>
  Ok (mk_slice (length (w_heap w)) 0 (go_len l) (go_len l), mk_world (w_heap w ++ [l]) (w_out w)).
(* string(b): a copy of the bytes as they are now *)
Definition m_bytes (s : slice) : M (list Z) := fun w => Ok (sl_bytes w s, w).
(* copy(dst, src) from a string or an array slice value: min(len dst, len src) bytes, returns the count *)
Definition m_copy_list (dst : slice) (src : list Z) : M Z := fun w =>
  let n := Z.min (sl_len dst) (go_len src) in
  Ok (n, sl_blit w dst 0 (firstn (Z.to_nat n) src)).
(* copy(dst, src) between slices: the source bytes are read before any is written (memmove) *)
Definition m_copy (dst src : slice) : M Z := fun w => m_copy_list dst (sl_bytes w src) w.

(* ---------------------------------------------------------------- encoding/binary *)
Fixpoint be_val_z (l : list Z) : Z :=
  match l with [] => 0 | b :: r => b * 256 ^ Z.of_nat (length r) + be_val_z r end.
Fixpoint le_val_z (l : list Z) : Z :=
  match l with [] => 0 | b :: r => b + 256 * le_val_z r end.
Fixpoint le_bytes_z (k : nat) (v : Z) : list Z :=
  match k with O => [] | S k' => v mod 256 :: le_bytes_z k' (v / 256) end.
Definition be_bytes_z (k : nat) (v : Z) : list Z := rev (le_bytes_z k v).

(* binary.{Big,Little}Endian.UintNN(b), NN = 8k: panics unless len b >= k *)
Definition m_get_uint (big : bool) (k : nat) (s : slice) : M Z := fun w =>
  if Z.of_nat k <=? sl_len s
  then let l := firstn k (sl_bytes w s) in Ok (if big then be_val_z l else le_val_z l, w)
  else Panic.
(* binary.{Big,Little}Endian.PutUintNN(b, v), 0 <= v < 2^NN: panics unless len b >= k *)
Definition m_put_uint (big : bool) (k : nat) (s : slice) (v : Z) : M unit := fun w =>
  if Z.of_nat k <=? sl_len s
  then Ok (tt, sl_blit w s 0 (if big then be_bytes_z k v else le_bytes_z k v))
  else Panic.
(* the same readers on an array / string VALUE (for  binary.X.UintNN(a[:])  of an array a) *)
Definition v_get_uint (big : bool) (k : nat) (l : list Z) : res Z :=
  if Z.of_nat k <=? go_len l
  then Ok (if big then be_val_z (firstn k l) else le_val_z (firstn k l)) else Panic.

(* ---------------------------------------------------------------- io oracles *)
(* io.Writer: an arbitrary function from the writes seen so far and the bytes of this call to
   (n, err).  The contract of io.Writer that is TRUSTED here: Write does not modify or retain p. *)
Definition g_writer (E : Type) : Type := list (list Z) -> list Z -> Z * option E.
Definition m_io_write {E : Type} (wr : g_writer E) (s : slice) : M (Z * option E) := fun w =>
  let bs := sl_bytes w s in
  Ok (wr (w_out w) bs, mk_world (w_heap w) (w_out w ++ [bs])).
(* io.Reader (v4): a STATEFUL oracle.  A reader value is the history of its earlier calls (the len(p) of each,
   oldest first) together with an arbitrary function from that history and the len(p) of this call to
   (the bytes it stores at the front of p, n, err); a call returns the reader with the history extended, and
   the translator stores it back into the variable / field the reader was taken from.  Storing more than
   len(p) bytes is a Panic; 0 <= n <= len(p) is the io.Reader contract and a HYPOTHESIS of the theorems, not
   built in. *)
Record g_reader (E : Type) : Type :=
  mk_reader { rd_hist : list Z; rd_fun : list Z -> Z -> list Z * Z * option E }.
Arguments mk_reader {E} _ _.
Arguments rd_hist {E} _.
Arguments rd_fun {E} _ _ _.
Definition rd_next {E : Type} (rd : g_reader E) (k : Z) : g_reader E := mk_reader (rd_hist rd ++ [k]) (rd_fun rd).
Definition m_io_read {E : Type} (rd : g_reader E) (s : slice) : M (Z * option E * g_reader E) := fun w =>
  let '(d, n, e) := rd_fun rd (rd_hist rd) (sl_len s) in
  if go_len d <=? sl_len s then Ok ((n, e, rd_next rd (sl_len s)), sl_blit w s 0 d) else Panic.

(* io.ReadFull(r, buf) = io.ReadAtLeast(r, buf, len(buf)) (io/io.go), transcribed over the oracle:
     for n < min && err == nil { nn, err = r.Read(buf[n:]); n += nn }
     if n >= min { err = nil } else if n > 0 && err == EOF { err = ErrUnexpectedEOF }
   eof / unexp / is_eof are io.EOF, io.ErrUnexpectedEOF and the comparison with io.EOF in the error type of the
   caller.  Fuel len(buf) + 2: enough for every reader that makes progress (n > 0 or an error on a non-empty
   buffer); a reader that keeps answering (0, nil) makes Go loop forever and this function OutOfFuel. *)
Definition m_read_full_body {E : Type} (s : slice) (st : Z * option E * g_reader E)
  : M (step (Z * option E * g_reader E) unit) :=
  let '(n, err, rd) := st in
  if (n <? sl_len s) && (match err with None => true | Some _ => false end)
  then mbind (m_slice s n (sl_len s)) (fun sub =>
       mbind (m_io_read rd sub) (fun '(nn, err', rd') =>
       ret (Continue (n + nn, err', rd'))))
  else ret (Break (n, err, rd)).
Definition m_io_read_full {E : Type} (eof unexp : E) (is_eof : E -> bool) (rd : g_reader E) (s : slice)
  : M (Z * option E * g_reader E) :=
  mbind (m_loop (Z.to_nat (sl_len s) + 2) (m_read_full_body s) (0, None, rd))
        (fun r => match r with
                  | inr _ => m_panic
                  | inl (n, err, rd) =>
                      let err := if sl_len s <=? n then None
                                 else if (0 <? n) && (match err with Some e => is_eof e | None => false end)
                                      then Some unexp else err in
                      ret (n, err, rd)
                  end).

(* make([]byte, n, c): a new zeroed array of c bytes, len n *)
Definition m_make_cap (n c : Z) : M slice := fun w =>
  if (0 <=? n) && (n <=? c) && (c <=? 9223372036854775807)
  then Ok (mk_slice (length (w_heap w)) 0 n c,
           mk_world (w_heap w ++ [repeat 0 (Z.to_nat c)]) (w_out w))
  else Panic.

(* copy(a[lo:hi], src) into an array VALUE a (a local array / a field of a local struct value; the temporary
   slice cannot escape): the count and the updated array *)
Definition v_copy_into (a : list Z) (lo hi : Z) (src : list Z) : res (Z * list Z) :=
  if (0 <=? lo) && (lo <=? hi) && (hi <=? go_len a)
  then let n := Z.min (hi - lo) (go_len src) in
       Ok (n, list_blit a (Z.to_nat lo) (firstn (Z.to_nat n) src))
  else Panic.
