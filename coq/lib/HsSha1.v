(* HsSha1.v — SHA-1 as specified in FIPS 180-4 (sections 5.1.1, 5.3.1, 6.1), over
   32-bit words represented as N.  This is a SPEC (definition), validated against Go's
   crypto/sha1 by correspondence and against the standard vectors in HsCryptoProofs.v. *)
Require Import Bytes.
Open Scope N_scope.

Definition w32 : N := 4294967296.
Definition add32 (a b : N) : N := (a + b) mod w32.
Definition rotl (n x : N) : N := (N.lor (N.shiftl x n) (N.shiftr x (32 - n))) mod w32.
Definition not32 (x : N) : N := w32 - 1 - x.

(* 5.1.1 padding: 0x80, zeros up to 56 mod 64, 64-bit big-endian bit length *)
Definition sha1_pad (m : list byte) : list byte :=
  let l := len m in
  let k := (119 - (l mod 64)) mod 64 in   (* number of zero bytes: (55 - l) mod 64 *)
  m ++ [128] ++ repeat 0 (N.to_nat k) ++ be_bytes 8 (8 * l).

(* 16 big-endian words of a 64-byte block *)
Fixpoint words_of (n : nat) (l : list byte) : list N :=
  match n with
  | O => []
  | S n' => be_val (firstn 4 l) :: words_of n' (skipn 4 l)
  end.

(* 6.1.2 step 1: message schedule, kept reversed (head = W[t-1]) *)
Fixpoint schedule (n : nat) (wrev : list N) : list N :=
  match n with
  | O => wrev
  | S n' =>
      let w := rotl 1 (N.lxor (N.lxor (nth 2 wrev 0) (nth 7 wrev 0))
                              (N.lxor (nth 13 wrev 0) (nth 15 wrev 0))) in
      schedule n' (w :: wrev)
  end.

(* 4.1.1 functions and 4.2.1 constants *)
Definition sha1_f (t : nat) (b c d : N) : N :=
  if (t <? 20)%nat then N.lor (N.land b c) (N.land (not32 b) d)
  else if (t <? 40)%nat then N.lxor (N.lxor b c) d
  else if (t <? 60)%nat then N.lor (N.lor (N.land b c) (N.land b d)) (N.land c d)
  else N.lxor (N.lxor b c) d.
Definition sha1_k (t : nat) : N :=
  if (t <? 20)%nat then 1518500249       (* 5a827999 *)
  else if (t <? 40)%nat then 1859775393  (* 6ed9eba1 *)
  else if (t <? 60)%nat then 2400959708  (* 8f1bbcdc *)
  else 3395469782.                       (* ca62c1d6 *)

Record sha1_state := mkS { sa : N; sb : N; sc : N; sd : N; se : N }.

(* 6.1.2 step 3 *)
Fixpoint rounds (t : nat) (ws : list N) (s : sha1_state) : sha1_state :=
  match ws with
  | [] => s
  | w :: ws' =>
      let tmp := add32 (add32 (add32 (add32 (rotl 5 (sa s)) (sha1_f t (sb s) (sc s) (sd s))) (se s))
                              (sha1_k t)) w in
      rounds (S t) ws' (mkS tmp (sa s) (rotl 30 (sb s)) (sc s) (sd s))
  end.

Definition sha1_block (h : sha1_state) (blk : list byte) : sha1_state :=
  let ws := rev (schedule 64 (rev (words_of 16 blk))) in
  let s := rounds 0 ws h in
  mkS (add32 (sa h) (sa s)) (add32 (sb h) (sb s)) (add32 (sc h) (sc s))
      (add32 (sd h) (sd s)) (add32 (se h) (se s)).

Fixpoint sha1_blocks (n : nat) (h : sha1_state) (l : list byte) : sha1_state :=
  match n with
  | O => h
  | S n' => sha1_blocks n' (sha1_block h (firstn 64 l)) (skipn 64 l)
  end.

(* 5.3.1 initial hash value *)
Definition sha1_init : sha1_state := mkS 1732584193 4023233417 2562383102 271733878 3285377520.

Definition sha1 (m : list byte) : list byte :=
  let p := sha1_pad m in
  let h := sha1_blocks (length p / 64) sha1_init p in
  be_bytes 4 (sa h) ++ be_bytes 4 (sb h) ++ be_bytes 4 (sc h) ++ be_bytes 4 (sd h) ++ be_bytes 4 (se h).
