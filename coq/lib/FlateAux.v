(* FlateAux.v — small facts about byte-list equality and list helpers shared by the
   wsflate models (C12, C14). *)
Require Import Bytes.
From Coq Require Import ZifyBool ZifyN ZifyNat.
Open Scope N_scope.

Lemma bytes_eqb_refl a : bytes_eqb a a = true.
Proof. induction a as [|x a IH]; simpl; [reflexivity|]. rewrite N.eqb_refl, IH. reflexivity. Qed.

Lemma bytes_eqb_eq a b : bytes_eqb a b = true <-> a = b.
Proof.
  split; [|intros ->; apply bytes_eqb_refl].
  revert b; induction a as [|x a IH]; intros [|y b]; simpl; try discriminate; [reflexivity|].
  intros H. apply andb_true_iff in H. destruct H as [H1 H2].
  apply N.eqb_eq in H1. apply IH in H2. subst. reflexivity.
Qed.

Lemma bytes_eqb_neq a b : bytes_eqb a b = false <-> a <> b.
Proof.
  split.
  - intros H E. apply bytes_eqb_eq in E. congruence.
  - intros H. destruct (bytes_eqb a b) eqn:E; [|reflexivity]. apply bytes_eqb_eq in E. contradiction.
Qed.

Lemma bytes_eqb_sym a b : bytes_eqb a b = bytes_eqb b a.
Proof.
  destruct (bytes_eqb a b) eqn:E.
  - apply bytes_eqb_eq in E. subst. symmetry. apply bytes_eqb_refl.
  - symmetry. apply bytes_eqb_neq. apply bytes_eqb_neq in E. congruence.
Qed.

Lemma lt16_cases (P : N -> Prop) :
  P 0 -> P 1 -> P 2 -> P 3 -> P 4 -> P 5 -> P 6 -> P 7 -> P 8 -> P 9 -> P 10 -> P 11 ->
  P 12 -> P 13 -> P 14 -> P 15 -> forall c, c < 16 -> P c.
Proof.
  intros.
  assert (E: c = 0 \/ c = 1 \/ c = 2 \/ c = 3 \/ c = 4 \/ c = 5 \/ c = 6 \/ c = 7 \/ c = 8 \/
             c = 9 \/ c = 10 \/ c = 11 \/ c = 12 \/ c = 13 \/ c = 14 \/ c = 15) by lia.
  repeat (destruct E as [->|E]; [assumption|]). subst; assumption.
Qed.
